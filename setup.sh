#!/bin/sh
# Builds the framework from files on disk only (offline). Run once in /verif after a fresh restore.
set -e
cd "$(dirname "$0")"
export GOFLAGS=-mod=mod GOPROXY=off GOSUMDB=off GOTOOLCHAIN=local CGO_ENABLED=1
mkdir -p bin evidence .build
(cd harness && go build -o ../bin/vcheck ./cmd/vcheck)
# warm the build cache for the client children (plain and -race), so that the first check does not pay for it
(cd harness && go build -tags verif -o ../.build/warm-client ./client && go build -tags verif -race -o ../.build/warm-client-race ./client) || true
rm -f .build/warm-client .build/warm-client-race
echo "setup ok"
