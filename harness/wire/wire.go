// Package wire is an independent transcription of the Seata v1 ("seata" serializer) message layout.
// It deliberately imports nothing from seata-go: it is the trusted base of C12/C13 and the transport
// codec of the fake coordinator.
package wire

import (
	"encoding/binary"
	"fmt"
	"sort"
)

type Kind int

const (
	U8 Kind = iota
	I16
	I32
	I64
	Bool8
	Str16  // u16 length + bytes
	Str32  // u32 length + bytes
	Result // resultCode u8; when code == 0 (Failed): msg str16 (truncated to 32767)
	Lock16 // lockable: i16 0/1
)

type Field struct {
	Name string
	Kind Kind
}

// type codes
const (
	TGlobalBegin                = 1
	TGlobalBeginResult          = 2
	TBranchCommit               = 3
	TBranchCommitResult         = 4
	TBranchRollback             = 5
	TBranchRollbackResult       = 6
	TGlobalCommit               = 7
	TGlobalCommitResult         = 8
	TGlobalRollback             = 9
	TGlobalRollbackResult       = 10
	TBranchRegister             = 11
	TBranchRegisterResult       = 12
	TBranchReport               = 13
	TBranchReportResult         = 14
	TGlobalStatus               = 15
	TGlobalStatusResult         = 16
	TGlobalReport               = 17
	TGlobalReportResult         = 18
	TGlobalLockQuery            = 21
	TGlobalLockQueryResult      = 22
	TRegTM                      = 101
	TRegTMResult                = 102
	TRegRM                      = 103
	TRegRMResult                = 104
	ResultFailed           byte = 0
	ResultSuccess          byte = 1
)

var txnResp = []Field{{"result", Result}, {"excCode", U8}}
var identReq = []Field{{"version", Str16}, {"applicationId", Str16}, {"txServiceGroup", Str16}, {"extraData", Str16}}
var identResp = []Field{{"identified", Bool8}, {"version", Str16}}
var globalEndReq = []Field{{"xid", Str16}, {"extraData", Str16}}
var globalEndResp = cat(txnResp, Field{"globalStatus", U8})
var branchEndReq = []Field{{"xid", Str16}, {"branchId", I64}, {"branchType", U8}, {"resourceId", Str16}, {"applicationData", Str32}}
var branchEndResp = cat(txnResp, Field{"xid", Str16}, Field{"branchId", I64}, Field{"branchStatus", U8})
var branchRegReq = []Field{{"xid", Str16}, {"branchType", U8}, {"resourceId", Str16}, {"lockKey", Str32}, {"applicationData", Str32}}

func cat(a []Field, b ...Field) []Field {
	out := append([]Field{}, a...)
	return append(out, b...)
}

// Layout is the Seata v1 body layout per type code (after the 2-byte type code).
var Layout = map[int16][]Field{
	TGlobalBegin:           {{"timeout", I32}, {"transactionName", Str16}},
	TGlobalBeginResult:     cat(txnResp, Field{"xid", Str16}, Field{"extraData", Str16}),
	TBranchCommit:          branchEndReq,
	TBranchCommitResult:    branchEndResp,
	TBranchRollback:        branchEndReq,
	TBranchRollbackResult:  branchEndResp,
	TGlobalCommit:          globalEndReq,
	TGlobalCommitResult:    globalEndResp,
	TGlobalRollback:        globalEndReq,
	TGlobalRollbackResult:  globalEndResp,
	TBranchRegister:        branchRegReq,
	TBranchRegisterResult:  cat(txnResp, Field{"branchId", I64}),
	TBranchReport:          {{"xid", Str16}, {"branchId", I64}, {"status", U8}, {"resourceId", Str16}, {"applicationData", Str32}, {"branchType", U8}},
	TBranchReportResult:    txnResp,
	TGlobalStatus:          globalEndReq,
	TGlobalStatusResult:    globalEndResp,
	TGlobalReport:          cat(globalEndReq, Field{"globalStatus", U8}),
	TGlobalReportResult:    globalEndResp,
	TGlobalLockQuery:       branchRegReq,
	TGlobalLockQueryResult: cat(txnResp, Field{"lockable", Lock16}),
	TRegTM:                 identReq,
	TRegTMResult:           identResp,
	TRegRM:                 cat(identReq, Field{"resourceIds", Str32}),
	TRegRMResult:           identResp,
}

var Names = map[int16]string{
	1: "GlobalBegin", 2: "GlobalBeginResult", 3: "BranchCommit", 4: "BranchCommitResult", 5: "BranchRollback", 6: "BranchRollbackResult",
	7: "GlobalCommit", 8: "GlobalCommitResult", 9: "GlobalRollback", 10: "GlobalRollbackResult", 11: "BranchRegister", 12: "BranchRegisterResult",
	13: "BranchReport", 14: "BranchReportResult", 15: "GlobalStatus", 16: "GlobalStatusResult", 17: "GlobalReport", 18: "GlobalReportResult",
	21: "GlobalLockQuery", 22: "GlobalLockQueryResult", 101: "RegisterTM", 102: "RegisterTMResult", 103: "RegisterRM", 104: "RegisterRMResult",
}

// TypeCodes returns all known type codes in ascending order.
func TypeCodes() []int16 {
	var out []int16
	for k := range Layout {
		out = append(out, k)
	}
	sort.Slice(out, func(i, j int) bool { return out[i] < out[j] })
	return out
}

// Msg is a decoded message: type code and field values. Values: int64 for integer kinds, bool for Bool8/Lock16,
// string for Str16/Str32; the Result kind contributes two entries: "resultCode" (int64) and "msg" (string).
type Msg struct {
	Type int16
	F    map[string]interface{}
}

func (m *Msg) Name() string { return Names[m.Type] }
func (m *Msg) S(k string) string {
	if v, ok := m.F[k].(string); ok {
		return v
	}
	return ""
}
func (m *Msg) I(k string) int64 {
	switch v := m.F[k].(type) {
	case int64:
		return v
	case int:
		return int64(v)
	case float64:
		return int64(v)
	}
	return 0
}
func (m *Msg) B(k string) bool { v, _ := m.F[k].(bool); return v }

func New(t int16, kv ...interface{}) *Msg {
	m := &Msg{Type: t, F: map[string]interface{}{}}
	for i := 0; i+1 < len(kv); i += 2 {
		v := kv[i+1]
		switch x := v.(type) {
		case int:
			v = int64(x)
		case int32:
			v = int64(x)
		case byte:
			v = int64(x)
		case []byte:
			v = string(x)
		}
		m.F[kv[i].(string)] = v
	}
	return m
}

const MaxMsg = 32767

// Encode renders the body (type code + fields) of m per Layout.
func Encode(m *Msg) ([]byte, error) {
	fs, ok := Layout[m.Type]
	if !ok {
		return nil, fmt.Errorf("wire: unknown type %d", m.Type)
	}
	b := binary.BigEndian.AppendUint16(nil, uint16(m.Type))
	for _, f := range fs {
		switch f.Kind {
		case U8:
			b = append(b, byte(m.I(f.Name)))
		case I16:
			b = binary.BigEndian.AppendUint16(b, uint16(m.I(f.Name)))
		case I32:
			b = binary.BigEndian.AppendUint32(b, uint32(m.I(f.Name)))
		case I64:
			b = binary.BigEndian.AppendUint64(b, uint64(m.I(f.Name)))
		case Bool8:
			if m.B(f.Name) {
				b = append(b, 1)
			} else {
				b = append(b, 0)
			}
		case Lock16:
			if m.B(f.Name) {
				b = append(b, 0, 1)
			} else {
				b = append(b, 0, 0)
			}
		case Str16:
			s := m.S(f.Name)
			if len(s) > 65535 {
				return nil, fmt.Errorf("wire: %s too long for str16", f.Name)
			}
			b = binary.BigEndian.AppendUint16(b, uint16(len(s)))
			b = append(b, s...)
		case Str32:
			s := m.S(f.Name)
			b = binary.BigEndian.AppendUint32(b, uint32(len(s)))
			b = append(b, s...)
		case Result:
			code := byte(m.I("resultCode"))
			b = append(b, code)
			if code == ResultFailed {
				s := m.S("msg")
				if len(s) > MaxMsg {
					s = s[:MaxMsg]
				}
				b = binary.BigEndian.AppendUint16(b, uint16(len(s)))
				b = append(b, s...)
			}
		}
	}
	return b, nil
}

type DecodeError struct{ Why string }

func (e *DecodeError) Error() string { return "wire: " + e.Why }

// Decode parses a body; it returns the message and the number of bytes consumed.
func Decode(b []byte) (*Msg, int, error) {
	if len(b) < 2 {
		return nil, 0, &DecodeError{"short type code"}
	}
	t := int16(binary.BigEndian.Uint16(b))
	fs, ok := Layout[t]
	if !ok {
		return nil, 0, &DecodeError{fmt.Sprintf("unknown type code %d", t)}
	}
	m := &Msg{Type: t, F: map[string]interface{}{}}
	p := 2
	need := func(n int) bool { return p+n <= len(b) }
	for _, f := range fs {
		switch f.Kind {
		case U8:
			if !need(1) {
				return m, p, &DecodeError{"short at " + f.Name}
			}
			m.F[f.Name] = int64(b[p])
			p++
		case I16:
			if !need(2) {
				return m, p, &DecodeError{"short at " + f.Name}
			}
			m.F[f.Name] = int64(int16(binary.BigEndian.Uint16(b[p:])))
			p += 2
		case I32:
			if !need(4) {
				return m, p, &DecodeError{"short at " + f.Name}
			}
			m.F[f.Name] = int64(int32(binary.BigEndian.Uint32(b[p:])))
			p += 4
		case I64:
			if !need(8) {
				return m, p, &DecodeError{"short at " + f.Name}
			}
			m.F[f.Name] = int64(binary.BigEndian.Uint64(b[p:]))
			p += 8
		case Bool8:
			if !need(1) {
				return m, p, &DecodeError{"short at " + f.Name}
			}
			m.F[f.Name] = b[p] != 0
			p++
		case Lock16:
			if !need(2) {
				return m, p, &DecodeError{"short at " + f.Name}
			}
			m.F[f.Name] = binary.BigEndian.Uint16(b[p:]) == 1
			p += 2
		case Str16:
			if !need(2) {
				return m, p, &DecodeError{"short at " + f.Name}
			}
			n := int(binary.BigEndian.Uint16(b[p:]))
			p += 2
			if !need(n) {
				return m, p, &DecodeError{"short at " + f.Name}
			}
			m.F[f.Name] = string(b[p : p+n])
			p += n
		case Str32:
			if !need(4) {
				return m, p, &DecodeError{"short at " + f.Name}
			}
			n := int(binary.BigEndian.Uint32(b[p:]))
			p += 4
			if n < 0 || !need(n) {
				return m, p, &DecodeError{"short at " + f.Name}
			}
			m.F[f.Name] = string(b[p : p+n])
			p += n
		case Result:
			if !need(1) {
				return m, p, &DecodeError{"short at resultCode"}
			}
			code := b[p]
			p++
			m.F["resultCode"] = int64(code)
			m.F["msg"] = ""
			if code == ResultFailed {
				if !need(2) {
					return m, p, &DecodeError{"short at msg"}
				}
				n := int(binary.BigEndian.Uint16(b[p:]))
				p += 2
				if !need(n) {
					return m, p, &DecodeError{"short at msg"}
				}
				m.F["msg"] = string(b[p : p+n])
				p += n
			}
		}
	}
	return m, p, nil
}

// ---- frames ----

const (
	FrameRequestSync   = 0
	FrameResponse      = 1
	FrameRequestOneway = 2
	FrameHeartbeatReq  = 3
	FrameHeartbeatResp = 4
	HeadLen            = 16
)

type HeadKV struct{ K, V string }

type Frame struct {
	Version    byte
	Type       byte
	Codec      byte
	Compressor byte
	ID         uint32
	Head       []HeadKV // ordered as on the wire
	Body       []byte   // type code + fields; empty for heart-beats
}

func EncodeFrame(f *Frame) []byte {
	var hm []byte
	for _, kv := range f.Head {
		hm = binary.BigEndian.AppendUint16(hm, uint16(len(kv.K)))
		hm = append(hm, kv.K...)
		hm = binary.BigEndian.AppendUint16(hm, uint16(len(kv.V)))
		hm = append(hm, kv.V...)
	}
	v := f.Version
	if v == 0 {
		v = 1
	}
	c := f.Codec
	if c == 0 {
		c = 1
	}
	b := []byte{0xda, 0xda, v}
	b = binary.BigEndian.AppendUint32(b, uint32(HeadLen+len(hm)+len(f.Body)))
	b = binary.BigEndian.AppendUint16(b, uint16(HeadLen+len(hm)))
	b = append(b, f.Type, c, f.Compressor)
	b = binary.BigEndian.AppendUint32(b, f.ID)
	b = append(b, hm...)
	return append(b, f.Body...)
}

// DecodeFrame: (frame, consumed, error). consumed==0 && err==nil means "need more data".
func DecodeFrame(b []byte) (*Frame, int, error) {
	if len(b) < HeadLen {
		if len(b) >= 1 && b[0] != 0xda || len(b) >= 2 && b[1] != 0xda {
			return nil, 0, &DecodeError{"bad magic"}
		}
		return nil, 0, nil
	}
	if b[0] != 0xda || b[1] != 0xda {
		return nil, 0, &DecodeError{"bad magic"}
	}
	total := int(binary.BigEndian.Uint32(b[3:7]))
	hl := int(binary.BigEndian.Uint16(b[7:9]))
	if hl < HeadLen || total < hl {
		return nil, 0, &DecodeError{"bad lengths"}
	}
	if len(b) < total {
		return nil, 0, nil
	}
	f := &Frame{Version: b[2], Type: b[9], Codec: b[10], Compressor: b[11], ID: binary.BigEndian.Uint32(b[12:16])}
	p := HeadLen
	for p < hl {
		if p+2 > hl {
			return nil, 0, &DecodeError{"bad head map"}
		}
		kl := int(binary.BigEndian.Uint16(b[p:]))
		p += 2
		if p+kl+2 > hl {
			return nil, 0, &DecodeError{"bad head map"}
		}
		k := string(b[p : p+kl])
		p += kl
		vl := int(binary.BigEndian.Uint16(b[p:]))
		p += 2
		if p+vl > hl {
			return nil, 0, &DecodeError{"bad head map"}
		}
		f.Head = append(f.Head, HeadKV{k, string(b[p : p+vl])})
		p += vl
	}
	f.Body = append([]byte{}, b[hl:total]...)
	return f, total, nil
}

// ---- lossless text form (transport between harness processes; not part of the trusted layout) ----

type TextMsg struct {
	Type int16             `json:"type"`
	F    map[string]string `json:"f"`
}

func ToText(m *Msg) TextMsg {
	t := TextMsg{Type: m.Type, F: map[string]string{}}
	for k, v := range m.F {
		switch x := v.(type) {
		case int64:
			t.F[k] = fmt.Sprintf("i:%d", x)
		case bool:
			if x {
				t.F[k] = "b:1"
			} else {
				t.F[k] = "b:0"
			}
		case string:
			t.F[k] = "s:" + hexEnc(x)
		}
	}
	return t
}

func FromText(t TextMsg) *Msg {
	m := &Msg{Type: t.Type, F: map[string]interface{}{}}
	for k, v := range t.F {
		if len(v) < 2 {
			continue
		}
		switch v[:2] {
		case "i:":
			var n int64
			fmt.Sscanf(v[2:], "%d", &n)
			m.F[k] = n
		case "b:":
			m.F[k] = v[2:] == "1"
		case "s:":
			m.F[k] = hexDec(v[2:])
		}
	}
	return m
}

const hexdigits = "0123456789abcdef"

func hexEnc(s string) string {
	b := make([]byte, 0, len(s)*2)
	for i := 0; i < len(s); i++ {
		b = append(b, hexdigits[s[i]>>4], hexdigits[s[i]&15])
	}
	return string(b)
}

func hexDec(s string) string {
	b := make([]byte, 0, len(s)/2)
	v := func(c byte) byte {
		if c >= 'a' {
			return c - 'a' + 10
		}
		return c - '0'
	}
	for i := 0; i+1 < len(s); i += 2 {
		b = append(b, v(s[i])<<4|v(s[i+1]))
	}
	return string(b)
}

// Equal compares two messages field by field over the layout of a's type (missing == zero value).
func Equal(a, b *Msg) (bool, string) {
	if a.Type != b.Type {
		return false, fmt.Sprintf("type %d != %d", a.Type, b.Type)
	}
	for _, f := range Layout[a.Type] {
		switch f.Kind {
		case Str16, Str32:
			if a.S(f.Name) != b.S(f.Name) {
				return false, fmt.Sprintf("field %s: %d bytes %q… != %d bytes %q…", f.Name, len(a.S(f.Name)), clip(a.S(f.Name)), len(b.S(f.Name)), clip(b.S(f.Name)))
			}
		case Bool8, Lock16:
			if a.B(f.Name) != b.B(f.Name) {
				return false, fmt.Sprintf("field %s: %v != %v", f.Name, a.B(f.Name), b.B(f.Name))
			}
		case Result:
			if a.I("resultCode") != b.I("resultCode") {
				return false, fmt.Sprintf("resultCode %d != %d", a.I("resultCode"), b.I("resultCode"))
			}
			if a.I("resultCode") == int64(ResultFailed) && a.S("msg") != b.S("msg") {
				return false, fmt.Sprintf("msg: %d bytes != %d bytes", len(a.S("msg")), len(b.S("msg")))
			}
		case U8:
			if byte(a.I(f.Name)) != byte(b.I(f.Name)) {
				return false, fmt.Sprintf("field %s: %d != %d", f.Name, byte(a.I(f.Name)), byte(b.I(f.Name)))
			}
		default:
			if a.I(f.Name) != b.I(f.Name) {
				return false, fmt.Sprintf("field %s: %d != %d", f.Name, a.I(f.Name), b.I(f.Name))
			}
		}
	}
	return true, ""
}

func clip(s string) string {
	if len(s) > 24 {
		return s[:24]
	}
	return s
}
