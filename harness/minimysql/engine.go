package minimysql

import (
	"fmt"
	"math"
	"math/big"
	"sort"
	"strconv"
	"strings"
	"sync"
	"time"
)

// ---------- catalogue ----------

type CT int

const (
	TInt CT = iota // all integer widths, see Bits/Unsigned
	TFloat
	TDouble
	TDecimal
	TChar // char/varchar/text family
	TBin  // binary/varbinary/blob family
	TDate
	TDateTime
	TTimestamp
	TTime
	TYear
	TBit
	TJSON
)

type Column struct {
	Name     string
	T        CT
	DataType string // information_schema DATA_TYPE, e.g. "bigint", "varchar"
	ColType  string // COLUMN_TYPE e.g. "bigint(20)"
	Bits     int    // 8,16,24,32,64 for ints
	Unsigned bool
	Len      int
	Scale    int
	Fsp      int
	Nullable bool
	HasDef   bool
	Default  interface{} // typed value or nil
	DefNow   bool
	AutoInc  bool
}

type Table struct {
	Name    string
	Cols    []Column
	PK      []int   // column indexes in key order
	Uniques [][]int // secondary unique keys
	UniqueN []string
	rows    map[string][]interface{} // committed rows by pk key
	autoInc int64
}

func (t *Table) colIndex(name string) int {
	for i := range t.Cols {
		if strings.EqualFold(t.Cols[i].Name, name) {
			return i
		}
	}
	return -1
}

func (t *Table) pkKey(row []interface{}) string {
	var sb strings.Builder
	for _, i := range t.PK {
		sb.WriteString(keyText(row[i]))
		sb.WriteByte(0)
	}
	return sb.String()
}

func keyText(v interface{}) string {
	switch x := v.(type) {
	case nil:
		return "\x01NULL"
	case int64:
		return "i" + strconv.FormatInt(x, 10)
	case uint64:
		return "i" + strconv.FormatUint(x, 10)
	case float64:
		return "f" + strconv.FormatFloat(x, 'g', -1, 64)
	case string:
		return "s" + strings.ToLower(x)
	case []byte:
		return "b" + string(x)
	case time.Time:
		return "t" + x.UTC().Format(time.RFC3339Nano)
	case Dec:
		return "d" + x.String()
	}
	return fmt.Sprintf("?%v", v)
}

// Dec is an exact decimal.
type Dec struct {
	R     *big.Rat
	Scale int
}

func (d Dec) String() string { return d.R.FloatString(d.Scale) }

// ---------- engine ----------

type MyErr struct {
	Code  uint16
	State string
	Msg   string
}

func (e *MyErr) Error() string { return fmt.Sprintf("Error %d: %s", e.Code, e.Msg) }

func errf(code uint16, state, f string, a ...interface{}) *MyErr {
	return &MyErr{code, state, fmt.Sprintf(f, a...)}
}

type RowChange struct {
	Table  string
	Key    string
	Before []interface{}
	After  []interface{}
}

type JournalEntry struct {
	Seq            int64
	SeqOut         int64
	Conn           int
	User           string
	Class          string // connection class: value of @verif_class, else the login user
	SQL            string
	Args           []interface{}
	Kind           string
	Table          string // target table of a DML/SELECT (upper case), "" otherwise
	Err            *MyErr
	Injected       string // "", "error", "drop-before", "drop-after", "delay"
	Affected       uint64
	LastID         uint64
	Changes        []RowChange     // ground-truth row diff of this command (in transaction scope)
	Committed      []RowChange     // rows made durable by this command (COMMIT / autocommit / XA COMMIT / implicit commit)
	Matched        []string        // pk keys of the rows the statement's WHERE/ORDER/LIMIT selected (DML and locking reads)
	MatchedRows    [][]interface{} // pre-statement content of those rows (same order as Matched)
	InTxBefore     bool
	InTxAfter      bool
	NRows          int
	Prepared       bool // arrived through COM_STMT_EXECUTE
	ImplicitCommit bool
}

type overlayEntry struct {
	table   string
	key     string
	row     []interface{} // nil = deleted
	prev    *overlayEntry // previous overlay state for this key (for savepoint rollback)
	hadPrev bool
}

type txState struct {
	readOnly bool
	active   bool
	overlay  map[string]map[string][]interface{} // table -> key -> row (nil = deleted)
	present  map[string]map[string]bool          // whether key is in overlay
	undo     []overlayEntry
	locks    map[string]bool
	saves    []savepoint
	changes  []RowChange
}

type savepoint struct {
	name string
	undo int
}

// Action is what an injector wants done with a command.
type Action struct {
	Err        *MyErr // fail the command with this error instead of executing it
	DropBefore bool   // close the connection without executing and without replying
	DropAfter  bool   // execute, then close the connection without replying
	Note       string
}

type Engine struct {
	mu      sync.Mutex
	cond    *sync.Cond
	tables  map[string]*Table // upper-case name
	locks   map[string]int    // table\x00key -> conn id
	xa      map[string]*xaBranch
	Version string
	seq     int64
	Clock   interface{ Next() int64 }
	Journal []*JournalEntry
	// Inject is consulted for every command after it was journalled and before it executes. It runs WITHOUT the
	// engine lock and may block (logical barriers).
	Inject           func(e *JournalEntry) *Action
	LockWait         time.Duration
	sessions         map[int]*Session
	AutoIncIncrement int64
}

type xaBranch struct {
	state string // ACTIVE IDLE PREPARED
	conn  int
	tx    *txState
}

func NewEngine() *Engine {
	e := &Engine{tables: map[string]*Table{}, locks: map[string]int{}, xa: map[string]*xaBranch{}, Version: "5.7.36", LockWait: 1500 * time.Millisecond, sessions: map[int]*Session{}, AutoIncIncrement: 1}
	e.cond = sync.NewCond(&e.mu)
	return e
}

func (e *Engine) nextSeq() int64 {
	if e.Clock != nil {
		return e.Clock.Next()
	}
	e.seq++
	return e.seq
}

func (e *Engine) CreateTable(t *Table) {
	e.mu.Lock()
	defer e.mu.Unlock()
	t.rows = map[string][]interface{}{}
	for i := range t.Cols {
		c := &t.Cols[i]
		if c.DataType == "" {
			c.DataType = defaultDataType(c)
		}
		if c.ColType == "" {
			c.ColType = c.DataType
		}
	}
	e.tables[strings.ToUpper(t.Name)] = t
}

func defaultDataType(c *Column) string {
	switch c.T {
	case TInt:
		switch c.Bits {
		case 8:
			return "tinyint"
		case 16:
			return "smallint"
		case 24:
			return "mediumint"
		case 32:
			return "int"
		}
		return "bigint"
	case TFloat:
		return "float"
	case TDouble:
		return "double"
	case TDecimal:
		return "decimal"
	case TChar:
		return "varchar"
	case TBin:
		return "varbinary"
	case TDate:
		return "date"
	case TDateTime:
		return "datetime"
	case TTimestamp:
		return "timestamp"
	case TTime:
		return "time"
	case TYear:
		return "year"
	case TBit:
		return "bit"
	case TJSON:
		return "json"
	}
	return "varchar"
}

func (e *Engine) table(name string) (*Table, *MyErr) {
	t := e.tables[strings.ToUpper(strings.Trim(name, "` "))]
	if t == nil {
		return nil, errf(1146, "42S02", "Table 'vdb.%s' doesn't exist", name)
	}
	return t, nil
}

// Snapshot returns a deep copy of committed rows of all tables: table -> sorted rows rendered as strings.
func (e *Engine) Snapshot() map[string][]string {
	e.mu.Lock()
	defer e.mu.Unlock()
	out := map[string][]string{}
	for n, t := range e.tables {
		var rows []string
		for _, r := range t.rows {
			rows = append(rows, renderRow(r))
		}
		sort.Strings(rows)
		out[n] = rows
	}
	return out
}

func renderRow(r []interface{}) string {
	parts := make([]string, len(r))
	for i, v := range r {
		parts[i] = fmt.Sprintf("%T:%s", v, textOf(v))
	}
	return strings.Join(parts, "|")
}

// ---------- session ----------

type Session struct {
	e            *Engine
	id           int
	user         string
	class        string
	closed       bool
	tx           *txState
	xaID         string // current XA id attached to this connection (ACTIVE/IDLE/PREPARED)
	lastInsertID uint64
	autoIncStep  int64
	// FoundRows: the client asked for CLIENT_FOUND_ROWS at the handshake: UPDATE reports the rows matched, not the
	// rows changed
	FoundRows bool
}

func (e *Engine) NewSession(id int, user string) *Session {
	s := &Session{e: e, id: id, user: user, class: user, autoIncStep: 1}
	e.mu.Lock()
	e.sessions[id] = s
	e.mu.Unlock()
	return s
}

func newTx() *txState {
	return &txState{active: true, overlay: map[string]map[string][]interface{}{}, present: map[string]map[string]bool{}, locks: map[string]bool{}}
}

func (s *Session) inTx() bool { return s.tx != nil && s.tx.active }

// visible row lookup (overlay then committed)
func (s *Session) getRow(t *Table, key string) ([]interface{}, bool) {
	if s.tx != nil {
		if m := s.tx.present[t.Name]; m != nil && m[key] {
			r := s.tx.overlay[t.Name][key]
			return r, r != nil
		}
	}
	r, ok := t.rows[key]
	return r, ok
}

// all visible rows in pk order
func (s *Session) scan(t *Table) [][]interface{} {
	keys := map[string]bool{}
	for k := range t.rows {
		keys[k] = true
	}
	if s.tx != nil {
		for k := range s.tx.present[t.Name] {
			keys[k] = true
		}
	}
	var rows [][]interface{}
	for k := range keys {
		if r, ok := s.getRow(t, k); ok {
			rows = append(rows, r)
		}
	}
	sort.Slice(rows, func(i, j int) bool {
		for _, c := range t.PK {
			if cmp := compareVals(rows[i][c], rows[j][c]); cmp != 0 {
				return cmp < 0
			}
		}
		return false
	})
	return rows
}

func (s *Session) lockRow(t *Table, key string) *MyErr {
	lk := t.Name + "\x00" + key
	deadline := time.Now().Add(s.e.LockWait)
	for {
		owner, held := s.e.locks[lk]
		if !held || owner == s.id {
			s.e.locks[lk] = s.id
			if s.tx != nil {
				s.tx.locks[lk] = true
			}
			return nil
		}
		if time.Now().After(deadline) {
			return errf(1205, "HY000", "Lock wait timeout exceeded; try restarting transaction")
		}
		// wait with timeout
		done := make(chan struct{})
		go func() {
			select {
			case <-time.After(20 * time.Millisecond):
				s.e.mu.Lock()
				s.e.cond.Broadcast()
				s.e.mu.Unlock()
			case <-done:
			}
		}()
		s.e.cond.Wait()
		close(done)
	}
}

func (s *Session) writeRow(t *Table, key string, row []interface{}) {
	tx := s.tx
	if tx.overlay[t.Name] == nil {
		tx.overlay[t.Name] = map[string][]interface{}{}
		tx.present[t.Name] = map[string]bool{}
	}
	prevRow, had := tx.overlay[t.Name][key], tx.present[t.Name][key]
	tx.undo = append(tx.undo, overlayEntry{table: t.Name, key: key, row: prevRow, hadPrev: had})
	tx.overlay[t.Name][key] = row
	tx.present[t.Name][key] = true
}

func (s *Session) releaseLocks(tx *txState) {
	for lk := range tx.locks {
		if s.e.locks[lk] == s.id {
			delete(s.e.locks, lk)
		}
	}
	tx.locks = map[string]bool{}
	s.e.cond.Broadcast()
}

func (s *Session) commitTx(tx *txState) []RowChange {
	var changes []RowChange
	for tn, m := range tx.overlay {
		t := s.e.tables[strings.ToUpper(tn)]
		if t == nil {
			continue // the table was dropped meanwhile (harness housekeeping)
		}
		for k, r := range m {
			before := t.rows[k]
			if r == nil {
				if before != nil {
					delete(t.rows, k)
					changes = append(changes, RowChange{Table: tn, Key: k, Before: before})
				}
			} else {
				t.rows[k] = r
				changes = append(changes, RowChange{Table: tn, Key: k, Before: before, After: r})
			}
		}
	}
	tx.active = false
	return changes
}

func (s *Session) rollbackToIndex(tx *txState, idx int) {
	for i := len(tx.undo) - 1; i >= idx; i-- {
		u := tx.undo[i]
		if u.hadPrev {
			tx.overlay[u.table][u.key] = u.row
		} else {
			delete(tx.overlay[u.table], u.key)
			delete(tx.present[u.table], u.key)
		}
	}
	tx.undo = tx.undo[:idx]
}

// Disconnect handling: rollback open tx (except prepared XA).
func (s *Session) Close() {
	s.e.mu.Lock()
	defer s.e.mu.Unlock()
	s.closed = true
	delete(s.e.sessions, s.id)
	if s.xaID != "" {
		if b := s.e.xa[s.xaID]; b != nil && b.state != "PREPARED" {
			s.releaseLocks(b.tx)
			delete(s.e.xa, s.xaID)
		}
		s.xaID = ""
		s.tx = nil
	}
	if s.tx != nil && s.tx.active {
		s.releaseLocks(s.tx)
		s.tx = nil
	}
}

// ---------- value helpers ----------

func textOf(v interface{}) string {
	switch x := v.(type) {
	case nil:
		return "NULL"
	case int64:
		return strconv.FormatInt(x, 10)
	case uint64:
		return strconv.FormatUint(x, 10)
	case float32:
		return strconv.FormatFloat(float64(x), 'g', -1, 32)
	case float64:
		return strconv.FormatFloat(x, 'g', -1, 64)
	case string:
		return x
	case []byte:
		return string(x)
	case Dec:
		return x.String()
	case time.Time:
		return x.Format("2006-01-02 15:04:05.000000")
	case bool:
		if x {
			return "1"
		}
		return "0"
	}
	return fmt.Sprint(v)
}

func isNum(v interface{}) bool {
	switch v.(type) {
	case int64, uint64, float64, float32, Dec, bool:
		return true
	}
	return false
}

func toFloat(v interface{}) float64 {
	switch x := v.(type) {
	case int64:
		return float64(x)
	case uint64:
		return float64(x)
	case float64:
		return x
	case float32:
		return float64(x)
	case Dec:
		f, _ := x.R.Float64()
		return f
	case bool:
		if x {
			return 1
		}
		return 0
	case string:
		return prefixFloat(x)
	case []byte:
		return prefixFloat(string(x))
	case time.Time:
		f, _ := strconv.ParseFloat(x.Format("20060102150405"), 64)
		return f
	}
	return 0
}

func prefixFloat(s string) float64 {
	s = strings.TrimSpace(s)
	end := 0
	seenDot, seenE := false, false
	for i, c := range s {
		if c >= '0' && c <= '9' {
			end = i + 1
			continue
		}
		if (c == '-' || c == '+') && (i == 0 || (seenE && (s[i-1] == 'e' || s[i-1] == 'E'))) {
			continue
		}
		if c == '.' && !seenDot && !seenE {
			seenDot = true
			continue
		}
		if (c == 'e' || c == 'E') && !seenE && end > 0 {
			seenE = true
			continue
		}
		break
	}
	f, _ := strconv.ParseFloat(s[:end], 64)
	return f
}

func toRat(v interface{}) (*big.Rat, bool) {
	switch x := v.(type) {
	case int64:
		return new(big.Rat).SetInt64(x), true
	case uint64:
		return new(big.Rat).SetInt(new(big.Int).SetUint64(x)), true
	case Dec:
		return x.R, true
	case bool:
		if x {
			return big.NewRat(1, 1), true
		}
		return big.NewRat(0, 1), true
	}
	return nil, false
}

// compareVals: MySQL-like comparison; nil handled by caller (returns 0 for nil==nil to allow sorting).
func compareVals(a, b interface{}) int {
	if a == nil || b == nil {
		if a == nil && b == nil {
			return 0
		}
		if a == nil {
			return -1
		}
		return 1
	}
	if ta, ok := a.(time.Time); ok {
		tb, ok2 := b.(time.Time)
		if !ok2 {
			tb, ok2 = parseTime(textOf(b))
		}
		if ok2 {
			switch {
			case ta.Before(tb):
				return -1
			case ta.After(tb):
				return 1
			}
			return 0
		}
	}
	if _, ok := b.(time.Time); ok {
		return -compareVals(b, a)
	}
	if isNum(a) || isNum(b) {
		ra, oka := toRat(a)
		rb, okb := toRat(b)
		if oka && okb {
			return ra.Cmp(rb)
		}
		fa, fb := toFloat(a), toFloat(b)
		switch {
		case fa < fb:
			return -1
		case fa > fb:
			return 1
		}
		return 0
	}
	_, ab := a.([]byte)
	_, bb := b.([]byte)
	sa, sb := textOf(a), textOf(b)
	if !ab && !bb {
		sa, sb = strings.ToLower(strings.TrimRight(sa, " ")), strings.ToLower(strings.TrimRight(sb, " "))
	}
	return strings.Compare(sa, sb)
}

var timeLayouts = []string{"2006-01-02 15:04:05.999999999", "2006-01-02T15:04:05.999999999Z07:00", "2006-01-02 15:04:05", "2006-01-02", "20060102150405", "20060102"}

func parseTime(s string) (time.Time, bool) {
	s = strings.TrimSpace(s)
	for _, l := range timeLayouts {
		if t, err := time.Parse(l, s); err == nil {
			return t.UTC(), true
		}
	}
	return time.Time{}, false
}

func roundTime(t time.Time, fsp int) time.Time {
	unit := time.Duration(math.Pow10(9 - fsp))
	return t.Round(unit)
}

// coerce converts an input value for storage in column c (strict mode).
func coerce(c *Column, v interface{}) (interface{}, *MyErr) {
	if v == nil {
		if !c.Nullable {
			return nil, errf(1048, "23000", "Column '%s' cannot be null", c.Name)
		}
		return nil, nil
	}
	switch c.T {
	case TInt, TYear, TBit:
		var r *big.Rat
		switch x := v.(type) {
		case string, []byte:
			s := strings.TrimSpace(textOf(x))
			rr, ok := new(big.Rat).SetString(s)
			if !ok {
				return nil, errf(1366, "HY000", "Incorrect integer value: '%s' for column '%s' at row 1", s, c.Name)
			}
			r = rr
		case float64:
			r = new(big.Rat).SetFloat64(math.RoundToEven(x))
		case float32:
			r = new(big.Rat).SetFloat64(math.RoundToEven(float64(x)))
		case time.Time:
			return nil, errf(1366, "HY000", "Incorrect integer value for column '%s'", c.Name)
		default:
			rr, ok := toRat(v)
			if !ok {
				return nil, errf(1366, "HY000", "Incorrect integer value for column '%s'", c.Name)
			}
			r = rr
		}
		// round half away from zero
		i := new(big.Int)
		if r.IsInt() {
			i.Set(r.Num())
		} else {
			f, _ := r.Float64()
			i.SetInt64(int64(math.Round(f)))
		}
		bits := c.Bits
		if bits == 0 {
			bits = 64
		}
		if c.Unsigned || c.T == TBit {
			max := new(big.Int).Lsh(big.NewInt(1), uint(bits))
			if i.Sign() < 0 || i.Cmp(max) >= 0 {
				return nil, errf(1264, "22003", "Out of range value for column '%s' at row 1", c.Name)
			}
			return i.Uint64(), nil
		}
		max := new(big.Int).Lsh(big.NewInt(1), uint(bits-1))
		min := new(big.Int).Neg(max)
		if i.Cmp(min) < 0 || i.Cmp(max) >= 0 {
			return nil, errf(1264, "22003", "Out of range value for column '%s' at row 1", c.Name)
		}
		return i.Int64(), nil
	case TFloat:
		f := toFloat(v)
		return float64(float32(f)), nil
	case TDouble:
		return toFloat(v), nil
	case TDecimal:
		var r *big.Rat
		switch x := v.(type) {
		case string, []byte:
			rr, ok := new(big.Rat).SetString(strings.TrimSpace(textOf(x)))
			if !ok {
				return nil, errf(1366, "HY000", "Incorrect decimal value: '%s' for column '%s' at row 1", textOf(x), c.Name)
			}
			r = rr
		case float64:
			r = new(big.Rat).SetFloat64(x)
		case float32:
			r = new(big.Rat).SetFloat64(float64(x))
		default:
			rr, ok := toRat(v)
			if !ok {
				return nil, errf(1366, "HY000", "Incorrect decimal value for column '%s'", c.Name)
			}
			r = rr
		}
		// round to scale
		s := r.FloatString(c.Scale)
		rr, _ := new(big.Rat).SetString(s)
		return Dec{R: rr, Scale: c.Scale}, nil
	case TChar, TJSON:
		s := textOf(v)
		if t, ok := v.(time.Time); ok {
			s = t.Format("2006-01-02 15:04:05")
		}
		if c.Len > 0 && len([]rune(s)) > c.Len {
			return nil, errf(1406, "22001", "Data too long for column '%s' at row 1", c.Name)
		}
		return s, nil
	case TBin:
		b := []byte(textOf(v))
		if c.Len > 0 && len(b) > c.Len {
			return nil, errf(1406, "22001", "Data too long for column '%s' at row 1", c.Name)
		}
		return b, nil
	case TDate, TDateTime, TTimestamp:
		var t time.Time
		switch x := v.(type) {
		case time.Time:
			t = x.UTC()
		default:
			tt, ok := parseTime(textOf(v))
			if !ok {
				return nil, errf(1292, "22007", "Incorrect datetime value: '%s' for column '%s' at row 1", textOf(v), c.Name)
			}
			t = tt
		}
		if c.T == TDate {
			return time.Date(t.Year(), t.Month(), t.Day(), 0, 0, 0, 0, time.UTC), nil
		}
		return roundTime(t, c.Fsp), nil
	case TTime:
		return textOf(v), nil
	}
	return v, nil
}

func (s *Session) inTxLocked() bool {
	s.e.mu.Lock()
	defer s.e.mu.Unlock()
	return s.inTx()
}
