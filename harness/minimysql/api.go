package minimysql

import (
	"sort"
	"strings"
)

// ---- harness-side API (direct access to the engine, no SQL) ----

// Row is a typed row keyed by column name.
type Row map[string]interface{}

func (e *Engine) DropTable(name string) {
	e.mu.Lock()
	delete(e.tables, strings.ToUpper(name))
	e.mu.Unlock()
}

// AddColumn appends a nullable column to an existing table (ALTER TABLE ADD COLUMN).
func (e *Engine) AddColumn(table string, c Column) {
	e.mu.Lock()
	defer e.mu.Unlock()
	t := e.tables[strings.ToUpper(table)]
	if t == nil {
		return
	}
	c.Nullable = true
	if c.DataType == "" {
		c.DataType = defaultDataType(&c)
	}
	if c.ColType == "" {
		c.ColType = c.DataType
	}
	t.Cols = append(t.Cols, c)
	for k, r := range t.rows {
		t.rows[k] = append(append([]interface{}{}, r...), nil)
	}
}

// Load inserts committed rows directly (values are coerced to the column types). Panics on invalid rows:
// the harness generates them.
func (e *Engine) Load(table string, rows [][]interface{}) {
	e.mu.Lock()
	defer e.mu.Unlock()
	t := e.tables[strings.ToUpper(table)]
	if t == nil {
		panic("minimysql.Load: no table " + table)
	}
	for _, r := range rows {
		row := make([]interface{}, len(t.Cols))
		for i := range t.Cols {
			v, err := coerce(&t.Cols[i], r[i])
			if err != nil {
				panic("minimysql.Load: " + err.Error())
			}
			row[i] = v
			if t.Cols[i].AutoInc {
				if x := int64(toFloat(v)); x > t.autoInc {
					t.autoInc = x
				}
			}
		}
		t.rows[t.pkKey(row)] = row
	}
}

func (e *Engine) TableDef(name string) *Table {
	e.mu.Lock()
	defer e.mu.Unlock()
	return e.tables[strings.ToUpper(name)]
}

// SnapshotTable returns the committed rows of one table rendered as strings, keyed by pk key.
func (e *Engine) SnapshotTable(name string) map[string]string {
	e.mu.Lock()
	defer e.mu.Unlock()
	out := map[string]string{}
	t := e.tables[strings.ToUpper(name)]
	if t == nil {
		return out
	}
	for k, r := range t.rows {
		out[k] = renderRow(r)
	}
	return out
}

// RowsTyped returns copies of the committed rows of one table in pk order.
func (e *Engine) RowsTyped(name string) [][]interface{} {
	e.mu.Lock()
	defer e.mu.Unlock()
	t := e.tables[strings.ToUpper(name)]
	if t == nil {
		return nil
	}
	var keys []string
	for k := range t.rows {
		keys = append(keys, k)
	}
	sort.Strings(keys)
	var out [][]interface{}
	for _, k := range keys {
		out = append(out, append([]interface{}{}, t.rows[k]...))
	}
	return out
}

func (e *Engine) CountRows(name string) int {
	e.mu.Lock()
	defer e.mu.Unlock()
	t := e.tables[strings.ToUpper(name)]
	if t == nil {
		return 0
	}
	return len(t.rows)
}

// RenderRow renders a typed row the same way snapshots do.
func RenderRow(r []interface{}) string { return renderRow(r) }

// RenderRowMap renders a typed row as column -> "type:text" (for evidence / replay files).
func (t *Table) RenderRowMap(r []interface{}) map[string]string {
	if r == nil {
		return nil
	}
	m := map[string]string{}
	for i := range t.Cols {
		if i < len(r) {
			m[t.Cols[i].Name] = renderVal(r[i])
		}
	}
	return m
}

func renderVal(v interface{}) string {
	return strings.SplitN(renderRow([]interface{}{v}), "|", 2)[0]
}

// PKKey returns the pk key text of a typed row of table t.
func (t *Table) PKKey(r []interface{}) string { return t.pkKey(r) }

// PKValues returns the primary key values (key order) of a typed row, as text.
func (t *Table) PKValues(r []interface{}) []string {
	var out []string
	for _, i := range t.PK {
		out = append(out, textOf(r[i]))
	}
	return out
}

// JournalSince returns journal entries with Seq > seq.
func (e *Engine) JournalSince(seq int64) []*JournalEntry {
	e.mu.Lock()
	defer e.mu.Unlock()
	i := sort.Search(len(e.Journal), func(i int) bool { return e.Journal[i].Seq > seq })
	return append([]*JournalEntry{}, e.Journal[i:]...)
}

type SessionInfo struct {
	ID    int
	User  string
	Class string
	InTx  bool
	XA    string
	Locks int
}

// Sessions lists the open connections with their transaction state.
func (e *Engine) Sessions() []SessionInfo {
	e.mu.Lock()
	defer e.mu.Unlock()
	var out []SessionInfo
	for _, s := range e.sessions {
		si := SessionInfo{ID: s.id, User: s.user, Class: s.class, InTx: s.inTx(), XA: s.xaID}
		if s.tx != nil {
			si.Locks = len(s.tx.locks)
		}
		out = append(out, si)
	}
	sort.Slice(out, func(i, j int) bool { return out[i].ID < out[j].ID })
	return out
}

// HeldLocks returns the number of row locks currently held by anyone.
func (e *Engine) HeldLocks() int {
	e.mu.Lock()
	defer e.mu.Unlock()
	return len(e.locks)
}

// XABranches lists XA branch ids with their state.
func (e *Engine) XABranches() map[string]string {
	e.mu.Lock()
	defer e.mu.Unlock()
	out := map[string]string{}
	for k, b := range e.xa {
		out[k] = b.state
	}
	return out
}

// TextOf renders a typed value as MySQL text.
func TextOf(v interface{}) string { return textOf(v) }

// Truncate removes all committed rows of a table (harness housekeeping).
func (e *Engine) Truncate(name string) {
	e.mu.Lock()
	defer e.mu.Unlock()
	if t := e.tables[strings.ToUpper(name)]; t != nil {
		t.rows = map[string][]interface{}{}
	}
}

// ColIndex returns the index of a column by (case-insensitive) name, -1 when absent.
func (t *Table) ColIndex(name string) int { return t.colIndex(strings.Trim(name, "` ")) }

// SetAutoIncIncrement changes the server variable auto_increment_increment (takes effect for later statements).
func (e *Engine) SetAutoIncIncrement(n int64) {
	e.mu.Lock()
	defer e.mu.Unlock()
	if n < 1 {
		n = 1
	}
	e.AutoIncIncrement = n
}

// DropXABranch removes an XA branch whatever its state (harness housekeeping between cases).
func (e *Engine) DropXABranch(id string) {
	e.mu.Lock()
	defer e.mu.Unlock()
	if b := e.xa[id]; b != nil {
		owner := &Session{e: e, id: b.conn}
		owner.releaseLocks(b.tx)
		delete(e.xa, id)
		for _, s := range e.sessions {
			if s.xaID == id {
				s.xaID = ""
				s.tx = nil
			}
		}
	}
}
