package minimysql

import (
	"regexp"
	"sort"
	"strconv"
	"strings"
	"time"

	aparser "github.com/arana-db/parser"
	"github.com/arana-db/parser/ast"
	_ "github.com/arana-db/parser/test_driver"
)

var (
	reXA         = regexp.MustCompile(`(?is)^XA\s+(START|BEGIN|END|PREPARE|COMMIT|ROLLBACK|RECOVER)(?:\s+'([^']*)')?\s*(.*)$`)
	reSavepoint  = regexp.MustCompile(`(?is)^SAVEPOINT\s+` + "`?" + `([A-Za-z0-9_$]+)` + "`?" + `$`)
	reRollbackTo = regexp.MustCompile(`(?is)^ROLLBACK\s+(?:WORK\s+)?TO\s+(?:SAVEPOINT\s+)?` + "`?" + `([A-Za-z0-9_$]+)` + "`?" + `$`)
	reVerifClass = regexp.MustCompile(`(?is)^SET\s+@verif_class\s*=\s*'([^']*)'`)
	reAutoIncInc = regexp.MustCompile(`(?is)auto_increment_increment\s*=\s*(\d+)`)
	reInfoLit    = regexp.MustCompile("(?is)`?TABLE_(?:SCHEMA|NAME)`?\\s*=\\s*'([^']*)'")
	reRelease    = regexp.MustCompile(`(?is)^RELEASE\s+SAVEPOINT\s+` + "`?" + `([A-Za-z0-9_$]+)` + "`?" + `$`)
)

func protoType(c *Column) (byte, uint16, bool) {
	var flags uint16
	if !c.Nullable {
		flags |= 1
	}
	if c.Unsigned {
		flags |= 32
	}
	switch c.T {
	case TInt:
		switch c.Bits {
		case 8:
			return tTiny, flags, true
		case 16:
			return tShort, flags, true
		case 24:
			return 9, flags, true
		case 32:
			return tLong, flags, true
		}
		return tLongLong, flags, true
	case TFloat:
		return tFloat, flags, true
	case TDouble:
		return tDouble, flags, true
	case TDecimal:
		return tNewDecimal, flags, true
	case TChar:
		return tVarString, flags, false
	case TBin:
		return tBlob, flags | 128, true
	case TDate:
		return tDate, flags | 128, true
	case TDateTime:
		return tDateTime, flags | 128, true
	case TTimestamp:
		return tTimestamp, flags | 128, true
	case TTime:
		return 11, flags | 128, true
	case TYear:
		return 13, flags | 32, true
	case TBit:
		return 16, flags | 32, true
	case TJSON:
		return 245, flags | 128, true
	}
	return tVarString, flags, false
}

func strCols(names ...string) []col {
	var cs []col
	for _, n := range names {
		cs = append(cs, col{name: n, typ: tVarString})
	}
	return cs
}

// Exec runs one COM_QUERY / COM_STMT_EXECUTE text (possibly multi-statement). drop tells the server to close the
// connection instead of replying.
func (s *Session) Exec(sql string, args []interface{}, prepared bool) (rs []result, drop bool) {
	e := s.e
	e.mu.Lock()
	je := &JournalEntry{Seq: e.nextSeq(), Conn: s.id, User: s.user, Class: s.class, SQL: sql, Args: args, Prepared: prepared, InTxBefore: s.inTx(), Kind: classify(sql)}
	e.Journal = append(e.Journal, je)
	inj := e.Inject
	e.mu.Unlock()
	var act *Action
	if inj != nil {
		act = inj(je) // may block
	}
	e.mu.Lock()
	defer e.mu.Unlock()
	if act != nil && act.Err != nil {
		je.Err = act.Err
		je.Injected = "error"
		je.Kind = classify(sql)
		if je.Kind == "COMMIT" && s.inTx() && s.xaID == "" {
			// a COMMIT that fails (deadlock, I/O error) leaves nothing committed and the transaction ended, as InnoDB does
			s.releaseLocks(s.tx)
			s.tx = nil
		}
		je.SeqOut = e.nextSeq()
		je.InTxAfter = s.inTx()
		return []result{{err: &myErr{act.Err.Code, act.Err.State, act.Err.Msg}}}, false
	}
	if act != nil && act.DropBefore {
		je.Injected = "drop-before"
		je.Kind = classify(sql)
		je.SeqOut = e.nextSeq()
		return nil, true
	}
	rs = s.execLocked(sql, args, je)
	je.SeqOut = e.nextSeq()
	je.InTxAfter = s.inTx()
	je.Class = s.class
	for _, r := range rs {
		if r.err != nil {
			je.Err = &MyErr{r.err.code, r.err.state, r.err.msg}
		}
		je.Affected += r.affected
		je.NRows += len(r.rows)
	}
	if act != nil && act.DropAfter {
		je.Injected = "drop-after"
		return nil, true
	}
	return rs, false
}

// classify gives a coarse kind for commands that were not executed (injected failures).
func classify(sql string) string {
	u := strings.ToUpper(strings.TrimSpace(sql))
	for _, k := range []string{"SELECT", "INSERT", "UPDATE", "DELETE", "COMMIT", "ROLLBACK", "START TRANSACTION", "BEGIN", "SAVEPOINT", "XA START", "XA END", "XA PREPARE", "XA COMMIT", "XA ROLLBACK", "SET", "SHOW"} {
		if strings.HasPrefix(u, k) {
			k = strings.ReplaceAll(k, " ", "_")
			if k == "START_TRANSACTION" {
				k = "BEGIN"
			}
			if k == "SELECT" && strings.Contains(u, "FOR UPDATE") {
				k = "SELECT_FOR_UPDATE"
			}
			return k
		}
	}
	return "OTHER"
}

func errResult(e *MyErr) []result { return []result{{err: &myErr{e.Code, e.State, e.Msg}}} }

func (s *Session) execLocked(sql string, args []interface{}, je *JournalEntry) []result {
	if s.xaID != "" && s.e.xa[s.xaID] == nil {
		// the branch this connection was attached to has been finished from another connection
		s.xaID = ""
		s.tx = nil
	}
	q := strings.TrimSpace(sql)
	for strings.HasSuffix(q, ";") { // leniency: trailing semicolons ignored
		q = strings.TrimSpace(strings.TrimSuffix(q, ";"))
	}
	if q == "" {
		return errResult(errf(1065, "42000", "Query was empty"))
	}
	u := strings.ToUpper(q)
	switch {
	case u == "START TRANSACTION" || u == "BEGIN" || strings.HasPrefix(u, "START TRANSACTION "):
		je.Kind = "BEGIN"
		if s.xaID != "" {
			return errResult(errf(1399, "XAE07", "XAER_RMFAIL: The command cannot be executed when global transaction is in the  %s state", s.e.xa[s.xaID].state))
		}
		if s.inTx() { // implicit commit
			je.Committed = append(je.Committed, s.commitTx(s.tx)...)
			je.ImplicitCommit = true
			s.releaseLocks(s.tx)
		}
		s.tx = newTx()
		s.tx.readOnly = strings.Contains(u, "READ ONLY")
		return []result{{}}
	case u == "COMMIT":
		je.Kind = "COMMIT"
		if s.xaID != "" {
			return errResult(errf(1399, "XAE07", "XAER_RMFAIL: The command cannot be executed when global transaction is in the  %s state", s.e.xa[s.xaID].state))
		}
		if s.inTx() {
			je.Committed = append(je.Committed, s.commitTx(s.tx)...)
			s.releaseLocks(s.tx)
			s.tx = nil
		}
		return []result{{}}
	case u == "ROLLBACK":
		je.Kind = "ROLLBACK"
		if s.xaID != "" {
			return errResult(errf(1399, "XAE07", "XAER_RMFAIL: The command cannot be executed when global transaction is in the  %s state", s.e.xa[s.xaID].state))
		}
		if s.inTx() {
			s.releaseLocks(s.tx)
			s.tx = nil
		}
		return []result{{}}
	case strings.HasPrefix(u, "SET "):
		je.Kind = "SET"
		if m := reVerifClass.FindStringSubmatch(q); m != nil {
			s.class = m[1]
		}
		if m := reAutoIncInc.FindStringSubmatch(q); m != nil {
			if v, err := strconv.ParseInt(m[1], 10, 64); err == nil && v > 0 {
				s.autoIncStep = v
			}
		}
		return []result{{}}
	}
	if m := reSavepoint.FindStringSubmatch(q); m != nil {
		je.Kind = "SAVEPOINT"
		if s.inTx() {
			s.tx.saves = append(s.tx.saves, savepoint{strings.ToLower(m[1]), len(s.tx.undo)})
		}
		return []result{{}}
	}
	if m := reRollbackTo.FindStringSubmatch(q); m != nil {
		je.Kind = "ROLLBACK_TO"
		if s.inTx() {
			for i := len(s.tx.saves) - 1; i >= 0; i-- {
				if s.tx.saves[i].name == strings.ToLower(m[1]) {
					s.rollbackToIndex(s.tx, s.tx.saves[i].undo)
					s.tx.saves = s.tx.saves[:i+1]
					return []result{{}}
				}
			}
		}
		return errResult(errf(1305, "42000", "SAVEPOINT %s does not exist", m[1]))
	}
	if m := reRelease.FindStringSubmatch(q); m != nil {
		je.Kind = "RELEASE"
		return []result{{}}
	}
	if m := reXA.FindStringSubmatch(q); m != nil {
		return s.execXA(strings.ToUpper(m[1]), m[2], strings.ToUpper(strings.TrimSpace(m[3])), je)
	}
	if strings.Contains(u, "INFORMATION_SCHEMA") {
		return s.execInfoSchema(u, args, je)
	}
	if rs, ok := s.execDDL(q, u, je); ok {
		return rs
	}
	p := aparser.New()
	stmts, _, err := p.Parse(q, "", "")
	if err != nil {
		je.Kind = "SYNTAX"
		return errResult(errf(1064, "42000", "You have an error in your SQL syntax; %v", err))
	}
	var out []result
	for _, st := range stmts {
		r := s.execStmt(st, args, je)
		out = append(out, r)
		if r.err != nil {
			break
		}
	}
	if len(stmts) > 1 {
		coalesceJournal(je)
	}
	return out
}

// coalesceJournal: a multi-statement text is one journal entry; its ground truth is stated per row for the text as a
// whole: content before the text (first Before), content after it (last After), matched rows with their content
// before the text.
func coalesceJournal(je *JournalEntry) {
	idx := map[string]int{}
	var ch []RowChange
	for _, c := range je.Changes {
		k := strings.ToUpper(c.Table) + "\x00" + c.Key
		if i, ok := idx[k]; ok {
			ch[i].After = c.After
			continue
		}
		idx[k] = len(ch)
		ch = append(ch, c)
	}
	je.Changes = ch[:0]
	for _, c := range ch {
		if c.Before == nil && c.After == nil {
			continue // inserted and deleted again inside the text
		}
		je.Changes = append(je.Changes, c)
	}
	seen := map[string]bool{}
	var m []string
	var mr [][]interface{}
	for i, k := range je.Matched {
		if seen[k] {
			continue
		}
		seen[k] = true
		m = append(m, k)
		if i < len(je.MatchedRows) && len(je.MatchedRows) == len(je.Matched) {
			mr = append(mr, je.MatchedRows[i])
		}
	}
	if len(je.MatchedRows) == len(je.Matched) {
		je.MatchedRows = mr
	}
	je.Matched = m
}

func (s *Session) execXA(verb, id, rest string, je *JournalEntry) []result {
	je.Kind = "XA_" + verb
	e := s.e
	rmfail := func(state string) []result {
		return errResult(errf(1399, "XAE07", "XAER_RMFAIL: The command cannot be executed when global transaction is in the  %s state", state))
	}
	switch verb {
	case "START", "BEGIN":
		if s.xaID != "" {
			return rmfail(e.xa[s.xaID].state)
		}
		if s.inTx() {
			return errResult(errf(1400, "XAE09", "XAER_OUTSIDE: Some work is done outside global transaction"))
		}
		if _, dup := e.xa[id]; dup {
			return errResult(errf(1440, "XAE08", "XAER_DUPID: The XID already exists"))
		}
		tx := newTx()
		e.xa[id] = &xaBranch{state: "ACTIVE", conn: s.id, tx: tx}
		s.xaID = id
		s.tx = tx
		return []result{{}}
	case "END":
		b := e.xa[id]
		if b == nil || s.xaID != id {
			return errResult(errf(1397, "XAE04", "XAER_NOTA: Unknown XID"))
		}
		if b.state != "ACTIVE" {
			return rmfail(b.state)
		}
		b.state = "IDLE"
		return []result{{}}
	case "PREPARE":
		b := e.xa[id]
		if b == nil || s.xaID != id {
			return errResult(errf(1397, "XAE04", "XAER_NOTA: Unknown XID"))
		}
		if b.state != "IDLE" {
			return rmfail(b.state)
		}
		b.state = "PREPARED"
		if e.Version >= "8.0.29" {
			// xa_detach_on_prepare (default ON from 8.0.29): the branch leaves the session, which is free for other work;
			// any session may finish it
			s.xaID = ""
			s.tx = nil
		}
		return []result{{}}
	case "COMMIT", "ROLLBACK":
		b := e.xa[id]
		if b == nil {
			return errResult(errf(1397, "XAE04", "XAER_NOTA: Unknown XID"))
		}
		if s.xaID != "" && s.xaID != id {
			return rmfail(e.xa[s.xaID].state)
		}
		if s.xaID == "" && b.conn != s.id {
			// finishing from another connection: only for PREPARED, and only if supported (detached after disconnect or >= 8.0.29)
			if b.state != "PREPARED" {
				return errResult(errf(1397, "XAE04", "XAER_NOTA: Unknown XID"))
			}
		}
		onePhase := strings.Contains(rest, "ONE PHASE")
		if verb == "COMMIT" {
			if !(b.state == "PREPARED" && !onePhase) && !(b.state == "IDLE" && onePhase) {
				return rmfail(b.state)
			}
			owner := &Session{e: e, id: b.conn}
			je.Committed = append(je.Committed, owner.commitTx(b.tx)...)
			owner.releaseLocks(b.tx)
		} else {
			if b.state == "ACTIVE" {
				return rmfail(b.state)
			}
			owner := &Session{e: e, id: b.conn}
			owner.releaseLocks(b.tx)
		}
		delete(e.xa, id)
		if s.xaID == id {
			s.xaID = ""
			s.tx = nil
		}
		return []result{{}}
	case "RECOVER":
		r := result{cols: []col{{name: "formatID", typ: tLongLong}, {name: "gtrid_length", typ: tLongLong}, {name: "bqual_length", typ: tLongLong}, {name: "data", typ: tVarString}}}
		var ids []string
		for k, b := range e.xa {
			if b.state == "PREPARED" {
				ids = append(ids, k)
			}
		}
		sort.Strings(ids)
		for _, k := range ids {
			r.rows = append(r.rows, []interface{}{int64(1), int64(len(k)), int64(0), k})
		}
		return []result{r}
	}
	return errResult(errf(1064, "42000", "bad XA"))
}

func (s *Session) execInfoSchema(u string, args []interface{}, je *JournalEntry) []result {
	je.Kind = "INFOSCHEMA"
	if len(args) < 2 {
		// literals inlined by client-side interpolation
		ms := reInfoLit.FindAllStringSubmatch(je.SQL, -1)
		if len(ms) < 2 {
			return errResult(errf(1064, "42000", "info schema query needs schema and table"))
		}
		args = []interface{}{ms[0][1], ms[1][1]}
	}
	t := s.e.tables[strings.ToUpper(textOf(args[1]))]
	if strings.Contains(u, "COLUMNS") {
		r := result{cols: strCols("TABLE_NAME", "TABLE_SCHEMA", "COLUMN_NAME", "DATA_TYPE", "COLUMN_TYPE", "COLUMN_KEY", "IS_NULLABLE", "COLUMN_DEFAULT", "EXTRA")}
		if t != nil {
			for i := range t.Cols {
				c := &t.Cols[i]
				key := ""
				for _, p := range t.PK {
					if p == i {
						key = "PRI"
					}
				}
				if key == "" {
					for _, uq := range t.Uniques {
						if uq[0] == i {
							key = "UNI"
						}
					}
				}
				null := "NO"
				if c.Nullable {
					null = "YES"
				}
				var def interface{}
				if c.HasDef && c.Default != nil {
					def = textOf(c.Default)
				}
				if c.DefNow {
					def = "CURRENT_TIMESTAMP"
				}
				extra := ""
				if c.AutoInc {
					extra = "auto_increment"
				}
				r.rows = append(r.rows, []interface{}{t.Name, textOf(args[0]), c.Name, c.DataType, c.ColType, key, null, def, extra})
			}
		}
		return []result{r}
	}
	r := result{cols: []col{{name: "INDEX_NAME", typ: tVarString}, {name: "COLUMN_NAME", typ: tVarString}, {name: "NON_UNIQUE", typ: tLongLong}}}
	if t != nil {
		for _, p := range t.PK {
			r.rows = append(r.rows, []interface{}{"PRIMARY", t.Cols[p].Name, int64(0)})
		}
		for i, uq := range t.Uniques {
			for _, p := range uq {
				r.rows = append(r.rows, []interface{}{t.UniqueN[i], t.Cols[p].Name, int64(0)})
			}
		}
	}
	return []result{r}
}

func one(me *MyErr) result { return result{err: &myErr{me.Code, me.State, me.Msg}} }

func tableNameOf(refs *ast.TableRefsClause) (string, bool) {
	if refs == nil || refs.TableRefs == nil {
		return "", false
	}
	ts, ok := refs.TableRefs.Left.(*ast.TableSource)
	if !ok || refs.TableRefs.Right != nil {
		return "", false
	}
	tn, ok := ts.Source.(*ast.TableName)
	if !ok {
		return "", false
	}
	return tn.Name.O, true
}

func (s *Session) execStmt(st ast.StmtNode, args []interface{}, je *JournalEntry) result {
	now := time.Now().UTC()
	switch x := st.(type) {
	case *ast.SelectStmt:
		je.Kind = "SELECT"
		return s.execSelect(x, args, now, je)
	case *ast.ShowStmt:
		je.Kind = "SHOW"
		r := result{cols: strCols("Variable_name", "Value")}
		if x.Pattern != nil {
			if v, ok := x.Pattern.Pattern.(ast.ValueExpr); ok {
				name := textOf(v.GetValue())
				if strings.EqualFold(name, "auto_increment_increment") {
					r.rows = append(r.rows, []interface{}{"auto_increment_increment", strconv.FormatInt(s.e.AutoIncIncrement, 10)})
				}
			}
		}
		return r
	case *ast.InsertStmt:
		je.Kind = "INSERT"
		return s.autoTx(je, func() result { return s.execInsert(x, args, now, je) })
	case *ast.UpdateStmt:
		je.Kind = "UPDATE"
		return s.autoTx(je, func() result { return s.execUpdate(x, args, now, je) })
	case *ast.DeleteStmt:
		je.Kind = "DELETE"
		return s.autoTx(je, func() result { return s.execDelete(x, args, now, je) })
	}
	return one(errf(1235, "42000", "statement %T not supported by minimysql", st))
}

// autoTx wraps a DML statement: statement-level atomicity + autocommit when no tx is open.
func (s *Session) autoTx(je *JournalEntry, f func() result) result {
	if s.inTx() && s.tx.readOnly {
		return one(errf(1792, "25006", "Cannot execute statement in a READ ONLY transaction."))
	}
	auto := !s.inTx()
	if auto {
		s.tx = newTx()
	}
	mark := len(s.tx.undo)
	nch := len(s.tx.changes)
	r := f()
	if r.err != nil {
		s.rollbackToIndex(s.tx, mark)
		s.tx.changes = s.tx.changes[:nch]
		if auto {
			s.releaseLocks(s.tx)
			s.tx = nil
		}
		return r
	}
	je.Changes = append(je.Changes, s.tx.changes[nch:]...)
	if auto {
		je.Committed = append(je.Committed, s.commitTx(s.tx)...)
		s.releaseLocks(s.tx)
		s.tx = nil
	}
	return r
}

func (s *Session) matchRows(t *Table, where ast.ExprNode, order *ast.OrderByClause, limit *ast.Limit, args []interface{}, now time.Time) ([][]interface{}, *MyErr) {
	var out [][]interface{}
	for _, r := range s.scan(t) {
		if where != nil {
			c := &evalCtx{s: s, t: t, row: r, args: args, now: now}
			v, err := c.eval(where)
			if err != nil {
				return nil, err
			}
			if tr, known := truth(v); !known || !tr {
				continue
			}
		}
		out = append(out, r)
	}
	if order != nil {
		var oerr *MyErr
		sort.SliceStable(out, func(i, j int) bool {
			for _, it := range order.Items {
				ci := &evalCtx{s: s, t: t, row: out[i], args: args, now: now}
				cj := &evalCtx{s: s, t: t, row: out[j], args: args, now: now}
				vi, e1 := ci.eval(it.Expr)
				vj, e2 := cj.eval(it.Expr)
				if e1 != nil {
					oerr = e1
				}
				if e2 != nil {
					oerr = e2
				}
				cmp := compareVals(vi, vj)
				if it.Desc {
					cmp = -cmp
				}
				if cmp != 0 {
					return cmp < 0
				}
			}
			return false
		})
		if oerr != nil {
			return nil, oerr
		}
	}
	if limit != nil {
		c := &evalCtx{s: s, args: args, now: now}
		off := 0
		if limit.Offset != nil {
			v, err := c.eval(limit.Offset)
			if err != nil {
				return nil, err
			}
			off = int(toFloat(v))
		}
		cnt := len(out)
		if limit.Count != nil {
			v, err := c.eval(limit.Count)
			if err != nil {
				return nil, err
			}
			cnt = int(toFloat(v))
		}
		if off > len(out) {
			off = len(out)
		}
		out = out[off:]
		if cnt < len(out) {
			out = out[:cnt]
		}
	}
	return out, nil
}

func (s *Session) execSelect(x *ast.SelectStmt, args []interface{}, now time.Time, je *JournalEntry) result {
	if x.From == nil {
		// SELECT expr list without table
		r := result{}
		var row []interface{}
		c := &evalCtx{s: s, args: args, now: now}
		for _, f := range x.Fields.Fields {
			v, err := c.eval(f.Expr)
			if err != nil {
				return one(err)
			}
			name := f.AsName.O
			if name == "" {
				name = f.Text()
			}
			typ := byte(tVarString)
			switch v.(type) {
			case int64, uint64:
				typ = tLongLong
			}
			r.cols = append(r.cols, col{name: name, typ: typ, bin: typ != tVarString})
			row = append(row, v)
		}
		r.rows = [][]interface{}{row}
		return r
	}
	tn, ok := tableNameOf(x.From)
	if !ok {
		return one(errf(1235, "42000", "only single-table SELECT supported"))
	}
	t, me := s.e.table(tn)
	if me != nil {
		return one(me)
	}
	je.Table = strings.ToUpper(t.Name)
	rows, me := s.matchRows(t, x.Where, x.OrderBy, x.Limit, args, now)
	if me != nil {
		return one(me)
	}
	forUpdate := x.LockInfo != nil && x.LockInfo.LockType == ast.SelectLockForUpdate
	if forUpdate {
		je.Kind = "SELECT_FOR_UPDATE"
		if s.inTx() {
			for _, r := range rows {
				if me := s.lockRow(t, t.pkKey(r)); me != nil {
					return one(me)
				}
			}
			// re-read after acquiring locks
			rows, me = s.matchRows(t, x.Where, x.OrderBy, x.Limit, args, now)
			if me != nil {
				return one(me)
			}
		}
		for _, r := range rows {
			je.Matched = append(je.Matched, t.pkKey(r))
			je.MatchedRows = append(je.MatchedRows, append([]interface{}{}, r...))
		}
	}
	// projection
	type proj struct {
		idx  int
		expr ast.ExprNode
		name string
	}
	var ps []proj
	for _, f := range x.Fields.Fields {
		if f.WildCard != nil {
			for i := range t.Cols {
				ps = append(ps, proj{idx: i, name: t.Cols[i].Name})
			}
			continue
		}
		if cn, ok := f.Expr.(*ast.ColumnNameExpr); ok {
			if cn.Name.Name.O == "*" {
				for i := range t.Cols {
					ps = append(ps, proj{idx: i, name: t.Cols[i].Name})
				}
				continue
			}
			i := t.colIndex(cn.Name.Name.O)
			if i < 0 {
				return one(errf(1054, "42S22", "Unknown column '%s' in 'field list'", cn.Name.Name.O))
			}
			name := t.Cols[i].Name
			if f.AsName.O != "" {
				name = f.AsName.O
			}
			ps = append(ps, proj{idx: i, name: name})
			continue
		}
		name := f.AsName.O
		if name == "" {
			name = f.Text()
		}
		ps = append(ps, proj{idx: -1, expr: f.Expr, name: name})
	}
	r := result{}
	for _, p := range ps {
		if p.idx >= 0 {
			typ, flags, bin := protoType(&t.Cols[p.idx])
			dec := byte(0)
			switch t.Cols[p.idx].T {
			case TDateTime, TTimestamp:
				dec = byte(t.Cols[p.idx].Fsp)
			case TDecimal:
				dec = byte(t.Cols[p.idx].Scale)
			case TFloat, TDouble:
				dec = 31
			}
			r.cols = append(r.cols, col{name: p.name, typ: typ, flags: flags, bin: bin, dec: dec})
		} else {
			r.cols = append(r.cols, col{name: p.name, typ: tVarString})
		}
	}
	for _, row := range rows {
		var o []interface{}
		for _, p := range ps {
			if p.idx >= 0 {
				o = append(o, row[p.idx])
			} else {
				c := &evalCtx{s: s, t: t, row: row, args: args, now: now}
				v, err := c.eval(p.expr)
				if err != nil {
					return one(err)
				}
				o = append(o, v)
			}
		}
		r.rows = append(r.rows, o)
	}
	if r.rows == nil {
		r.rows = [][]interface{}{}
	}
	return r
}

func (s *Session) checkUnique(t *Table, row []interface{}, selfKey string) (*MyErr, string) {
	for ui, uq := range t.Uniques {
		hasNull := false
		for _, c := range uq {
			if row[c] == nil {
				hasNull = true
			}
		}
		if hasNull {
			continue
		}
		for _, r := range s.scan(t) {
			if t.pkKey(r) == selfKey {
				continue
			}
			same := true
			for _, c := range uq {
				if compareVals(r[c], row[c]) != 0 {
					same = false
				}
			}
			if same {
				return errf(1062, "23000", "Duplicate entry for key '%s'", t.UniqueN[ui]), t.pkKey(r)
			}
		}
	}
	return nil, ""
}

func (s *Session) execInsert(x *ast.InsertStmt, args []interface{}, now time.Time, je *JournalEntry) result {
	tn, ok := tableNameOf(x.Table)
	if !ok {
		return one(errf(1235, "42000", "unsupported insert target"))
	}
	t, me := s.e.table(tn)
	if me != nil {
		return one(me)
	}
	var colIdx []int
	if len(x.Columns) == 0 {
		for i := range t.Cols {
			colIdx = append(colIdx, i)
		}
	} else {
		for _, c := range x.Columns {
			i := t.colIndex(c.Name.O)
			if i < 0 {
				return one(errf(1054, "42S22", "Unknown column '%s' in 'field list'", c.Name.O))
			}
			colIdx = append(colIdx, i)
		}
	}
	if x.Select != nil || len(x.Setlist) > 0 {
		return one(errf(1235, "42000", "INSERT ... SELECT/SET not supported by minimysql"))
	}
	je.Table = strings.ToUpper(t.Name)
	step := s.e.AutoIncIncrement
	if s.autoIncStep > 1 {
		step = s.autoIncStep
	}
	if step < 1 {
		step = 1
	}
	var affected uint64
	var firstAuto uint64
	for _, list := range x.Lists {
		if len(list) != len(colIdx) {
			return one(errf(1136, "21S01", "Column count doesn't match value count at row 1"))
		}
		row := make([]interface{}, len(t.Cols))
		given := make([]bool, len(t.Cols))
		c := &evalCtx{s: s, t: t, args: args, now: now}
		for k, ex := range list {
			v, err := c.eval(ex)
			if err != nil {
				return one(err)
			}
			ci := colIdx[k]
			if _, isDef := v.(defaultMarker); isDef {
				continue
			}
			given[ci] = true
			if v == nil && t.Cols[ci].AutoInc {
				given[ci] = false
				continue
			}
			cv, err := coerce(&t.Cols[ci], v)
			if err != nil {
				return one(err)
			}
			row[ci] = cv
		}
		for i := range t.Cols {
			if given[i] {
				continue
			}
			col := &t.Cols[i]
			if col.AutoInc {
				t.autoInc += step
				for {
					probe := make([]interface{}, len(row))
					copy(probe, row)
					probe[i], _ = coerce(col, t.autoInc)
					if _, exists := s.getRow(t, t.pkKey(probe)); !exists || len(t.PK) != 1 || t.PK[0] != i {
						break
					}
					t.autoInc += step
				}
				row[i], _ = coerce(col, t.autoInc)
				if firstAuto == 0 {
					firstAuto = uint64(t.autoInc)
				}
				continue
			}
			dv, err := c.defaultOf(col)
			if err != nil {
				return one(err)
			}
			row[i] = dv
		}
		// explicit auto-inc value bumps the counter
		for i := range t.Cols {
			if t.Cols[i].AutoInc && given[i] {
				if v := int64(toFloat(row[i])); v > t.autoInc {
					t.autoInc = v
				}
			}
		}
		key := t.pkKey(row)
		if me := s.lockRow(t, key); me != nil {
			return one(me)
		}
		je.Matched = append(je.Matched, key)
		_, exists := s.getRow(t, key)
		dupKey := key
		var dupErr *MyErr
		if exists {
			dupErr = errf(1062, "23000", "Duplicate entry '%s' for key 'PRIMARY'", strings.ReplaceAll(strings.Trim(key, "\x00"), "\x00", "-"))
		} else if ue, k := s.checkUnique(t, row, key); ue != nil {
			dupErr, dupKey = ue, k
		}
		if dupErr != nil {
			if len(x.OnDuplicate) == 0 {
				if x.IsReplace {
					return one(errf(1235, "42000", "REPLACE not supported"))
				}
				return one(dupErr)
			}
			if me := s.lockRow(t, dupKey); me != nil {
				return one(me)
			}
			if dupKey != key {
				// the duplicate is on a secondary unique key: the statement selected that row
				je.Matched = append(je.Matched, dupKey)
			}
			old, _ := s.getRow(t, dupKey)
			nr := make([]interface{}, len(old))
			copy(nr, old)
			ec := &evalCtx{s: s, t: t, row: old, args: args, insRow: row, now: now}
			for _, as := range x.OnDuplicate {
				ci := t.colIndex(as.Column.Name.O)
				if ci < 0 {
					return one(errf(1054, "42S22", "Unknown column '%s' in 'field list'", as.Column.Name.O))
				}
				v, err := ec.eval(as.Expr)
				if err != nil {
					return one(err)
				}
				cv, err := coerce(&t.Cols[ci], v)
				if err != nil {
					return one(err)
				}
				nr[ci] = cv
			}
			changed := renderRow(nr) != renderRow(old)
			if changed {
				nk := t.pkKey(nr)
				if nk != dupKey {
					s.writeRow(t, dupKey, nil)
				}
				s.writeRow(t, nk, nr)
				s.tx.changes = append(s.tx.changes, RowChange{Table: t.Name, Key: dupKey, Before: old, After: nr})
				affected += 2
			}
			continue
		}
		s.writeRow(t, key, row)
		s.tx.changes = append(s.tx.changes, RowChange{Table: t.Name, Key: key, After: row})
		affected++
	}
	if firstAuto != 0 {
		s.lastInsertID = firstAuto
	}
	je.LastID = firstAuto
	return result{affected: affected, lastID: firstAuto}
}

func (s *Session) execUpdate(x *ast.UpdateStmt, args []interface{}, now time.Time, je *JournalEntry) result {
	tn, ok := tableNameOf(x.TableRefs)
	if !ok {
		return one(errf(1235, "42000", "only single-table UPDATE supported"))
	}
	t, me := s.e.table(tn)
	if me != nil {
		return one(me)
	}
	rows, me := s.matchRows(t, x.Where, x.Order, x.Limit, args, now)
	if me != nil {
		return one(me)
	}
	for _, r := range rows {
		if me := s.lockRow(t, t.pkKey(r)); me != nil {
			return one(me)
		}
	}
	rows, me = s.matchRows(t, x.Where, x.Order, x.Limit, args, now)
	if me != nil {
		return one(me)
	}
	je.Table = strings.ToUpper(t.Name)
	for _, r := range rows {
		je.Matched = append(je.Matched, t.pkKey(r))
		je.MatchedRows = append(je.MatchedRows, append([]interface{}{}, r...))
	}
	var affected uint64
	for _, old := range rows {
		nr := make([]interface{}, len(old))
		copy(nr, old)
		for _, as := range x.List {
			ci := t.colIndex(as.Column.Name.O)
			if ci < 0 {
				return one(errf(1054, "42S22", "Unknown column '%s' in 'field list'", as.Column.Name.O))
			}
			c := &evalCtx{s: s, t: t, row: nr, args: args, now: now}
			v, err := c.eval(as.Expr)
			if err != nil {
				return one(err)
			}
			if _, isDef := v.(defaultMarker); isDef {
				v, err = c.defaultOf(&t.Cols[ci])
				if err != nil {
					return one(err)
				}
			}
			cv, err := coerce(&t.Cols[ci], v)
			if err != nil {
				return one(err)
			}
			nr[ci] = cv
		}
		if renderRow(nr) == renderRow(old) {
			continue
		}
		ok, nk := t.pkKey(old), t.pkKey(nr)
		if nk != ok {
			if me := s.lockRow(t, nk); me != nil {
				return one(me)
			}
			if _, exists := s.getRow(t, nk); exists {
				return one(errf(1062, "23000", "Duplicate entry for key 'PRIMARY'"))
			}
		}
		if ue, _ := s.checkUnique(t, nr, ok); ue != nil {
			return one(ue)
		}
		if nk != ok {
			s.writeRow(t, ok, nil)
		}
		s.writeRow(t, nk, nr)
		s.tx.changes = append(s.tx.changes, RowChange{Table: t.Name, Key: ok, Before: old, After: nr})
		affected++
	}
	if s.FoundRows {
		affected = uint64(len(rows))
	}
	return result{affected: affected}
}

func (s *Session) execDelete(x *ast.DeleteStmt, args []interface{}, now time.Time, je *JournalEntry) result {
	tn, ok := tableNameOf(x.TableRefs)
	if !ok {
		return one(errf(1235, "42000", "only single-table DELETE supported"))
	}
	t, me := s.e.table(tn)
	if me != nil {
		return one(me)
	}
	rows, me := s.matchRows(t, x.Where, x.Order, x.Limit, args, now)
	if me != nil {
		return one(me)
	}
	for _, r := range rows {
		if me := s.lockRow(t, t.pkKey(r)); me != nil {
			return one(me)
		}
	}
	rows, me = s.matchRows(t, x.Where, x.Order, x.Limit, args, now)
	if me != nil {
		return one(me)
	}
	je.Table = strings.ToUpper(t.Name)
	for _, r := range rows {
		je.Matched = append(je.Matched, t.pkKey(r))
		je.MatchedRows = append(je.MatchedRows, append([]interface{}{}, r...))
	}
	for _, old := range rows {
		k := t.pkKey(old)
		s.writeRow(t, k, nil)
		s.tx.changes = append(s.tx.changes, RowChange{Table: t.Name, Key: k, Before: old})
	}
	return result{affected: uint64(len(rows))}
}

// ---- minimal DDL (the forms the harness generates); every DDL statement commits an open transaction first ----

var (
	reCreateTable = regexp.MustCompile(`(?is)^CREATE\s+TABLE\s+(IF\s+NOT\s+EXISTS\s+)?` + "`?" + `(\w+)` + "`?" + `\s*\((.*)\)\s*$`)
	reDropTable   = regexp.MustCompile(`(?is)^DROP\s+TABLE\s+(IF\s+EXISTS\s+)?` + "`?" + `(\w+)` + "`?" + `\s*$`)
	reTruncate    = regexp.MustCompile(`(?is)^TRUNCATE\s+(TABLE\s+)?` + "`?" + `(\w+)` + "`?" + `\s*$`)
	reAlterAdd    = regexp.MustCompile(`(?is)^ALTER\s+TABLE\s+` + "`?" + `(\w+)` + "`?" + `\s+ADD\s+(COLUMN\s+)?(.*)$`)
	reColDef      = regexp.MustCompile(`(?is)^` + "`?" + `(\w+)` + "`?" + `\s+(\w+)\s*(\(\s*(\d+)\s*(,\s*(\d+))?\s*\))?(.*)$`)
)

func parseColDef(def string) (Column, bool) {
	m := reColDef.FindStringSubmatch(strings.TrimSpace(def))
	if m == nil {
		return Column{}, false
	}
	c := Column{Name: m[1], Nullable: true}
	n, _ := strconv.Atoi(m[4])
	sc, _ := strconv.Atoi(m[6])
	rest := strings.ToUpper(m[7])
	typ := strings.ToLower(m[2])
	c.ColType = typ
	if m[3] != "" {
		c.ColType += strings.ReplaceAll(m[3], " ", "")
	}
	switch typ {
	case "tinyint":
		c.T, c.Bits = TInt, 8
	case "smallint":
		c.T, c.Bits = TInt, 16
	case "int", "integer":
		c.T, c.Bits = TInt, 32
		if m[3] == "" {
			c.ColType = "int(11)"
		}
	case "bigint":
		c.T, c.Bits = TInt, 64
		if m[3] == "" {
			c.ColType = "bigint(20)"
		}
	case "varchar", "char":
		c.T, c.Len = TChar, n
	case "text":
		c.T, c.DataType = TChar, "text"
	case "double":
		c.T = TDouble
	case "float":
		c.T = TFloat
	case "decimal":
		c.T, c.Len, c.Scale = TDecimal, n, sc
	case "datetime":
		c.T, c.Fsp = TDateTime, n
	case "timestamp":
		c.T, c.Fsp = TTimestamp, n
	case "date":
		c.T = TDate
	case "blob":
		c.T, c.DataType = TBin, "blob"
	default:
		return Column{}, false
	}
	if strings.Contains(rest, "UNSIGNED") {
		c.Unsigned = true
		c.ColType += " unsigned"
	}
	if strings.Contains(rest, "NOT NULL") {
		c.Nullable = false
	}
	if strings.Contains(rest, "AUTO_INCREMENT") {
		c.AutoInc = true
		c.Nullable = false
	}
	return c, true
}

func splitTopLevel(s string) []string {
	var out []string
	depth, start := 0, 0
	for i, ch := range s {
		switch ch {
		case '(':
			depth++
		case ')':
			depth--
		case ',':
			if depth == 0 {
				out = append(out, s[start:i])
				start = i + 1
			}
		}
	}
	return append(out, s[start:])
}

func (s *Session) ddlImplicitCommit(je *JournalEntry) {
	if s.inTx() && s.xaID == "" {
		je.Committed = append(je.Committed, s.commitTx(s.tx)...)
		je.ImplicitCommit = true
		s.releaseLocks(s.tx)
		s.tx = nil
	}
}

func (s *Session) execDDL(q, u string, je *JournalEntry) ([]result, bool) {
	e := s.e
	switch {
	case strings.HasPrefix(u, "CREATE TABLE"):
		m := reCreateTable.FindStringSubmatch(q)
		if m == nil {
			return nil, false
		}
		je.Kind, je.Table = "CREATE_TABLE", strings.ToUpper(m[2])
		s.ddlImplicitCommit(je)
		if e.tables[strings.ToUpper(m[2])] != nil {
			if m[1] != "" {
				return []result{{}}, true
			}
			return errResult(errf(1050, "42S01", "Table '%s' already exists", m[2])), true
		}
		t := &Table{Name: m[2], rows: map[string][]interface{}{}}
		var pk []string
		for _, part := range splitTopLevel(m[3]) {
			part = strings.TrimSpace(part)
			up := strings.ToUpper(part)
			if strings.HasPrefix(up, "PRIMARY KEY") {
				inner := part[strings.Index(part, "(")+1 : strings.LastIndex(part, ")")]
				for _, k := range strings.Split(inner, ",") {
					pk = append(pk, strings.Trim(strings.TrimSpace(k), "`"))
				}
				continue
			}
			if strings.HasPrefix(up, "KEY ") || strings.HasPrefix(up, "UNIQUE ") || strings.HasPrefix(up, "INDEX ") {
				continue
			}
			c, ok := parseColDef(part)
			if !ok {
				return errResult(errf(1064, "42000", "You have an error in your SQL syntax; unsupported column definition '%s'", part)), true
			}
			if strings.Contains(up, " PRIMARY KEY") {
				pk = append(pk, c.Name)
			}
			if c.DataType == "" {
				c.DataType = defaultDataType(&c)
			}
			t.Cols = append(t.Cols, c)
		}
		for _, k := range pk {
			i := t.colIndex(k)
			if i < 0 {
				return errResult(errf(1072, "42000", "Key column '%s' doesn't exist in table", k)), true
			}
			t.Cols[i].Nullable = false
			t.PK = append(t.PK, i)
		}
		e.tables[strings.ToUpper(t.Name)] = t
		return []result{{}}, true
	case strings.HasPrefix(u, "DROP TABLE"):
		m := reDropTable.FindStringSubmatch(q)
		if m == nil {
			return nil, false
		}
		je.Kind, je.Table = "DROP_TABLE", strings.ToUpper(m[2])
		s.ddlImplicitCommit(je)
		if e.tables[strings.ToUpper(m[2])] == nil {
			if m[1] != "" {
				return []result{{}}, true
			}
			return errResult(errf(1051, "42S02", "Unknown table 'vdb.%s'", m[2])), true
		}
		delete(e.tables, strings.ToUpper(m[2]))
		return []result{{}}, true
	case strings.HasPrefix(u, "TRUNCATE"):
		m := reTruncate.FindStringSubmatch(q)
		if m == nil {
			return nil, false
		}
		je.Kind, je.Table = "TRUNCATE", strings.ToUpper(m[2])
		s.ddlImplicitCommit(je)
		t := e.tables[strings.ToUpper(m[2])]
		if t == nil {
			return errResult(errf(1146, "42S02", "Table 'vdb.%s' doesn't exist", m[2])), true
		}
		for k, row := range t.rows {
			je.Committed = append(je.Committed, RowChange{Table: t.Name, Key: k, Before: row})
		}
		t.rows = map[string][]interface{}{}
		return []result{{}}, true
	case strings.HasPrefix(u, "ALTER TABLE"):
		m := reAlterAdd.FindStringSubmatch(q)
		if m == nil {
			return nil, false
		}
		je.Kind, je.Table = "ALTER_TABLE", strings.ToUpper(m[1])
		s.ddlImplicitCommit(je)
		t := e.tables[strings.ToUpper(m[1])]
		if t == nil {
			return errResult(errf(1146, "42S02", "Table 'vdb.%s' doesn't exist", m[1])), true
		}
		c, ok := parseColDef(m[3])
		if !ok {
			return errResult(errf(1064, "42000", "You have an error in your SQL syntax; unsupported column definition '%s'", m[3])), true
		}
		if t.colIndex(c.Name) >= 0 {
			return errResult(errf(1060, "42S21", "Duplicate column name '%s'", c.Name)), true
		}
		c.Nullable = true
		if c.DataType == "" {
			c.DataType = defaultDataType(&c)
		}
		t.Cols = append(t.Cols, c)
		for k, row := range t.rows {
			t.rows[k] = append(row, nil)
		}
		return []result{{}}, true
	}
	return nil, false
}
