package minimysql

import (
	"fmt"
	"math/big"
	"regexp"
	"strings"
	"time"

	"github.com/arana-db/parser/ast"
	"github.com/arana-db/parser/opcode"
	"github.com/arana-db/parser/test_driver"
)

type evalCtx struct {
	s      *Session
	t      *Table
	row    []interface{}
	args   []interface{}
	insRow []interface{} // for VALUES(col) in ON DUPLICATE KEY UPDATE
	now    time.Time
}

type rowVal []interface{}

func truth(v interface{}) (bool, bool) { // value, known
	if v == nil {
		return false, false
	}
	switch x := v.(type) {
	case bool:
		return x, true
	case string, []byte:
		return prefixFloat(textOf(x)) != 0, true
	}
	return toFloat(v) != 0, true
}

func b2v(b bool) interface{} {
	if b {
		return int64(1)
	}
	return int64(0)
}

func (c *evalCtx) eval(n ast.ExprNode) (interface{}, *MyErr) {
	switch x := n.(type) {
	case *test_driver.ValueExpr:
		return datumVal(&x.Datum), nil
	case *test_driver.ParamMarkerExpr:
		if x.Order >= len(c.args) {
			return nil, errf(1210, "HY000", "Incorrect arguments to EXECUTE")
		}
		return c.args[x.Order], nil
	case *ast.ColumnNameExpr:
		if c.t == nil {
			return nil, errf(1054, "42S22", "Unknown column '%s' in 'field list'", x.Name.Name.O)
		}
		i := c.t.colIndex(x.Name.Name.O)
		if i < 0 {
			return nil, errf(1054, "42S22", "Unknown column '%s' in 'where clause'", x.Name.Name.O)
		}
		if c.row == nil {
			return nil, nil
		}
		return c.row[i], nil
	case *ast.ParenthesesExpr:
		return c.eval(x.Expr)
	case *ast.UnaryOperationExpr:
		v, err := c.eval(x.V)
		if err != nil {
			return nil, err
		}
		switch x.Op {
		case opcode.Not, opcode.Not2:
			t, known := truth(v)
			if !known {
				return nil, nil
			}
			return b2v(!t), nil
		case opcode.Minus:
			if v == nil {
				return nil, nil
			}
			switch y := v.(type) {
			case int64:
				return -y, nil
			case uint64:
				return -int64(y), nil
			case Dec:
				return Dec{R: new(big.Rat).Neg(y.R), Scale: y.Scale}, nil
			}
			return -toFloat(v), nil
		case opcode.Plus:
			return v, nil
		}
		return nil, errf(1235, "42000", "unsupported unary op %v", x.Op)
	case *ast.BinaryOperationExpr:
		return c.evalBinary(x)
	case *ast.BetweenExpr:
		v, err := c.eval(x.Expr)
		if err != nil {
			return nil, err
		}
		l, err := c.eval(x.Left)
		if err != nil {
			return nil, err
		}
		r, err := c.eval(x.Right)
		if err != nil {
			return nil, err
		}
		if v == nil || l == nil || r == nil {
			return nil, nil
		}
		res := compareVals(v, l) >= 0 && compareVals(v, r) <= 0
		return b2v(res != x.Not), nil
	case *ast.PatternInExpr:
		v, err := c.eval(x.Expr)
		if err != nil {
			return nil, err
		}
		sawNull := false
		found := false
		for _, it := range x.List {
			iv, err := c.eval(it)
			if err != nil {
				return nil, err
			}
			eq, known := equalVals(v, iv)
			if !known {
				sawNull = true
				continue
			}
			if eq {
				found = true
				break
			}
		}
		if found {
			return b2v(!x.Not), nil
		}
		if sawNull {
			return nil, nil
		}
		return b2v(x.Not), nil
	case *ast.RowExpr:
		var rv rowVal
		for _, it := range x.Values {
			v, err := c.eval(it)
			if err != nil {
				return nil, err
			}
			rv = append(rv, v)
		}
		return rv, nil
	case *ast.IsNullExpr:
		v, err := c.eval(x.Expr)
		if err != nil {
			return nil, err
		}
		return b2v((v == nil) != x.Not), nil
	case *ast.PatternLikeExpr:
		v, err := c.eval(x.Expr)
		if err != nil {
			return nil, err
		}
		p, err := c.eval(x.Pattern)
		if err != nil {
			return nil, err
		}
		if v == nil || p == nil {
			return nil, nil
		}
		re := likeToRegexp(textOf(p))
		return b2v(re.MatchString(textOf(v)) != x.Not), nil
	case *ast.DefaultExpr:
		if x.Name != nil && c.t != nil {
			i := c.t.colIndex(x.Name.Name.O)
			if i >= 0 {
				return c.defaultOf(&c.t.Cols[i])
			}
		}
		return defaultMarker{}, nil
	case *ast.ValuesExpr:
		if c.insRow != nil && c.t != nil {
			i := c.t.colIndex(x.Column.Name.Name.O)
			if i >= 0 {
				return c.insRow[i], nil
			}
		}
		return nil, nil
	case *ast.FuncCallExpr:
		name := strings.ToUpper(x.FnName.O)
		var args []interface{}
		for _, a := range x.Args {
			v, err := c.eval(a)
			if err != nil {
				return nil, err
			}
			args = append(args, v)
		}
		switch name {
		case "NOW", "CURRENT_TIMESTAMP", "SYSDATE", "LOCALTIME", "LOCALTIMESTAMP":
			fsp := 0
			if len(args) > 0 {
				fsp = int(toFloat(args[0]))
			}
			return roundTime(c.now, fsp), nil
		case "VERSION":
			return c.s.e.Version, nil
		case "LAST_INSERT_ID":
			return c.s.lastInsertID, nil
		case "CONCAT":
			var sb strings.Builder
			for _, a := range args {
				if a == nil {
					return nil, nil
				}
				sb.WriteString(textOf(a))
			}
			return sb.String(), nil
		case "IFNULL":
			if args[0] != nil {
				return args[0], nil
			}
			return args[1], nil
		case "COALESCE":
			for _, a := range args {
				if a != nil {
					return a, nil
				}
			}
			return nil, nil
		case "UPPER":
			if args[0] == nil {
				return nil, nil
			}
			return strings.ToUpper(textOf(args[0])), nil
		case "LOWER":
			if args[0] == nil {
				return nil, nil
			}
			return strings.ToLower(textOf(args[0])), nil
		}
		return nil, errf(1305, "42000", "FUNCTION vdb.%s does not exist", name)
	}
	return nil, errf(1235, "42000", "unsupported expression %T", n)
}

type defaultMarker struct{}

func (c *evalCtx) defaultOf(col *Column) (interface{}, *MyErr) {
	if col.DefNow {
		return roundTime(c.now, col.Fsp), nil
	}
	if col.HasDef {
		return col.Default, nil
	}
	if col.Nullable || col.AutoInc {
		return nil, nil
	}
	return nil, errf(1364, "HY000", "Field '%s' doesn't have a default value", col.Name)
}

func likeToRegexp(p string) *regexp.Regexp {
	var sb strings.Builder
	sb.WriteString("(?is)^")
	esc := false
	for _, r := range p {
		if esc {
			sb.WriteString(regexp.QuoteMeta(string(r)))
			esc = false
			continue
		}
		switch r {
		case '\\':
			esc = true
		case '%':
			sb.WriteString(".*")
		case '_':
			sb.WriteString(".")
		default:
			sb.WriteString(regexp.QuoteMeta(string(r)))
		}
	}
	sb.WriteString("$")
	return regexp.MustCompile(sb.String())
}

func equalVals(a, b interface{}) (bool, bool) {
	ra, aok := a.(rowVal)
	rb, bok := b.(rowVal)
	if aok || bok {
		if !aok || !bok || len(ra) != len(rb) {
			return false, true
		}
		known := true
		for i := range ra {
			eq, k := equalVals(ra[i], rb[i])
			if !k {
				known = false
				continue
			}
			if !eq {
				return false, true
			}
		}
		return known, known
	}
	if a == nil || b == nil {
		return false, false
	}
	return compareVals(a, b) == 0, true
}

func (c *evalCtx) evalBinary(x *ast.BinaryOperationExpr) (interface{}, *MyErr) {
	switch x.Op {
	case opcode.LogicAnd:
		l, err := c.eval(x.L)
		if err != nil {
			return nil, err
		}
		lt, lk := truth(l)
		if lk && !lt {
			return int64(0), nil
		}
		r, err := c.eval(x.R)
		if err != nil {
			return nil, err
		}
		rt, rk := truth(r)
		if rk && !rt {
			return int64(0), nil
		}
		if !lk || !rk {
			return nil, nil
		}
		return int64(1), nil
	case opcode.LogicOr:
		l, err := c.eval(x.L)
		if err != nil {
			return nil, err
		}
		lt, lk := truth(l)
		if lk && lt {
			return int64(1), nil
		}
		r, err := c.eval(x.R)
		if err != nil {
			return nil, err
		}
		rt, rk := truth(r)
		if rk && rt {
			return int64(1), nil
		}
		if !lk || !rk {
			return nil, nil
		}
		return int64(0), nil
	}
	l, err := c.eval(x.L)
	if err != nil {
		return nil, err
	}
	r, err := c.eval(x.R)
	if err != nil {
		return nil, err
	}
	switch x.Op {
	case opcode.NullEQ:
		if l == nil || r == nil {
			return b2v(l == nil && r == nil), nil
		}
		return b2v(compareVals(l, r) == 0), nil
	case opcode.EQ, opcode.NE:
		eq, known := equalVals(l, r)
		if !known {
			return nil, nil
		}
		return b2v(eq == (x.Op == opcode.EQ)), nil
	case opcode.LT, opcode.LE, opcode.GT, opcode.GE:
		if l == nil || r == nil {
			return nil, nil
		}
		cmp := compareVals(l, r)
		switch x.Op {
		case opcode.LT:
			return b2v(cmp < 0), nil
		case opcode.LE:
			return b2v(cmp <= 0), nil
		case opcode.GT:
			return b2v(cmp > 0), nil
		}
		return b2v(cmp >= 0), nil
	case opcode.LogicXor:
		lt, lk := truth(l)
		rt, rk := truth(r)
		if !lk || !rk {
			return nil, nil
		}
		return b2v(lt != rt), nil
	case opcode.Plus, opcode.Minus, opcode.Mul, opcode.Div, opcode.Mod, opcode.IntDiv:
		if l == nil || r == nil {
			return nil, nil
		}
		return arith(x.Op, l, r)
	}
	return nil, errf(1235, "42000", "unsupported operator %v", x.Op)
}

func arith(op opcode.Op, l, r interface{}) (interface{}, *MyErr) {
	ra, oka := toRat(l)
	rb, okb := toRat(r)
	if oka && okb && op != opcode.Div {
		res := new(big.Rat)
		switch op {
		case opcode.Plus:
			res.Add(ra, rb)
		case opcode.Minus:
			res.Sub(ra, rb)
		case opcode.Mul:
			res.Mul(ra, rb)
		case opcode.Mod, opcode.IntDiv:
			if rb.Sign() == 0 {
				return nil, nil
			}
			q := new(big.Int).Quo(new(big.Int).Mul(ra.Num(), rb.Denom()), new(big.Int).Mul(rb.Num(), ra.Denom()))
			if op == opcode.IntDiv {
				return q.Int64(), nil
			}
			res.Sub(ra, new(big.Rat).Mul(new(big.Rat).SetInt(q), rb))
		}
		_, ld := l.(Dec)
		_, rd := r.(Dec)
		if res.IsInt() && !ld && !rd {
			if res.Num().IsInt64() {
				return res.Num().Int64(), nil
			}
			if res.Num().IsUint64() {
				return res.Num().Uint64(), nil
			}
			return nil, errf(1690, "22003", "BIGINT value is out of range")
		}
		sc := 0
		if d, ok := l.(Dec); ok && d.Scale > sc {
			sc = d.Scale
		}
		if d, ok := r.(Dec); ok && d.Scale > sc {
			sc = d.Scale
		}
		return Dec{R: res, Scale: sc}, nil
	}
	fa, fb := toFloat(l), toFloat(r)
	switch op {
	case opcode.Plus:
		return fa + fb, nil
	case opcode.Minus:
		return fa - fb, nil
	case opcode.Mul:
		return fa * fb, nil
	case opcode.Div:
		if fb == 0 {
			return nil, nil
		}
		return fa / fb, nil
	}
	return nil, errf(1235, "42000", "unsupported arithmetic")
}

func datumVal(d *test_driver.Datum) interface{} {
	switch d.Kind() {
	case test_driver.KindNull:
		return nil
	case test_driver.KindInt64:
		return d.GetInt64()
	case test_driver.KindUint64:
		return d.GetUint64()
	case test_driver.KindFloat32, test_driver.KindFloat64:
		return d.GetFloat64()
	case test_driver.KindString:
		return d.GetString()
	case test_driver.KindBytes:
		return d.GetBytes()
	case test_driver.KindMysqlDecimal:
		s := d.GetMysqlDecimal().String()
		r, _ := new(big.Rat).SetString(s)
		sc := 0
		if i := strings.IndexByte(s, '.'); i >= 0 {
			sc = len(s) - i - 1
		}
		return Dec{R: r, Scale: sc}
	case test_driver.KindBinaryLiteral:
		return []byte(d.GetBinaryLiteral())
	}
	return fmt.Sprint(d.GetValue())
}
