package minimysql

import (
	"bufio"
	"encoding/binary"
	"fmt"
	"io"
	"math"
	"net"
	"strconv"
	"strings"
	"sync"
	"time"
)

// ---- packet io ----
type pconn struct {
	c   net.Conn
	r   *bufio.Reader
	seq byte
}

func (p *pconn) readPacket() ([]byte, error) {
	var out []byte
	for {
		hdr := make([]byte, 4)
		if _, err := io.ReadFull(p.r, hdr); err != nil {
			return nil, err
		}
		n := int(hdr[0]) | int(hdr[1])<<8 | int(hdr[2])<<16
		p.seq = hdr[3] + 1
		b := make([]byte, n)
		if _, err := io.ReadFull(p.r, b); err != nil {
			return nil, err
		}
		out = append(out, b...)
		if n < 0xffffff {
			return out, nil
		}
	}
}

func (p *pconn) writePacket(b []byte) error {
	for {
		n := len(b)
		if n > 0xffffff {
			n = 0xffffff
		}
		hdr := []byte{byte(n), byte(n >> 8), byte(n >> 16), p.seq}
		p.seq++
		if _, err := p.c.Write(append(hdr, b[:n]...)); err != nil {
			return err
		}
		b = b[n:]
		if n < 0xffffff {
			return nil
		}
	}
}

func lenencInt(b []byte, v uint64) []byte {
	switch {
	case v < 251:
		return append(b, byte(v))
	case v < 1<<16:
		return append(b, 0xfc, byte(v), byte(v>>8))
	case v < 1<<24:
		return append(b, 0xfd, byte(v), byte(v>>8), byte(v>>16))
	default:
		b = append(b, 0xfe)
		return binary.LittleEndian.AppendUint64(b, v)
	}
}
func lenencStr(b []byte, s []byte) []byte { return append(lenencInt(b, uint64(len(s))), s...) }

func readLenencInt(b []byte) (uint64, int) {
	switch b[0] {
	case 0xfc:
		return uint64(b[1]) | uint64(b[2])<<8, 3
	case 0xfd:
		return uint64(b[1]) | uint64(b[2])<<8 | uint64(b[3])<<16, 4
	case 0xfe:
		return binary.LittleEndian.Uint64(b[1:9]), 9
	}
	return uint64(b[0]), 1
}

const (
	capLongPassword   = 1
	capFoundRows      = 2
	capLongFlag       = 4
	capConnectWithDB  = 8
	capProtocol41     = 0x200
	capTransactions   = 0x2000
	capSecureConn     = 0x8000
	capMultiStmts     = 0x10000
	capMultiResults   = 0x20000
	capPSMultiResults = 0x40000
	capPluginAuth     = 0x80000
)

const (
	stInTrans     = 1
	stAutocommit  = 2
	stMoreResults = 8
)

// column types
const (
	tTiny       = 1
	tShort      = 2
	tLong       = 3
	tFloat      = 4
	tDouble     = 5
	tNull       = 6
	tTimestamp  = 7
	tLongLong   = 8
	tDate       = 10
	tDateTime   = 12
	tVarchar    = 15
	tNewDecimal = 246
	tBlob       = 252
	tVarString  = 253
	tString     = 254
)

type col struct {
	name  string
	typ   byte
	flags uint16
	bin   bool
	dec   byte
}

type result struct {
	cols     []col
	rows     [][]interface{} // nil, int64, float64, string, []byte, time.Time
	affected uint64
	lastID   uint64
	err      *myErr
}
type myErr struct {
	code  uint16
	state string
	msg   string
}

type Server struct {
	l  net.Listener
	mu sync.Mutex
	E  *Engine
	// conns for kill injection
	conns  map[int]net.Conn
	Refuse bool // close new connections right after accept (Connect failure)
	nextID int
}

func NewServer(e *Engine) *Server {
	l, err := net.Listen("tcp", "127.0.0.1:0")
	if err != nil {
		panic(err)
	}
	s := &Server{l: l, E: e, conns: map[int]net.Conn{}}
	go func() {
		for {
			c, err := l.Accept()
			if err != nil {
				return
			}
			s.mu.Lock()
			s.nextID++
			id := s.nextID
			refuse := s.Refuse
			s.mu.Unlock()
			if refuse {
				c.Close()
				continue
			}
			if tcp, ok := c.(*net.TCPConn); ok {
				tcp.SetNoDelay(true)
			}
			go s.serve(c, id)
		}
	}()
	return s
}

func (s *Server) Close() { s.l.Close(); s.KillAll(nil) }

// SetRefuse makes the server drop new connections (simulates an unreachable database).
func (s *Server) SetRefuse(v bool) { s.mu.Lock(); s.Refuse = v; s.mu.Unlock() }

// KillAll closes every connection whose session satisfies keep==nil or !keep(class).
func (s *Server) KillAll(keep func(class string) bool) int {
	infos := s.E.Sessions()
	n := 0
	for _, si := range infos {
		if keep != nil && keep(si.Class) {
			continue
		}
		s.Kill(si.ID)
		n++
	}
	return n
}
func (s *Server) Addr() string { return s.l.Addr().String() }

type stmt struct {
	q       string
	nparams int
	ptypes  []uint16
	long    map[int][]byte
}

func (s *Server) serve(c net.Conn, id int) {
	defer c.Close()
	p := &pconn{c: c, r: bufio.NewReader(c)}
	// handshake v10
	caps := uint32(capLongPassword | capFoundRows | capLongFlag | capConnectWithDB | capProtocol41 | capTransactions | capSecureConn | capMultiStmts | capMultiResults | capPSMultiResults | capPluginAuth)
	b := []byte{10}
	b = append(b, s.E.Version+"\x00"...)
	b = binary.LittleEndian.AppendUint32(b, uint32(id))
	b = append(b, "abcdefgh"...)
	b = append(b, 0)
	b = binary.LittleEndian.AppendUint16(b, uint16(caps))
	b = append(b, 45) // utf8mb4
	b = binary.LittleEndian.AppendUint16(b, stAutocommit)
	b = binary.LittleEndian.AppendUint16(b, uint16(caps>>16))
	b = append(b, 21)
	b = append(b, make([]byte, 10)...)
	b = append(b, "ijklmnopqrst\x00"...)
	b = append(b, "mysql_native_password\x00"...)
	if err := p.writePacket(b); err != nil {
		return
	}
	hr, err := p.readPacket()
	if err != nil {
		return
	}
	user := ""
	if len(hr) > 32 {
		rest := hr[32:]
		if i := strings.IndexByte(string(rest), 0); i >= 0 {
			user = string(rest[:i])
		}
	}
	sess := s.E.NewSession(id, user)
	defer sess.Close()
	if len(hr) >= 4 && binary.LittleEndian.Uint32(hr[:4])&capFoundRows != 0 {
		sess.FoundRows = true
	}
	s.mu.Lock()
	s.conns[id] = c
	s.mu.Unlock()
	defer func() {
		s.mu.Lock()
		delete(s.conns, id)
		s.mu.Unlock()
	}()
	status := uint16(stAutocommit)
	p.writePacket(okPacket(0, 0, status))
	st := func() uint16 {
		if sess.inTxLocked() {
			return stAutocommit | stInTrans
		}
		return stAutocommit
	}
	stmts := map[uint32]*stmt{}
	nextStmt := uint32(0)
	for {
		p.seq = 0
		pkt, err := p.readPacket()
		if err != nil {
			return
		}
		switch pkt[0] {
		case 0x01: // quit
			return
		case 0x0e: // ping
			p.writePacket(okPacket(0, 0, status))
		case 0x02: // init db
			p.writePacket(okPacket(0, 0, status))
		case 0x03: // query
			q := string(pkt[1:])
			rs, drop := sess.Exec(q, nil, false)
			if drop {
				return
			}
			status = st()
			s.writeResults(p, rs, status, false)
		case 0x16: // prepare
			q := string(pkt[1:])
			nextStmt++
			stm := &stmt{q: q, nparams: strings.Count(q, "?")}
			stmts[nextStmt] = stm
			out := []byte{0}
			out = binary.LittleEndian.AppendUint32(out, nextStmt)
			out = binary.LittleEndian.AppendUint16(out, 0) // num columns (unknown: 0)
			out = binary.LittleEndian.AppendUint16(out, uint16(stm.nparams))
			out = append(out, 0, 0, 0)
			p.writePacket(out)
			if stm.nparams > 0 {
				for i := 0; i < stm.nparams; i++ {
					p.writePacket(colDef(col{name: "?", typ: tVarString}))
				}
				p.writePacket(eofPacket(status))
			}
		case 0x17: // execute
			sid := binary.LittleEndian.Uint32(pkt[1:5])
			stm := stmts[sid]
			if stm == nil {
				p.writePacket(errPacket(&myErr{1243, "HY000", "unknown stmt"}))
				continue
			}
			args, err := parseExecArgs(pkt, stm)
			if err != nil {
				p.writePacket(errPacket(&myErr{1210, "HY000", err.Error()}))
				continue
			}
			stm.long = nil
			rs, drop := sess.Exec(stm.q, args, true)
			if drop {
				return
			}
			status = st()
			s.writeResults(p, rs, status, true)
		case 0x18: // send long data (no reply): stmt id, param index, chunk
			if len(pkt) >= 7 {
				if stm := stmts[binary.LittleEndian.Uint32(pkt[1:5])]; stm != nil {
					if stm.long == nil {
						stm.long = map[int][]byte{}
					}
					i := int(binary.LittleEndian.Uint16(pkt[5:7]))
					stm.long[i] = append(stm.long[i], pkt[7:]...)
				}
			}
		case 0x19: // stmt close
			delete(stmts, binary.LittleEndian.Uint32(pkt[1:5]))
		case 0x1a: // stmt reset
			p.writePacket(okPacket(0, 0, status))
		default:
			p.writePacket(errPacket(&myErr{1047, "08S01", fmt.Sprintf("unknown command %d", pkt[0])}))
		}
	}
}

func parseExecArgs(pkt []byte, st *stmt) (args []interface{}, err error) {
	defer func() {
		if x := recover(); x != nil {
			args, err = nil, fmt.Errorf("malformed COM_STMT_EXECUTE packet: %v", x)
		}
	}()
	pos := 1 + 4 + 1 + 4
	if st.nparams == 0 {
		return nil, nil
	}
	nb := (st.nparams + 7) / 8
	nullmap := pkt[pos : pos+nb]
	pos += nb
	newBound := pkt[pos]
	pos++
	if newBound == 1 {
		st.ptypes = make([]uint16, st.nparams)
		for i := range st.ptypes {
			st.ptypes[i] = binary.LittleEndian.Uint16(pkt[pos:])
			pos += 2
		}
	}
	args = make([]interface{}, st.nparams)
	for i := 0; i < st.nparams; i++ {
		if nullmap[i/8]&(1<<(uint(i)%8)) != 0 {
			continue
		}
		t := byte(st.ptypes[i])
		unsigned := st.ptypes[i]&0x8000 != 0
		if data, ok := st.long[i]; ok { // value was sent ahead with COM_STMT_SEND_LONG_DATA
			if t == tBlob {
				args[i] = append([]byte{}, data...)
			} else {
				args[i] = string(data)
			}
			continue
		}
		switch t {
		case tLongLong:
			v := binary.LittleEndian.Uint64(pkt[pos:])
			pos += 8
			if unsigned {
				args[i] = v
			} else {
				args[i] = int64(v)
			}
		case tDouble:
			args[i] = math.Float64frombits(binary.LittleEndian.Uint64(pkt[pos:]))
			pos += 8
		case tTiny:
			args[i] = int64(int8(pkt[pos]))
			pos++
		case tString, tVarString, tVarchar, tBlob, tNewDecimal, 0xf5:
			n, k := readLenencInt(pkt[pos:])
			pos += k
			if t == tBlob {
				args[i] = append([]byte{}, pkt[pos:pos+int(n)]...)
			} else {
				args[i] = string(pkt[pos : pos+int(n)])
			}
			pos += int(n)
		case tDateTime, tTimestamp, tDate:
			n := int(pkt[pos])
			pos++
			var y, mo, d, h, mi, sec, us int
			if n >= 4 {
				y = int(binary.LittleEndian.Uint16(pkt[pos:]))
				mo, d = int(pkt[pos+2]), int(pkt[pos+3])
			}
			if n >= 7 {
				h, mi, sec = int(pkt[pos+4]), int(pkt[pos+5]), int(pkt[pos+6])
			}
			if n >= 11 {
				us = int(binary.LittleEndian.Uint32(pkt[pos+7:]))
			}
			pos += n
			args[i] = time.Date(y, time.Month(mo), d, h, mi, sec, us*1000, time.UTC)
		default:
			return nil, fmt.Errorf("unsupported param type %d", t)
		}
	}
	return args, nil
}

func okPacket(aff, last uint64, status uint16) []byte {
	b := []byte{0}
	b = lenencInt(b, aff)
	b = lenencInt(b, last)
	b = binary.LittleEndian.AppendUint16(b, status)
	b = binary.LittleEndian.AppendUint16(b, 0)
	return b
}
func eofPacket(status uint16) []byte {
	b := []byte{0xfe, 0, 0}
	return binary.LittleEndian.AppendUint16(b, status)
}
func errPacket(e *myErr) []byte {
	b := []byte{0xff}
	b = binary.LittleEndian.AppendUint16(b, e.code)
	b = append(b, '#')
	b = append(b, e.state...)
	return append(b, e.msg...)
}
func colDef(c col) []byte {
	b := lenencStr(nil, []byte("def"))
	b = lenencStr(b, []byte("vdb"))
	b = lenencStr(b, []byte("t"))
	b = lenencStr(b, []byte("t"))
	b = lenencStr(b, []byte(c.name))
	b = lenencStr(b, []byte(c.name))
	b = append(b, 0x0c)
	cs := uint16(45)
	if c.bin {
		cs = 63
	}
	b = binary.LittleEndian.AppendUint16(b, cs)
	b = binary.LittleEndian.AppendUint32(b, 255)
	b = append(b, c.typ)
	b = binary.LittleEndian.AppendUint16(b, c.flags)
	b = append(b, c.dec, 0, 0)
	return b
}

func (s *Server) writeResults(p *pconn, rs []result, status uint16, binaryRows bool) {
	for i, r := range rs {
		st := status
		if i < len(rs)-1 {
			st |= stMoreResults
		}
		if r.err != nil {
			p.writePacket(errPacket(r.err))
			return
		}
		if r.cols == nil {
			p.writePacket(okPacket(r.affected, r.lastID, st))
			continue
		}
		p.writePacket(lenencInt(nil, uint64(len(r.cols))))
		for _, c := range r.cols {
			p.writePacket(colDef(c))
		}
		p.writePacket(eofPacket(st))
		for _, row := range r.rows {
			if binaryRows {
				p.writePacket(binRow(r.cols, row))
			} else {
				p.writePacket(textRow(r.cols, row))
			}
		}
		p.writePacket(eofPacket(st))
	}
}

func fmtTime(c col, t time.Time) string {
	if c.typ == tDate {
		return t.Format("2006-01-02")
	}
	if c.dec > 0 {
		return t.Format("2006-01-02 15:04:05." + strings.Repeat("0", int(c.dec)))
	}
	return t.Format("2006-01-02 15:04:05")
}

func textRow(cols []col, row []interface{}) []byte {
	var b []byte
	for i, v := range row {
		switch x := v.(type) {
		case nil:
			b = append(b, 0xfb)
		case time.Time:
			b = lenencStr(b, []byte(fmtTime(cols[i], x)))
		case float64:
			if cols[i].typ == tFloat {
				b = lenencStr(b, []byte(strconv.FormatFloat(x, 'g', -1, 32)))
			} else {
				b = lenencStr(b, []byte(strconv.FormatFloat(x, 'g', -1, 64)))
			}
		case []byte:
			b = lenencStr(b, x)
		default:
			b = lenencStr(b, []byte(textOf(v)))
		}
	}
	return b
}

func binRow(cols []col, row []interface{}) []byte {
	b := []byte{0}
	nm := make([]byte, (len(cols)+7+2)/8)
	var body []byte
	for i, v := range row {
		if v == nil {
			nm[(i+2)/8] |= 1 << (uint(i+2) % 8)
			continue
		}
		switch cols[i].typ {
		case tLongLong:
			body = binary.LittleEndian.AppendUint64(body, uint64(toI64(v)))
		case tLong, 9:
			body = binary.LittleEndian.AppendUint32(body, uint32(toI64(v)))
		case tShort, 13:
			body = binary.LittleEndian.AppendUint16(body, uint16(toI64(v)))
		case tTiny:
			body = append(body, byte(toI64(v)))
		case tDouble:
			body = binary.LittleEndian.AppendUint64(body, math.Float64bits(toFloat(v)))
		case tFloat:
			body = binary.LittleEndian.AppendUint32(body, math.Float32bits(float32(toFloat(v))))
		case tDateTime, tTimestamp, tDate:
			t := v.(time.Time)
			if cols[i].typ == tDate {
				body = append(body, 4)
				body = binary.LittleEndian.AppendUint16(body, uint16(t.Year()))
				body = append(body, byte(t.Month()), byte(t.Day()))
			} else {
				body = append(body, 11)
				body = binary.LittleEndian.AppendUint16(body, uint16(t.Year()))
				body = append(body, byte(t.Month()), byte(t.Day()), byte(t.Hour()), byte(t.Minute()), byte(t.Second()))
				body = binary.LittleEndian.AppendUint32(body, uint32(t.Nanosecond()/1000))
			}
		default:
			switch x := v.(type) {
			case []byte:
				body = lenencStr(body, x)
			default:
				body = lenencStr(body, []byte(textOf(x)))
			}
		}
	}
	b = append(b, nm...)
	return append(b, body...)
}

func toI64(v interface{}) int64 {
	switch x := v.(type) {
	case int64:
		return x
	case uint64:
		return int64(x)
	}
	return int64(toFloat(v))
}

// Kill closes the TCP connection of a session (simulates a lost connection).
func (s *Server) Kill(id int) {
	s.mu.Lock()
	c := s.conns[id]
	s.mu.Unlock()
	if c != nil {
		c.Close()
	}
}
