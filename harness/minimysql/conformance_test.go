package minimysql

import (
	"context"
	"database/sql"
	"fmt"
	"math"
	"strings"
	"testing"
	"time"

	"github.com/go-sql-driver/mysql"
)

func newWorld(t *testing.T) (*Engine, *Server, *sql.DB) {
	e := NewEngine()
	e.CreateTable(&Table{Name: "t_all", Cols: []Column{
		{Name: "id", T: TInt, Bits: 64, AutoInc: true, ColType: "bigint(20)"},
		{Name: "ti", T: TInt, Bits: 8, Nullable: true},
		{Name: "ui", T: TInt, Bits: 64, Unsigned: true, Nullable: true, ColType: "bigint(20) unsigned"},
		{Name: "f", T: TFloat, Nullable: true},
		{Name: "d", T: TDouble, Nullable: true},
		{Name: "dec", T: TDecimal, Len: 12, Scale: 3, Nullable: true, ColType: "decimal(12,3)"},
		{Name: "s", T: TChar, Len: 64, Nullable: true, ColType: "varchar(64)"},
		{Name: "b", T: TBin, Nullable: true, DataType: "blob"},
		{Name: "dt", T: TDateTime, Fsp: 6, Nullable: true},
		{Name: "dt0", T: TDateTime, Fsp: 0, Nullable: true},
		{Name: "da", T: TDate, Nullable: true},
		{Name: "ts", T: TTimestamp, Fsp: 3, Nullable: true},
	}, PK: []int{0}})
	e.CreateTable(&Table{Name: "t_ck", Cols: []Column{
		{Name: "a", T: TInt, Bits: 32},
		{Name: "k2", T: TChar, Len: 32},
		{Name: "k1", T: TInt, Bits: 64},
		{Name: "v", T: TChar, Len: 64, Nullable: true, HasDef: true, Default: "dflt"},
	}, PK: []int{2, 1}, Uniques: [][]int{{0}}, UniqueN: []string{"uk_a"}})
	s := NewServer(e)
	dsn := fmt.Sprintf("app:pw@tcp(%s)/vdb?interpolateParams=true&parseTime=true&multiStatements=true", s.Addr())
	db, err := sql.Open("mysql", dsn)
	if err != nil {
		t.Fatal(err)
	}
	t.Cleanup(func() { db.Close(); s.Close() })
	return e, s, db
}

func TestTypesRoundTrip(t *testing.T) {
	for _, interp := range []bool{true, false} {
		e, s, _ := newWorld(t)
		_ = e
		dsn := fmt.Sprintf("app:pw@tcp(%s)/vdb?interpolateParams=%v&parseTime=true", s.Addr(), interp)
		db, _ := sql.Open("mysql", dsn)
		ts := time.Date(2024, 2, 29, 23, 59, 58, 123456000, time.UTC)
		_, err := db.Exec("insert into t_all (ti, ui, f, d, `dec`, s, b, dt, dt0, da, ts) values (?,?,?,?,?,?,?,?,?,?,?)",
			-128, uint64(math.MaxUint64), float32(1.5), 2.25e-300, "12345.678", "it's \\ \"q\" 名前", []byte{0, 1, 0xff, '\''}, ts, ts, ts, ts)
		if err != nil {
			t.Fatalf("interp=%v insert: %v", interp, err)
		}
		for _, prep := range []bool{false, true} {
			q := "select ti, ui, f, d, `dec`, s, b, dt, dt0, da, ts from t_all where id = 1"
			var row *sql.Row
			if prep {
				st, err := db.Prepare(strings.Replace(q, "= 1", "= ?", 1))
				if err != nil {
					t.Fatal(err)
				}
				row = st.QueryRow(1)
			} else {
				row = db.QueryRow(q)
			}
			var ti int64
			var ui uint64
			var f float32
			var d float64
			var dec, str string
			var b []byte
			var dt, dt0, da, tsv time.Time
			if err := row.Scan(&ti, &ui, &f, &d, &dec, &str, &b, &dt, &dt0, &da, &tsv); err != nil {
				t.Fatalf("interp=%v prep=%v scan: %v", interp, prep, err)
			}
			if ti != -128 || ui != math.MaxUint64 || f != 1.5 || d != 2.25e-300 || dec != "12345.678" || str != "it's \\ \"q\" 名前" || string(b) != "\x00\x01\xff'" {
				t.Fatalf("interp=%v prep=%v values: %v %v %v %v %q %q %x", interp, prep, ti, ui, f, d, dec, str, b)
			}
			if !dt.Equal(ts) || !dt0.Equal(time.Date(2024, 2, 29, 23, 59, 58, 0, time.UTC)) || !da.Equal(time.Date(2024, 2, 29, 0, 0, 0, 0, time.UTC)) || !tsv.Equal(time.Date(2024, 2, 29, 23, 59, 58, 123000000, time.UTC)) {
				t.Fatalf("interp=%v prep=%v times: %v %v %v %v", interp, prep, dt, dt0, da, tsv)
			}
		}
		// generic scan kinds (what seata's image builder sees)
		rows, err := db.Query("select * from t_all")
		if err != nil {
			t.Fatal(err)
		}
		cts, _ := rows.ColumnTypes()
		var names []string
		for _, ct := range cts {
			names = append(names, ct.Name()+":"+ct.DatabaseTypeName()+":"+ct.ScanType().String())
		}
		t.Log(strings.Join(names, " "))
		rows.Close()
		db.Close()
	}
}

func TestNulls(t *testing.T) {
	_, _, db := newWorld(t)
	if _, err := db.Exec("insert into t_all (s) values (null)"); err != nil {
		t.Fatal(err)
	}
	rows, _ := db.Query("select * from t_all")
	cols, _ := rows.Columns()
	vals := make([]interface{}, len(cols))
	ptrs := make([]interface{}, len(cols))
	for i := range vals {
		ptrs[i] = &vals[i]
	}
	rows.Next()
	if err := rows.Scan(ptrs...); err != nil {
		t.Fatal(err)
	}
	for i := 1; i < len(vals); i++ {
		if vals[i] != nil {
			t.Fatalf("col %s not null: %v", cols[i], vals[i])
		}
	}
	rows.Close()
}

func TestTransactionsAndLocks(t *testing.T) {
	e, _, db := newWorld(t)
	e.LockWait = 200 * time.Millisecond
	db.Exec("insert into t_ck (a, k2, k1, v) values (1, 'x', 10, 'v1'), (2, 'y', 20, 'v2')")
	tx1, _ := db.Begin()
	tx2, _ := db.Begin()
	if _, err := tx1.Exec("update t_ck set v = 'a' where k1 = 10 and k2 = 'x'"); err != nil {
		t.Fatal(err)
	}
	_, err := tx2.Exec("update t_ck set v = 'b' where k1 = 10")
	me, ok := err.(*mysql.MySQLError)
	if !ok || me.Number != 1205 {
		t.Fatalf("expected 1205, got %v", err)
	}
	var v string
	db.QueryRow("select v from t_ck where k1 = 10").Scan(&v)
	if v != "v1" {
		t.Fatalf("uncommitted visible: %s", v)
	}
	tx1.QueryRow("select v from t_ck where k1 = 10").Scan(&v)
	if v != "a" {
		t.Fatalf("own write invisible: %s", v)
	}
	tx1.Commit()
	if _, err := tx2.Exec("update t_ck set v = 'b' where k1 = 10"); err != nil {
		t.Fatal(err)
	}
	tx2.Rollback()
	db.QueryRow("select v from t_ck where k1 = 10").Scan(&v)
	if v != "a" {
		t.Fatalf("after commit/rollback: %s", v)
	}
	// unique key
	_, err = db.Exec("insert into t_ck (a, k2, k1) values (1, 'z', 30)")
	if me, ok := err.(*mysql.MySQLError); !ok || me.Number != 1062 {
		t.Fatalf("expected 1062, got %v", err)
	}
	// default value + composite pk dup
	if _, err := db.Exec("insert into t_ck (a, k2, k1) values (3, 'z', 30)"); err != nil {
		t.Fatal(err)
	}
	db.QueryRow("select v from t_ck where k1 = 30").Scan(&v)
	if v != "dflt" {
		t.Fatalf("default: %q", v)
	}
	_, err = db.Exec("insert into t_ck (a, k2, k1) values (4, 'z', 30)")
	if me, ok := err.(*mysql.MySQLError); !ok || me.Number != 1062 {
		t.Fatalf("expected 1062 pk, got %v", err)
	}
}

func TestImplicitCommitAndSavepoint(t *testing.T) {
	_, _, db := newWorld(t)
	db.SetMaxOpenConns(1)
	c, _ := db.Conn(bgctx)
	c.ExecContext(bgctx, "START TRANSACTION")
	c.ExecContext(bgctx, "insert into t_all (s) values ('a')")
	c.ExecContext(bgctx, "START TRANSACTION") // implicit commit
	c.ExecContext(bgctx, "insert into t_all (s) values ('b')")
	c.ExecContext(bgctx, "savepoint sp1;;")
	c.ExecContext(bgctx, "insert into t_all (s) values ('c')")
	if _, err := c.ExecContext(bgctx, "rollback to savepoint sp1"); err != nil {
		t.Fatal(err)
	}
	c.ExecContext(bgctx, "ROLLBACK")
	var n int
	c.QueryRowContext(bgctx, "select id from t_all where s = 'a'").Scan(&n)
	if n != 1 {
		t.Fatalf("implicit commit lost: %d", n)
	}
	rows, _ := c.QueryContext(bgctx, "select s from t_all order by id")
	var got []string
	for rows.Next() {
		var s string
		rows.Scan(&s)
		got = append(got, s)
	}
	rows.Close()
	if strings.Join(got, ",") != "a" {
		t.Fatalf("rows: %v", got)
	}
	c.Close()
}

func TestOnDuplicateAndLastInsertID(t *testing.T) {
	_, _, db := newWorld(t)
	r, err := db.Exec("insert into t_all (s, ti) values ('a', 1), ('b', 2), ('c', 3)")
	if err != nil {
		t.Fatal(err)
	}
	id, _ := r.LastInsertId()
	aff, _ := r.RowsAffected()
	if id != 1 || aff != 3 {
		t.Fatalf("last id %d aff %d", id, aff)
	}
	r, err = db.Exec("insert into t_all (id, s, ti) values (2, 'x', 9), (7, 'y', 9) on duplicate key update ti = values(ti) + ?, s = ?", 1, "upd")
	if err != nil {
		t.Fatal(err)
	}
	aff, _ = r.RowsAffected()
	if aff != 3 {
		t.Fatalf("aff %d", aff)
	}
	var s string
	var ti int
	db.QueryRow("select s, ti from t_all where id = 2").Scan(&s, &ti)
	if s != "upd" || ti != 10 {
		t.Fatalf("%s %d", s, ti)
	}
	r, _ = db.Exec("insert into t_all (s) values ('z')")
	id, _ = r.LastInsertId()
	if id != 8 {
		t.Fatalf("auto inc after explicit 7: %d", id)
	}
}

func TestWhereForms(t *testing.T) {
	_, _, db := newWorld(t)
	db.Exec("insert into t_all (s, ti, d) values ('a', 1, 1.5), ('b', 2, null), ('c', 3, 3.5), ('d', null, 4.5), ('e', 5, 5.5)")
	check := func(q string, want string, args ...interface{}) {
		rows, err := db.Query(q, args...)
		if err != nil {
			t.Fatalf("%s: %v", q, err)
		}
		var got []string
		for rows.Next() {
			var s string
			rows.Scan(&s)
			got = append(got, s)
		}
		rows.Close()
		if strings.Join(got, "") != want {
			t.Fatalf("%s => %v want %s", q, got, want)
		}
	}
	check("select s from t_all where ti between ? and ? order by id", "abc", 1, 3)
	check("select s from t_all where ti in (?, ?) or d > ? order by id desc", "edca", 1, 3, 4)
	check("select s from t_all where (ti = ? or ti = ?) and not (d is null)", "ac", 1, 3)
	check("select s from t_all where ti <> 2 order by s limit 2", "ac")
	check("select s from t_all where ti is null", "d")
	check("select s from t_all where s like 'a%' or s like '_' and ti >= 5", "ae")
	check("select s from t_all where (id, s) in ((?, ?), (?, ?)) order by id", "ac", 1, "a", 3, "c")
	check("select s from t_all where id = '3'", "c")
	check("select s from t_all where s = 'A'", "a")
	check("select s from t_all where ti + 1 = 3", "b")
	r, err := db.Exec("update t_all set ti = ti + 10 where ti < ? order by id desc limit 2", 4)
	if err != nil {
		t.Fatal(err)
	}
	if n, _ := r.RowsAffected(); n != 2 {
		t.Fatalf("affected %d", n)
	}
	check("select s from t_all where ti > 10 order by id", "bc")
	r, _ = db.Exec("delete from t_all where ti > ? or ti is null", 10)
	if n, _ := r.RowsAffected(); n != 3 {
		t.Fatalf("deleted %d", n)
	}
}

func TestInfoSchemaAndVersion(t *testing.T) {
	_, _, db := newWorld(t)
	var v string
	if err := db.QueryRow("SELECT VERSION()").Scan(&v); err != nil || !strings.HasPrefix(v, "5.7") {
		t.Fatalf("version %q %v", v, err)
	}
	rows, err := db.Query("select TABLE_NAME, TABLE_SCHEMA, COLUMN_NAME, DATA_TYPE, COLUMN_TYPE, COLUMN_KEY, IS_NULLABLE, COLUMN_DEFAULT, EXTRA from INFORMATION_SCHEMA.COLUMNS where `TABLE_SCHEMA` = ? and `TABLE_NAME` = ?", "vdb", "t_ck")
	if err != nil {
		t.Fatal(err)
	}
	n := 0
	for rows.Next() {
		n++
	}
	rows.Close()
	if n != 4 {
		t.Fatalf("columns: %d", n)
	}
	rows, err = db.Query("SELECT `INDEX_NAME`, `COLUMN_NAME`, `NON_UNIQUE` FROM `INFORMATION_SCHEMA`.`STATISTICS` WHERE `TABLE_SCHEMA` = ? AND `TABLE_NAME` = ?", "vdb", "t_ck")
	if err != nil {
		t.Fatal(err)
	}
	var idx []string
	for rows.Next() {
		var a, b string
		var c int64
		rows.Scan(&a, &b, &c)
		idx = append(idx, a+"."+b)
	}
	rows.Close()
	if strings.Join(idx, ",") != "PRIMARY.k1,PRIMARY.k2,uk_a.a" {
		t.Fatalf("%v", idx)
	}
}

func TestXAStates(t *testing.T) {
	e, _, db := newWorld(t)
	db.Exec("insert into t_all (s) values ('a')")
	c1, _ := db.Conn(bgctx)
	c2, _ := db.Conn(bgctx)
	mustOK := func(c *sql.Conn, q string) {
		if _, err := c.ExecContext(bgctx, q); err != nil {
			t.Fatalf("%s: %v", q, err)
		}
	}
	mustErr := func(c *sql.Conn, q string, code uint16) {
		_, err := c.ExecContext(bgctx, q)
		if me, ok := err.(*mysql.MySQLError); !ok || me.Number != code {
			t.Fatalf("%s: expected %d got %v", q, code, err)
		}
	}
	mustOK(c1, "XA START 'x1'")
	mustErr(c1, "XA PREPARE 'x1'", 1399)
	mustOK(c1, "update t_all set s = 'b' where id = 1")
	mustErr(c1, "COMMIT", 1399)
	mustOK(c1, "XA END 'x1'")
	mustOK(c1, "XA PREPARE 'x1'")
	mustErr(c2, "XA START 'x1'", 1440)
	c1.Close() // connection returns to pool; prepared branch persists
	mustOK(c2, "XA COMMIT 'x1'")
	var s string
	db.QueryRow("select s from t_all where id = 1").Scan(&s)
	if s != "b" {
		t.Fatalf("xa commit: %s", s)
	}
	mustErr(c2, "XA ROLLBACK 'nope'", 1397)
	if len(e.XABranches()) != 0 {
		t.Fatalf("branches left: %v", e.XABranches())
	}
	c2.Close()
}

func TestInjection(t *testing.T) {
	e, _, db := newWorld(t)
	n := 0
	e.Inject = func(j *JournalEntry) *Action {
		if strings.HasPrefix(j.SQL, "insert") {
			n++
			if n == 1 {
				return &Action{Err: &MyErr{1205, "HY000", "Lock wait timeout exceeded; try restarting transaction"}}
			}
			if n == 2 {
				return &Action{DropBefore: true}
			}
		}
		return nil
	}
	_, err := db.Exec("insert into t_all (s) values ('a')")
	if me, ok := err.(*mysql.MySQLError); !ok || me.Number != 1205 {
		t.Fatalf("want 1205: %v", err)
	}
	_, err = db.Exec("insert into t_all (s) values ('a')")
	if err == nil {
		t.Fatal("want connection error")
	}
	if _, err = db.Exec("insert into t_all (s) values ('a')"); err != nil {
		t.Fatal(err)
	}
	if e.CountRows("t_all") != 1 {
		t.Fatalf("rows %d", e.CountRows("t_all"))
	}
}

var bgctx = context.Background()
