// Package world hosts, inside the vcheck process, everything a client child talks to: the logical clock,
// the fake coordinator, the fake MySQL server(s) and the control channel.
package world

import (
	"fmt"
	"strings"
	"time"

	"verif/clock"
	"verif/ctl"
	"verif/faketc"
	"verif/minimysql"
	"verif/vc"
)

type World struct {
	Run   *vc.Run
	Clock *clock.Clock
	Marks *clock.Marks
	TC    *faketc.TC
	bins  map[bool]string
	dbs   []*DB
}

func New(r *vc.Run) (*World, error) {
	w := &World{Run: r, Clock: &clock.Clock{}, Marks: &clock.Marks{}, bins: map[bool]string{}}
	tc, err := faketc.New(w.Clock)
	if err != nil {
		return nil, err
	}
	w.TC = tc
	return w, nil
}

func (w *World) Close() {
	if w.TC != nil {
		w.TC.Close()
	}
	for _, d := range w.dbs {
		d.S.Close()
	}
}

func (w *World) OnMark(m ctl.Mark) int64 {
	seq := w.Clock.Next()
	w.Marks.Add(clock.Mark{Seq: seq, Case: m.Case, What: m.What, Data: m.Data})
	return seq
}

type InitArg struct {
	TCAddr      string            `json:"tc_addr"`
	LoadBalance string            `json:"load_balance,omitempty"`
	Replace     map[string]string `json:"replace,omitempty"`
	DBs         []DBSpec          `json:"dbs,omitempty"`
}

type DBSpec struct {
	Name    string `json:"name"`
	Driver  string `json:"driver"`
	DSN     string `json:"dsn"`
	MaxOpen int    `json:"max_open,omitempty"`
	MaxIdle int    `json:"max_idle,omitempty"`
	Class   string `json:"class,omitempty"`
}

// StartClient builds (once per variant) and launches a client child, initialises seata-go in it against this
// world's TC and waits until a TC session exists.
func (w *World) StartClient(name string, race bool, init InitArg, env []string) (*vc.Child, error) {
	bin, ok := w.bins[race]
	if !ok {
		var err error
		bin, err = vc.BuildClient(w.Run.Root, w.Run.Prop, race)
		if err != nil {
			return nil, err
		}
		w.bins[race] = bin
	}
	ch, err := vc.StartChild(bin, w.Run.RunDir, name, env, w.OnMark)
	if err != nil {
		return nil, err
	}
	init.TCAddr = w.TC.Addr
	if err := ch.Call("init", init, nil); err != nil {
		ch.Kill()
		return nil, fmt.Errorf("client init: %v\n%s", err, ch.LogTail(3000))
	}
	if s := w.TC.WaitSession("", 20*time.Second); s == nil {
		ch.Kill()
		return nil, fmt.Errorf("client %s never opened a session to the fake TC\n%s", name, ch.LogTail(3000))
	}
	return ch, nil
}

// ---- databases ----

type DB struct {
	Name string
	E    *minimysql.Engine
	S    *minimysql.Server
}

// NewDB starts a fake MySQL server sharing the world's logical clock.
func (w *World) NewDB(name string) *DB {
	e := minimysql.NewEngine()
	e.Clock = w.Clock
	s := minimysql.NewServer(e)
	d := &DB{Name: name, E: e, S: s}
	w.dbs = append(w.dbs, d)
	return d
}

// DSN for the given login user (the user name is the default connection class).
func (d *DB) DSN(user string, extra string) string {
	q := "interpolateParams=true&parseTime=true&multiStatements=true"
	if extra != "" {
		q = extra
	}
	return fmt.Sprintf("%s:pw@tcp(%s)/vdb?%s", user, d.S.Addr(), q)
}

// ResourceID is what seata-go derives from the DSN (everything before '?').
func (d *DB) ResourceID(user string) string {
	dsn := d.DSN(user, "")
	if i := strings.Index(dsn, "?"); i >= 0 {
		return dsn[:i]
	}
	return dsn
}

// CreateUndoLog creates the AT undo_log table.
func (d *DB) CreateUndoLog() {
	d.E.CreateTable(&minimysql.Table{Name: "undo_log", Cols: []minimysql.Column{
		{Name: "branch_id", T: minimysql.TInt, Bits: 64, ColType: "bigint(20)"},
		{Name: "xid", T: minimysql.TChar, Len: 128, ColType: "varchar(128)"},
		{Name: "context", T: minimysql.TChar, Len: 128, ColType: "varchar(128)"},
		{Name: "rollback_info", T: minimysql.TBin, DataType: "longblob", ColType: "longblob"},
		{Name: "log_status", T: minimysql.TInt, Bits: 32, ColType: "int(11)"},
		{Name: "log_created", T: minimysql.TDateTime, Fsp: 6, ColType: "datetime(6)"},
		{Name: "log_modified", T: minimysql.TDateTime, Fsp: 6, ColType: "datetime(6)"},
	}, PK: []int{1, 0}})
}
