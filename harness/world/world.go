// Package world hosts, inside the vcheck process, everything a client child talks to: the logical clock,
// the fake coordinator, the fake MySQL server(s) and the control channel.
package world

import (
	"fmt"
	"time"

	"verif/clock"
	"verif/ctl"
	"verif/faketc"
	"verif/vc"
)

type World struct {
	Run   *vc.Run
	Clock *clock.Clock
	Marks *clock.Marks
	TC    *faketc.TC
	bins  map[bool]string
}

func New(r *vc.Run) (*World, error) {
	w := &World{Run: r, Clock: &clock.Clock{}, Marks: &clock.Marks{}, bins: map[bool]string{}}
	tc, err := faketc.New(w.Clock)
	if err != nil {
		return nil, err
	}
	w.TC = tc
	return w, nil
}

func (w *World) Close() {
	if w.TC != nil {
		w.TC.Close()
	}
}

func (w *World) OnMark(m ctl.Mark) int64 {
	seq := w.Clock.Next()
	w.Marks.Add(clock.Mark{Seq: seq, Case: m.Case, What: m.What, Data: m.Data})
	return seq
}

type InitArg struct {
	TCAddr      string            `json:"tc_addr"`
	LoadBalance string            `json:"load_balance,omitempty"`
	Replace     map[string]string `json:"replace,omitempty"`
	DBs         []DBSpec          `json:"dbs,omitempty"`
}

type DBSpec struct {
	Name    string `json:"name"`
	Driver  string `json:"driver"`
	DSN     string `json:"dsn"`
	MaxOpen int    `json:"max_open,omitempty"`
	MaxIdle int    `json:"max_idle,omitempty"`
}

// StartClient builds (once per variant) and launches a client child, initialises seata-go in it against this
// world's TC and waits until a TC session exists.
func (w *World) StartClient(name string, race bool, init InitArg, env []string) (*vc.Child, error) {
	bin, ok := w.bins[race]
	if !ok {
		var err error
		bin, err = vc.BuildClient(w.Run.Root, w.Run.Prop, race)
		if err != nil {
			return nil, err
		}
		w.bins[race] = bin
	}
	ch, err := vc.StartChild(bin, w.Run.RunDir, name, env, w.OnMark)
	if err != nil {
		return nil, err
	}
	init.TCAddr = w.TC.Addr
	if err := ch.Call("init", init, nil); err != nil {
		ch.Kill()
		return nil, fmt.Errorf("client init: %v\n%s", err, ch.LogTail(3000))
	}
	if s := w.TC.WaitSession("", 20*time.Second); s == nil {
		ch.Kill()
		return nil, fmt.Errorf("client %s never opened a session to the fake TC\n%s", name, ch.LogTail(3000))
	}
	return ch, nil
}
