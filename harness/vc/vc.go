// Package vc is the check framework of vcheck: seeds, verdict bookkeeping, known findings, evidence files,
// building and supervising client children. It never imports seata-go.
package vc

import (
	"crypto/sha1"
	"encoding/hex"
	"encoding/json"
	"fmt"
	"os"
	"os/exec"
	"path/filepath"
	"sort"
	"strings"
	"sync"
	"time"
)

// ---------- PRNG (splitmix64: case lists must not depend on the Go version) ----------

type Rand struct{ s uint64 }

func NewRand(seed int64, stream string) *Rand {
	h := sha1.Sum([]byte(stream))
	var x uint64
	for i := 0; i < 8; i++ {
		x = x<<8 | uint64(h[i])
	}
	return &Rand{s: uint64(seed)*0x9E3779B97F4A7C15 ^ x}
}

func (r *Rand) U64() uint64 {
	r.s += 0x9E3779B97F4A7C15
	z := r.s
	z = (z ^ (z >> 30)) * 0xBF58476D1CE4E5B9
	z = (z ^ (z >> 27)) * 0x94D049BB133111EB
	return z ^ (z >> 31)
}
func (r *Rand) Intn(n int) int {
	if n <= 0 {
		return 0
	}
	return int(r.U64() % uint64(n))
}
func (r *Rand) Bool() bool        { return r.U64()&1 == 1 }
func (r *Rand) Chance(p int) bool { return r.Intn(100) < p }
func (r *Rand) Pick(xs ...string) string {
	return xs[r.Intn(len(xs))]
}
func (r *Rand) Perm(n int) []int {
	p := make([]int, n)
	for i := range p {
		p[i] = i
	}
	for i := n - 1; i > 0; i-- {
		j := r.Intn(i + 1)
		p[i], p[j] = p[j], p[i]
	}
	return p
}

// ---------- verdict bookkeeping ----------

type Violation struct {
	Clause   string            `json:"clause"`
	Shape    string            `json:"shape"`
	Features map[string]string `json:"features,omitempty"`
	Detail   string            `json:"detail"`
	Case     interface{}       `json:"case,omitempty"`
	History  interface{}       `json:"history,omitempty"`
	Known    string            `json:"known_finding,omitempty"`
	Replay   string            `json:"replay,omitempty"`
}

type KnownFinding struct {
	ID          string              `json:"id"`
	Property    string              `json:"property"`
	Status      string              `json:"status"` // open | fixed
	Clause      string              `json:"clause"`
	Predicate   map[string][]string `json:"predicate,omitempty"`
	Description string              `json:"description"`
	Commit      string              `json:"commit,omitempty"`
	Witness     interface{}         `json:"witness,omitempty"`
}

func (k *KnownFinding) Matches(v *Violation) bool {
	if k.Status != "open" || k.Clause != v.Clause {
		return false
	}
	for f, vals := range k.Predicate {
		have, ok := v.Features[f]
		if !ok {
			return false
		}
		found := false
		for _, x := range vals {
			if x == have {
				found = true
			}
		}
		if !found {
			return false
		}
	}
	return true
}

type Run struct {
	Prop   string
	Tier   string
	Seed   int64
	Root   string // /verif
	RunDir string // /verif/.run/<prop>-<pid>
	Level  string
	Start  time.Time

	mu           sync.Mutex
	Evaluations  int
	shapes       map[string]int // non-trivial shape signatures
	Samples      []interface{}
	sampleShapes map[string]bool
	Violations   []*Violation
	Inconclusive []string
	Counters     map[string]int64
	Extra        map[string]interface{}
	Assumptions  []string
	Rule         string
	Errors       []string
	Exhaustive   []string
	known        []*KnownFinding
	MaxSamples   int
}

func NewRun(prop, tier string, seed int64, root, level string) *Run {
	r := &Run{Prop: prop, Tier: tier, Seed: seed, Root: root, Level: level, Start: time.Now(),
		shapes: map[string]int{}, sampleShapes: map[string]bool{}, Counters: map[string]int64{}, Extra: map[string]interface{}{}, MaxSamples: 6}
	r.RunDir = filepath.Join(root, ".run", fmt.Sprintf("%s-%d", prop, os.Getpid()))
	os.MkdirAll(r.RunDir, 0o755)
	b, err := os.ReadFile(filepath.Join(root, "known_findings.json"))
	if err == nil {
		var all struct {
			Findings []*KnownFinding `json:"findings"`
		}
		if err := json.Unmarshal(b, &all); err != nil {
			r.Errors = append(r.Errors, "known_findings.json: "+err.Error())
		}
		for _, k := range all.Findings {
			if k.Property == prop {
				r.known = append(r.known, k)
			}
		}
	}
	return r
}

func (r *Run) Count(k string, n int64) {
	r.mu.Lock()
	r.Counters[k] += n
	r.mu.Unlock()
}

// Case records one evaluated case. shape=="" means the monitored mechanism did not fire (trivial).
func (r *Run) Case(shape string, sample interface{}) {
	r.mu.Lock()
	defer r.mu.Unlock()
	r.Evaluations++
	if shape == "" {
		return
	}
	r.shapes[shape]++
	if sample != nil && !r.sampleShapes[shape] && len(r.Samples) < r.MaxSamples {
		r.sampleShapes[shape] = true
		r.Samples = append(r.Samples, sample)
	}
}

func (r *Run) Violate(v *Violation) {
	r.mu.Lock()
	defer r.mu.Unlock()
	for _, k := range r.known {
		if k.Matches(v) {
			v.Known = k.ID
			break
		}
	}
	r.Violations = append(r.Violations, v)
}

func (r *Run) Inconc(why string) {
	r.mu.Lock()
	r.Inconclusive = append(r.Inconclusive, why)
	r.mu.Unlock()
}

func (r *Run) Errorf(f string, a ...interface{}) {
	r.mu.Lock()
	r.Errors = append(r.Errors, fmt.Sprintf(f, a...))
	r.mu.Unlock()
}

func (r *Run) DistinctShapes() int {
	r.mu.Lock()
	defer r.mu.Unlock()
	return len(r.shapes)
}

// Finish writes evidence and replay files, prints verdict lines and returns the exit code.
func (r *Run) Finish() int {
	r.mu.Lock()
	defer r.mu.Unlock()
	if os.Getenv("VERIF_KEEP") == "" {
		defer os.RemoveAll(r.RunDir)
	}
	evDir := filepath.Join(r.Root, "evidence")
	os.MkdirAll(filepath.Join(evDir, "replay"), 0o755)
	// stale replay files of this property
	if old, _ := filepath.Glob(filepath.Join(evDir, "replay", r.Prop+"-*.json")); old != nil {
		for _, f := range old {
			os.Remove(f)
		}
	}
	newV := 0
	knownHit := map[string]int{}
	var firstNew []*Violation
	for _, v := range r.Violations {
		if v.Known != "" {
			knownHit[v.Known]++
			continue
		}
		newV++
		if len(firstNew) < 20 {
			firstNew = append(firstNew, v)
		}
	}
	for _, v := range firstNew {
		b, _ := json.MarshalIndent(map[string]interface{}{"property": r.Prop, "seed": r.Seed, "tier": r.Tier, "violation": v}, "", " ")
		h := sha1.Sum(b)
		p := filepath.Join(evDir, "replay", fmt.Sprintf("%s-%s.json", r.Prop, hex.EncodeToString(h[:5])))
		os.WriteFile(p, b, 0o644)
		v.Replay = p
	}
	byClause := map[string]int{}
	for _, v := range r.Violations {
		k := v.Clause
		if t, ok := v.Features["type"]; ok {
			k += "/" + t
		}
		if v.Known != "" {
			k += " [known " + v.Known + "]"
		}
		byClause[k]++
	}
	var knownRep []map[string]interface{}
	for _, k := range r.known {
		if k.Status != "open" {
			continue
		}
		if knownHit[k.ID] > 0 {
			fmt.Printf("KNOWN-FINDING: property=%s %s: %s (reproduced by %d case(s) in this run)\n", r.Prop, k.ID, k.Description, knownHit[k.ID])
			knownRep = append(knownRep, map[string]interface{}{"id": k.ID, "cases": knownHit[k.ID]})
		} else {
			fmt.Printf("KNOWN-FINDING: property=%s %s: %s (listed; no case of this run reproduced it)\n", r.Prop, k.ID, k.Description)
			knownRep = append(knownRep, map[string]interface{}{"id": k.ID, "cases": 0, "note": "not reproduced in this run; suppresses nothing"})
		}
	}
	shapeNames := make([]string, 0, len(r.shapes))
	for s := range r.shapes {
		shapeNames = append(shapeNames, s)
	}
	sort.Strings(shapeNames)
	if len(shapeNames) > 40 {
		shapeNames = shapeNames[:40]
	}
	cov := map[string]interface{}{
		"evaluations":               r.Evaluations,
		"distinct_nontrivial":       len(r.shapes),
		"rule":                      r.Rule,
		"samples":                   r.Samples,
		"counters":                  r.Counters,
		"shape_signatures_first40":  shapeNames,
		"inconclusive":              r.Inconclusive,
		"known_findings_reproduced": knownRep,
		"violations_by_clause":      byClause,
	}
	if len(r.Samples) == 0 {
		cov["samples"] = []interface{}{}
	}
	if len(r.Exhaustive) > 0 {
		cov["exhaustive_parts"] = r.Exhaustive
	}
	for k, v := range r.Extra {
		cov[k] = v
	}
	ev := map[string]interface{}{
		"property_id": r.Prop, "tier": r.Tier, "seed": r.Seed, "level": r.Level, "coverage": cov,
		"assumptions": r.Assumptions, "wall_s": time.Since(r.Start).Seconds(), "violations": newV,
	}
	if len(r.Errors) > 0 {
		ev["errors"] = r.Errors
	}
	b, _ := json.MarshalIndent(ev, "", " ")
	os.WriteFile(filepath.Join(evDir, r.Prop+".json"), b, 0o644)
	// a copy per tier, so that the evidence of the last thorough run survives later quick runs
	os.WriteFile(filepath.Join(evDir, r.Prop+"."+r.Tier+".json"), b, 0o644)

	fmt.Printf("%s tier=%s seed=%d evaluations=%d distinct_nontrivial=%d violations=%d known=%d inconclusive=%d wall=%.1fs\n",
		r.Prop, r.Tier, r.Seed, r.Evaluations, len(r.shapes), newV, len(r.Violations)-newV, len(r.Inconclusive), time.Since(r.Start).Seconds())
	if os.Getenv("VERIF_VERBOSE") != "" {
		ks := make([]string, 0, len(byClause))
		for k := range byClause {
			ks = append(ks, k)
		}
		sort.Strings(ks)
		for _, k := range ks {
			fmt.Printf("  by-clause %-60s %d\n", k, byClause[k])
		}
	}
	if len(r.Errors) > 0 {
		for _, e := range r.Errors {
			fmt.Printf("ERROR %s\n", e)
		}
		return 2
	}
	if newV > 0 {
		for _, v := range firstNew {
			d := v.Detail
			if len(d) > 400 {
				d = d[:400] + "…"
			}
			fmt.Printf("VIOLATION property=%s replay=%s clause=%s shape=%s :: %s\n", r.Prop, v.Replay, v.Clause, v.Shape, strings.ReplaceAll(d, "\n", " | "))
		}
		if newV > len(firstNew) {
			fmt.Printf("… and %d more violations (see evidence)\n", newV-len(firstNew))
		}
		return 1
	}
	return 0
}

// ---------- building and running client children ----------

func GoEnv() []string {
	env := os.Environ()
	env = append(env, "GOFLAGS=-mod=mod", "GOPROXY=off", "GOSUMDB=off", "GOTOOLCHAIN=local", "CGO_ENABLED=1")
	return env
}

var buildMu sync.Mutex

// BuildClient compiles /verif/harness/client against /repo's working tree. Returns the binary path.
func BuildClient(root, prop string, race bool) (string, error) {
	buildMu.Lock()
	defer buildMu.Unlock()
	out := filepath.Join(root, ".build", prop, "client")
	if race {
		out += "-race"
	}
	os.MkdirAll(filepath.Dir(out), 0o755)
	args := []string{"build", "-tags", "verif", "-o", out}
	if race {
		args = append(args, "-race")
	}
	args = append(args, "./client")
	cmd := exec.Command("go", args...)
	cmd.Dir = filepath.Join(root, "harness")
	cmd.Env = GoEnv()
	b, err := cmd.CombinedOutput()
	if err != nil {
		return "", fmt.Errorf("build of client against /repo failed: %v\n%s", err, b)
	}
	return out, nil
}
