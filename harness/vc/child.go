package vc

import (
	"fmt"
	"io"
	"net"
	"os"
	"os/exec"
	"path/filepath"
	"strings"
	"sync"
	"syscall"
	"time"

	"verif/ctl"
)

// Child is one client process (real seata-go) attached to this vcheck by a control connection.
type Child struct {
	Name    string
	Cmd     *exec.Cmd
	Conn    *ctl.Conn
	LogPath string
	l       net.Listener
	done    chan struct{}
	exitErr error
	mu      sync.Mutex
	killed  bool
}

// StartChild launches bin with VERIF_CTL pointing at a fresh listener and waits for it to attach.
func StartChild(bin, runDir, name string, extraEnv []string, onMark func(ctl.Mark) int64) (*Child, error) {
	l, err := net.Listen("tcp", "127.0.0.1:0")
	if err != nil {
		return nil, err
	}
	logPath := filepath.Join(runDir, name+".log")
	lf, err := os.Create(logPath)
	if err != nil {
		return nil, err
	}
	cmd := exec.Command(bin)
	// VERIF_WRAP=<program and args> in extraEnv runs the child under a wrapper (e.g. strace as a delay injector)
	for _, e := range extraEnv {
		if strings.HasPrefix(e, "VERIF_WRAP=") {
			parts := strings.Fields(strings.TrimPrefix(e, "VERIF_WRAP="))
			cmd = exec.Command(parts[0], append(parts[1:], bin)...)
		}
	}
	cmd.Env = append(os.Environ(), "VERIF_CTL="+l.Addr().String(), "VERIF_NAME="+name)
	cmd.Env = append(cmd.Env, extraEnv...)
	cmd.Stdout = lf
	cmd.Stderr = lf
	cmd.Dir = runDir
	cmd.SysProcAttr = &syscall.SysProcAttr{Setpgid: true, Pdeathsig: syscall.SIGKILL}
	if err := cmd.Start(); err != nil {
		return nil, err
	}
	lf.Close()
	ch := &Child{Name: name, Cmd: cmd, LogPath: logPath, l: l, done: make(chan struct{})}
	go func() {
		ch.exitErr = cmd.Wait()
		close(ch.done)
	}()
	type acc struct {
		c   net.Conn
		err error
	}
	ac := make(chan acc, 1)
	go func() {
		c, err := l.Accept()
		ac <- acc{c, err}
	}()
	select {
	case a := <-ac:
		if a.err != nil {
			ch.Kill()
			return nil, a.err
		}
		ch.Conn = ctl.NewConn(a.c)
		go ch.Conn.ServeWorld(onMark)
	case <-ch.done:
		l.Close()
		return nil, fmt.Errorf("client child %s exited before attaching: %v\n%s", name, ch.exitErr, ch.LogTail(4000))
	case <-time.After(60 * time.Second):
		ch.Kill()
		return nil, fmt.Errorf("client child %s did not attach within 60s", name)
	}
	return ch, nil
}

func (c *Child) Call(op string, arg, res interface{}) error { return c.Conn.Call(op, arg, res) }

// Kill sends SIGKILL (crash point) and waits for the process to be gone.
func (c *Child) Kill() {
	c.mu.Lock()
	c.killed = true
	c.mu.Unlock()
	if c.Cmd.Process != nil {
		syscall.Kill(-c.Cmd.Process.Pid, syscall.SIGKILL)
		c.Cmd.Process.Kill()
	}
	<-c.done
	if c.Conn != nil {
		c.Conn.Close()
	}
	c.l.Close()
}

// Quit dumps goroutines (SIGQUIT) — used by watchdogs; the dump lands in the log file.
func (c *Child) Quit() {
	if c.Cmd.Process != nil {
		c.Cmd.Process.Signal(syscall.SIGQUIT)
	}
	select {
	case <-c.done:
	case <-time.After(10 * time.Second):
		c.Kill()
	}
}

func (c *Child) Done() <-chan struct{} { return c.done }
func (c *Child) Alive() bool {
	select {
	case <-c.done:
		return false
	default:
		return true
	}
}
func (c *Child) WasKilled() bool { c.mu.Lock(); defer c.mu.Unlock(); return c.killed }

func (c *Child) LogTail(n int) string {
	b, err := os.ReadFile(c.LogPath)
	if err != nil {
		return ""
	}
	if len(b) > n {
		b = b[len(b)-n:]
	}
	return string(b)
}

// LogSize / LogFrom: incremental access to the child's log file.
func (c *Child) LogSize() int64 {
	st, err := os.Stat(c.LogPath)
	if err != nil {
		return 0
	}
	return st.Size()
}

func (c *Child) LogFrom(off int64) string {
	f, err := os.Open(c.LogPath)
	if err != nil {
		return ""
	}
	defer f.Close()
	if _, err := f.Seek(off, 0); err != nil {
		return ""
	}
	b, _ := io.ReadAll(io.LimitReader(f, 4<<20))
	return string(b)
}

func (c *Child) Log() string {
	b, _ := os.ReadFile(c.LogPath)
	return string(b)
}

// PanicInfo extracts a Go panic/fatal error block from the child's log, if any, and tells whether the
// innermost non-runtime frame lies in seata-go.
func (c *Child) PanicInfo() (text string, inSeata bool, found bool) {
	log := c.Log()
	idx := strings.LastIndex(log, "\npanic: ")
	if idx < 0 {
		idx = strings.LastIndex(log, "\nfatal error: ")
	}
	if idx < 0 {
		if strings.HasPrefix(log, "panic: ") || strings.HasPrefix(log, "fatal error: ") {
			idx = 0
		} else {
			return "", false, false
		}
	}
	text = log[idx:]
	if len(text) > 6000 {
		text = text[:6000]
	}
	// first goroutine block: find first frame that is not runtime/ or panic machinery
	lines := strings.Split(text, "\n")
	for _, ln := range lines {
		ln = strings.TrimSpace(ln)
		if ln == "" || strings.HasPrefix(ln, "panic") || strings.HasPrefix(ln, "goroutine ") || strings.HasPrefix(ln, "[signal") || strings.HasPrefix(ln, "/") || strings.HasPrefix(ln, "fatal error") {
			continue
		}
		if strings.HasPrefix(ln, "runtime.") || strings.HasPrefix(ln, "runtime/") || strings.HasPrefix(ln, "sync.") || strings.HasPrefix(ln, "created by") {
			continue
		}
		return text, strings.HasPrefix(ln, "seata.apache.org/seata-go/"), true
	}
	return text, false, true
}
