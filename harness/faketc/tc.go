// Package faketc is a scriptable fake Seata transaction coordinator speaking the v1 protocol through the
// independent codec of package wire (no seata-go code). It records every frame with a logical sequence number.
package faketc

import (
	"fmt"
	"io"
	"net"
	"sort"
	"strings"
	"sync"
	"time"

	"verif/clock"
	"verif/wire"
)

// Event is one frame seen or sent by the TC.
type Event struct {
	Seq    int64     `json:"seq"`
	Sess   int       `json:"sess"`
	Dir    string    `json:"dir"` // in | out | open | close
	ID     uint32    `json:"id"`
	FType  byte      `json:"ftype"`
	Msg    *wire.Msg `json:"-"`
	Type   string    `json:"type,omitempty"`
	Text   string    `json:"text,omitempty"`
	TxName string    `json:"tx,omitempty"`
	Xid    string    `json:"xid,omitempty"`
	Note   string    `json:"note,omitempty"`
	Raw    []byte    `json:"-"`
}

type Session struct {
	ID        int
	c         net.Conn
	wmu       sync.Mutex
	tc        *TC
	TM        bool
	AppID     string
	Resources map[string]bool
	closed    bool
	OpenSeq   int64
}

type Branch struct {
	ID       int64
	Xid      string
	Type     int64
	Resource string
	LockKey  string
	AppData  string
	Reports  []int64 // statuses reported via BranchReport
	Sess     int     // session that registered it
}

type Global struct {
	Xid      string
	Name     string
	Timeout  int64
	Status   string // begun | committed | rollbacked
	Branches []*Branch
	BeginSeq int64
	Sess     int
}

// Req is an incoming request handed to rules.
type Req struct {
	TC        *TC
	S         *Session
	Frame     *wire.Frame
	Msg       *wire.Msg
	TxName    string // transaction name the request belongs to ("" when unknown)
	Xid       string
	Seq       int64
	NthOfKind int // 1-based count of requests of this type for this TxName
}

// Rule intercepts requests. Do returns true when it fully handled the request (no default reply).
type Rule struct {
	Name  string
	Match func(*Req) bool
	Do    func(*Req) bool
}

type TC struct {
	Clock *clock.Clock
	l     net.Listener
	Addr  string
	Host  string
	Port  int

	mu        sync.Mutex
	cond      *sync.Cond
	sessions  map[int]*Session
	nextSess  int
	events    []*Event
	globals   map[string]*Global
	byName    map[string][]*Global
	nextXid   int64
	nextBr    int64
	nextReqID uint32
	locks     map[string]string // resource|table:pk -> xid
	rules     []*Rule
	pending   map[uint32]chan *wire.Msg
	kindCount map[string]int
	// SyncRollback: on GlobalRollback drive BranchRollback for all branches (reverse order) before replying.
	SyncRollback bool
	closed       bool
}

func New(c *clock.Clock) (*TC, error) {
	l, err := net.Listen("tcp", "127.0.0.1:0")
	if err != nil {
		return nil, err
	}
	t := &TC{Clock: c, l: l, Addr: l.Addr().String(), sessions: map[int]*Session{}, globals: map[string]*Global{}, byName: map[string][]*Global{},
		locks: map[string]string{}, pending: map[uint32]chan *wire.Msg{}, kindCount: map[string]int{}, nextReqID: 1 << 24, nextBr: 1000}
	t.cond = sync.NewCond(&t.mu)
	ta := l.Addr().(*net.TCPAddr)
	t.Host, t.Port = "127.0.0.1", ta.Port
	go t.accept()
	return t, nil
}

func (t *TC) Close() {
	t.mu.Lock()
	t.closed = true
	ss := make([]*Session, 0, len(t.sessions))
	for _, s := range t.sessions {
		ss = append(ss, s)
	}
	t.mu.Unlock()
	t.l.Close()
	for _, s := range ss {
		s.c.Close()
	}
}

func (t *TC) accept() {
	for {
		c, err := t.l.Accept()
		if err != nil {
			return
		}
		if tcp, ok := c.(*net.TCPConn); ok {
			tcp.SetNoDelay(true)
		}
		t.mu.Lock()
		t.nextSess++
		s := &Session{ID: t.nextSess, c: c, tc: t, Resources: map[string]bool{}}
		s.OpenSeq = t.Clock.Next()
		t.sessions[s.ID] = s
		t.events = append(t.events, &Event{Seq: s.OpenSeq, Sess: s.ID, Dir: "open", Note: c.RemoteAddr().String()})
		t.cond.Broadcast()
		t.mu.Unlock()
		go t.serve(s)
	}
}

func (t *TC) AddRule(r *Rule) {
	t.mu.Lock()
	t.rules = append(t.rules, r)
	t.mu.Unlock()
}

func (t *TC) ClearRules() {
	t.mu.Lock()
	t.rules = nil
	t.mu.Unlock()
}

func (t *TC) logEvent(e *Event) {
	if e.Msg != nil {
		e.Type = e.Msg.Name()
		e.Text = RenderMsg(e.Msg)
		if x := e.Msg.S("xid"); x != "" && e.Xid == "" {
			e.Xid = x
		}
	}
	t.events = append(t.events, e)
	t.cond.Broadcast()
}

// RenderMsg renders a message compactly for histories.
func RenderMsg(m *wire.Msg) string {
	var ks []string
	for k := range m.F {
		ks = append(ks, k)
	}
	sort.Strings(ks)
	var sb strings.Builder
	for _, k := range ks {
		v := m.F[k]
		if s, ok := v.(string); ok {
			if s == "" {
				continue
			}
			if len(s) > 160 {
				s = s[:160] + "…"
			}
			fmt.Fprintf(&sb, "%s=%q ", k, s)
		} else {
			fmt.Fprintf(&sb, "%s=%v ", k, v)
		}
	}
	return strings.TrimSpace(sb.String())
}

func (t *TC) serve(s *Session) {
	defer func() {
		s.c.Close()
		t.mu.Lock()
		s.closed = true
		t.logEvent(&Event{Seq: t.Clock.Next(), Sess: s.ID, Dir: "close"})
		t.mu.Unlock()
	}()
	var buf []byte
	tmp := make([]byte, 65536)
	for {
		n, err := s.c.Read(tmp)
		if n > 0 {
			buf = append(buf, tmp[:n]...)
			for {
				f, k, derr := wire.DecodeFrame(buf)
				if derr != nil {
					t.mu.Lock()
					t.logEvent(&Event{Seq: t.Clock.Next(), Sess: s.ID, Dir: "in", Note: "UNDECODABLE FRAME: " + derr.Error(), Raw: append([]byte{}, buf...)})
					t.mu.Unlock()
					return
				}
				if f == nil {
					break
				}
				raw := append([]byte{}, buf[:k]...)
				buf = buf[k:]
				t.handle(s, f, raw)
			}
		}
		if err != nil {
			if err != io.EOF {
				_ = err
			}
			return
		}
	}
}

func (s *Session) writeFrame(f *wire.Frame, m *wire.Msg, note string) error {
	t := s.tc
	raw := wire.EncodeFrame(f)
	s.wmu.Lock()
	defer s.wmu.Unlock()
	t.mu.Lock()
	t.logEvent(&Event{Seq: t.Clock.Next(), Sess: s.ID, Dir: "out", ID: f.ID, FType: f.Type, Msg: m, Raw: raw, Note: note})
	t.mu.Unlock()
	_, err := s.c.Write(raw)
	return err
}

// WriteRaw writes arbitrary bytes on the session (used by C13's live cross-check and hostile scripts).
func (s *Session) WriteRaw(b []byte) error {
	s.wmu.Lock()
	defer s.wmu.Unlock()
	_, err := s.c.Write(b)
	return err
}

func (s *Session) Reply(id uint32, m *wire.Msg) error {
	body, err := wire.Encode(m)
	if err != nil {
		return err
	}
	return s.writeFrame(&wire.Frame{Version: 1, Type: wire.FrameResponse, Codec: 1, ID: id, Body: body}, m, "")
}

// Kill closes the TCP connection; rst=true sets SO_LINGER 0 so the peer sees a reset (read error).
func (s *Session) Kill(rst bool) {
	if tcp, ok := s.c.(*net.TCPConn); ok && rst {
		tcp.SetLinger(0)
	}
	s.c.Close()
}

func (s *Session) Closed() bool {
	s.tc.mu.Lock()
	defer s.tc.mu.Unlock()
	return s.closed
}

func okResult(m *wire.Msg) *wire.Msg {
	m.F["resultCode"] = int64(wire.ResultSuccess)
	m.F["msg"] = ""
	m.F["excCode"] = int64(0)
	return m
}

func FailResult(t int16, msg string, exc int64, kv ...interface{}) *wire.Msg {
	m := wire.New(t, kv...)
	m.F["resultCode"] = int64(wire.ResultFailed)
	m.F["msg"] = msg
	m.F["excCode"] = exc
	return m
}

// ResponseType maps a request type code to its result type code.
func ResponseType(t int16) int16 {
	switch t {
	case wire.TRegTM:
		return wire.TRegTMResult
	case wire.TRegRM:
		return wire.TRegRMResult
	case wire.TGlobalLockQuery:
		return wire.TGlobalLockQueryResult
	}
	return t + 1
}

func (t *TC) handle(s *Session, f *wire.Frame, raw []byte) {
	seq := t.Clock.Next()
	switch f.Type {
	case wire.FrameHeartbeatReq:
		t.mu.Lock()
		t.logEvent(&Event{Seq: seq, Sess: s.ID, Dir: "in", ID: f.ID, FType: f.Type, Type: "ping", Raw: raw})
		t.mu.Unlock()
		s.writeFrame(&wire.Frame{Version: 1, Type: wire.FrameHeartbeatResp, Codec: 1, ID: f.ID}, nil, "pong")
		return
	case wire.FrameHeartbeatResp:
		t.mu.Lock()
		t.logEvent(&Event{Seq: seq, Sess: s.ID, Dir: "in", ID: f.ID, FType: f.Type, Type: "pong", Raw: raw})
		t.mu.Unlock()
		return
	}
	m, n, err := wire.Decode(f.Body)
	if err != nil || n != len(f.Body) {
		note := fmt.Sprintf("UNDECODABLE BODY: %v (consumed %d of %d)", err, n, len(f.Body))
		t.mu.Lock()
		t.logEvent(&Event{Seq: seq, Sess: s.ID, Dir: "in", ID: f.ID, FType: f.Type, Msg: m, Raw: raw, Note: note})
		t.mu.Unlock()
		if f.Type == wire.FrameResponse {
			t.mu.Lock()
			ch := t.pending[f.ID]
			delete(t.pending, f.ID)
			t.mu.Unlock()
			if ch != nil {
				ch <- nil
			}
		}
		return
	}
	if f.Type == wire.FrameResponse {
		t.mu.Lock()
		t.logEvent(&Event{Seq: seq, Sess: s.ID, Dir: "in", ID: f.ID, FType: f.Type, Msg: m, Raw: raw})
		ch := t.pending[f.ID]
		delete(t.pending, f.ID)
		t.mu.Unlock()
		if ch != nil {
			ch <- m
		}
		return
	}
	// request (sync or one-way)
	req := &Req{TC: t, S: s, Frame: f, Msg: m, Seq: seq}
	t.mu.Lock()
	switch m.Type {
	case wire.TGlobalBegin:
		req.TxName = m.S("transactionName")
	default:
		if x := m.S("xid"); x != "" {
			req.Xid = x
			if g := t.globals[x]; g != nil {
				req.TxName = g.Name
			}
		}
	}
	kc := fmt.Sprintf("%s|%s|%d", req.TxName, req.Xid, m.Type)
	t.kindCount[kc]++
	req.NthOfKind = t.kindCount[kc]
	t.logEvent(&Event{Seq: seq, Sess: s.ID, Dir: "in", ID: f.ID, FType: f.Type, Msg: m, Raw: raw, TxName: req.TxName, Xid: req.Xid})
	rules := append([]*Rule{}, t.rules...)
	t.mu.Unlock()
	for _, r := range rules {
		if r.Match == nil || r.Match(req) {
			if r.Do(req) {
				return
			}
		}
	}
	req.ReplyDefault()
}

// Default computes and sends the normal TC behaviour for the request.
func (r *Req) ReplyDefault() {
	resp := r.TC.Apply(r)
	if resp != nil && r.Frame.Type == wire.FrameRequestSync {
		r.S.Reply(r.Frame.ID, resp)
	}
}

// ReplyFail answers with a failed result (no state change).
func (r *Req) ReplyFail(msg string, exc int64) {
	r.S.Reply(r.Frame.ID, FailResult(ResponseType(r.Msg.Type), msg, exc))
}

// Apply performs the state change of a request and returns the default response (nil for one-way messages).
func (t *TC) Apply(r *Req) *wire.Msg {
	m, s := r.Msg, r.S
	t.mu.Lock()
	defer t.mu.Unlock()
	switch m.Type {
	case wire.TRegTM:
		s.TM = true
		s.AppID = m.S("applicationId")
		return wire.New(wire.TRegTMResult, "identified", true, "version", "1.5.2")
	case wire.TRegRM:
		s.AppID = m.S("applicationId")
		for _, rid := range strings.Split(m.S("resourceIds"), ",") {
			if rid != "" {
				s.Resources[rid] = true
			}
		}
		return wire.New(wire.TRegRMResult, "identified", true, "version", "1.5.2")
	case wire.TGlobalBegin:
		t.nextXid++
		xid := fmt.Sprintf("%s:%d:%d", t.Host, t.Port, 7000000+t.nextXid)
		g := &Global{Xid: xid, Name: m.S("transactionName"), Timeout: m.I("timeout"), Status: "begun", BeginSeq: r.Seq, Sess: s.ID}
		t.globals[xid] = g
		t.byName[g.Name] = append(t.byName[g.Name], g)
		return okResult(wire.New(wire.TGlobalBeginResult, "xid", xid))
	case wire.TGlobalCommit:
		g := t.globals[m.S("xid")]
		if g == nil {
			return FailResult(wire.TGlobalCommitResult, "global transaction does not exist", 10)
		}
		g.Status = "committed"
		t.releaseLocks(g.Xid)
		return okResult(wire.New(wire.TGlobalCommitResult, "globalStatus", 9))
	case wire.TGlobalRollback:
		g := t.globals[m.S("xid")]
		if g == nil {
			return FailResult(wire.TGlobalRollbackResult, "global transaction does not exist", 10)
		}
		if t.SyncRollback {
			t.mu.Unlock()
			t.DrivePhaseTwo(g.Xid, false, 1, 5*time.Second)
			t.mu.Lock()
		}
		g.Status = "rollbacked"
		return okResult(wire.New(wire.TGlobalRollbackResult, "globalStatus", 11))
	case wire.TGlobalStatus:
		g := t.globals[m.S("xid")]
		st := int64(0)
		if g != nil {
			switch g.Status {
			case "begun":
				st = 1
			case "committed":
				st = 9
			case "rollbacked":
				st = 11
			}
		}
		return okResult(wire.New(wire.TGlobalStatusResult, "globalStatus", st))
	case wire.TGlobalReport:
		return okResult(wire.New(wire.TGlobalReportResult, "globalStatus", m.I("globalStatus")))
	case wire.TBranchRegister:
		g := t.globals[m.S("xid")]
		if g == nil {
			return FailResult(wire.TBranchRegisterResult, "global transaction does not exist", 10)
		}
		if g.Status != "begun" {
			return FailResult(wire.TBranchRegisterResult, "global transaction is not active", 11)
		}
		if m.I("branchType") == 0 && m.S("lockKey") != "" {
			keys := LockKeys(m.S("resourceId"), m.S("lockKey"))
			for _, k := range keys {
				if owner, held := t.locks[k]; held && owner != g.Xid {
					return FailResult(wire.TBranchRegisterResult, "Global lock acquire failed xid "+g.Xid+" key "+k+" held by "+owner, 2)
				}
			}
			for _, k := range keys {
				t.locks[k] = g.Xid
			}
		}
		t.nextBr++
		b := &Branch{ID: t.nextBr, Xid: g.Xid, Type: m.I("branchType"), Resource: m.S("resourceId"), LockKey: m.S("lockKey"), AppData: m.S("applicationData"), Sess: s.ID}
		g.Branches = append(g.Branches, b)
		return okResult(wire.New(wire.TBranchRegisterResult, "branchId", b.ID))
	case wire.TBranchReport:
		g := t.globals[m.S("xid")]
		if g != nil {
			for _, b := range g.Branches {
				if b.ID == m.I("branchId") {
					b.Reports = append(b.Reports, m.I("status"))
				}
			}
		}
		return okResult(wire.New(wire.TBranchReportResult))
	case wire.TGlobalLockQuery:
		lockable := true
		for _, k := range LockKeys(m.S("resourceId"), m.S("lockKey")) {
			if owner, held := t.locks[k]; held && owner != m.S("xid") {
				lockable = false
			}
		}
		return okResult(wire.New(wire.TGlobalLockQueryResult, "lockable", lockable))
	}
	return nil
}

// LockKeys splits a Seata lock-key string "table:pk1,pk2;table2:pk" into per-row keys (resource|TABLE:pk).
func LockKeys(resource, lockKey string) []string {
	var out []string
	for _, part := range strings.Split(lockKey, ";") {
		part = strings.TrimSpace(part)
		if part == "" {
			continue
		}
		i := strings.Index(part, ":")
		if i < 0 {
			out = append(out, resource+"|"+strings.ToUpper(part))
			continue
		}
		tbl := strings.ToUpper(strings.Trim(part[:i], "` "))
		for _, pk := range strings.Split(part[i+1:], ",") {
			out = append(out, resource+"|"+tbl+":"+pk)
		}
	}
	return out
}

func (t *TC) releaseLocks(xid string) {
	for k, v := range t.locks {
		if v == xid {
			delete(t.locks, k)
		}
	}
}

// ReleaseLocks frees the global locks of xid (end of the global transaction).
func (t *TC) ReleaseLocks(xid string) {
	t.mu.Lock()
	t.releaseLocks(xid)
	t.mu.Unlock()
}

// HoldLock makes xid (any string) the owner of a row key: used to script lock conflicts.
func (t *TC) HoldLock(resource, table, pk, xid string) {
	t.mu.Lock()
	t.locks[resource+"|"+strings.ToUpper(table)+":"+pk] = xid
	t.mu.Unlock()
}

func (t *TC) LockOwner(key string) string {
	t.mu.Lock()
	defer t.mu.Unlock()
	return t.locks[key]
}

func (t *TC) Locks() map[string]string {
	t.mu.Lock()
	defer t.mu.Unlock()
	out := map[string]string{}
	for k, v := range t.locks {
		out[k] = v
	}
	return out
}

// ---- queries over the log / tables ----

func (t *TC) Events() []*Event {
	t.mu.Lock()
	defer t.mu.Unlock()
	return append([]*Event{}, t.events...)
}

// EventsSince returns events with Seq > seq.
func (t *TC) EventsSince(seq int64) []*Event {
	t.mu.Lock()
	defer t.mu.Unlock()
	i := sort.Search(len(t.events), func(i int) bool { return t.events[i].Seq > seq })
	return append([]*Event{}, t.events[i:]...)
}

func (t *TC) GlobalsByName(name string) []*Global {
	t.mu.Lock()
	defer t.mu.Unlock()
	return append([]*Global{}, t.byName[name]...)
}

func (t *TC) Global(xid string) *Global {
	t.mu.Lock()
	defer t.mu.Unlock()
	return t.globals[xid]
}

func (t *TC) BranchesOf(xid string) []*Branch {
	t.mu.Lock()
	defer t.mu.Unlock()
	g := t.globals[xid]
	if g == nil {
		return nil
	}
	return append([]*Branch{}, g.Branches...)
}

func (t *TC) Sessions() []*Session {
	t.mu.Lock()
	defer t.mu.Unlock()
	var out []*Session
	for _, s := range t.sessions {
		if !s.closed {
			out = append(out, s)
		}
	}
	sort.Slice(out, func(i, j int) bool { return out[i].ID < out[j].ID })
	return out
}

func (t *TC) Session(id int) *Session {
	t.mu.Lock()
	defer t.mu.Unlock()
	return t.sessions[id]
}

// SessionInfo returns a copy of the identity a session announced.
func (t *TC) SessionInfo(id int) (tm bool, resources []string, closed bool) {
	t.mu.Lock()
	defer t.mu.Unlock()
	s := t.sessions[id]
	if s == nil {
		return false, nil, true
	}
	for r := range s.Resources {
		resources = append(resources, r)
	}
	sort.Strings(resources)
	return s.TM, resources, s.closed
}

// WaitSession waits until an open session that announced resource (or any when resource=="") exists.
func (t *TC) WaitSession(resource string, d time.Duration) *Session {
	deadline := time.Now().Add(d)
	for {
		t.mu.Lock()
		var best *Session
		for _, s := range t.sessions {
			if s.closed {
				continue
			}
			if resource == "" || s.Resources[resource] {
				if best == nil || s.ID > best.ID {
					best = s
				}
			}
		}
		t.mu.Unlock()
		if best != nil {
			return best
		}
		if time.Now().After(deadline) {
			return nil
		}
		time.Sleep(5 * time.Millisecond)
	}
}

// ---- TC-initiated requests (phase two) ----

// Request sends m as a sync request on s with a TC-chosen (or forced) id and returns the channel of the response
// (nil message = undecodable response).
func (t *TC) Request(s *Session, m *wire.Msg, forceID uint32) (uint32, chan *wire.Msg, error) {
	return t.request(s, m, forceID, forceID != 0)
}

// RequestExact is Request with exactly this message id, 0 included.
func (t *TC) RequestExact(s *Session, m *wire.Msg, id uint32) (uint32, chan *wire.Msg, error) {
	return t.request(s, m, id, true)
}

func (t *TC) request(s *Session, m *wire.Msg, forceID uint32, forced bool) (uint32, chan *wire.Msg, error) {
	body, err := wire.Encode(m)
	if err != nil {
		return 0, nil, err
	}
	t.mu.Lock()
	id := forceID
	if !forced {
		t.nextReqID++
		id = t.nextReqID
	}
	ch := make(chan *wire.Msg, 4)
	t.pending[id] = ch
	t.mu.Unlock()
	err = s.writeFrame(&wire.Frame{Version: 1, Type: wire.FrameRequestSync, Codec: 1, ID: id, Body: body}, m, "")
	return id, ch, err
}

type PhaseTwoResult struct {
	Branch   *Branch
	Attempts int
	Resp     *wire.Msg // last response (nil = none within the wait)
	ReqSeq   int64
	NoSess   bool
}

func BranchEndReq(commit bool, b *Branch) *wire.Msg {
	t := int16(wire.TBranchRollback)
	if commit {
		t = wire.TBranchCommit
	}
	return wire.New(t, "xid", b.Xid, "branchId", b.ID, "branchType", b.Type, "resourceId", b.Resource, "applicationData", b.AppData)
}

// DrivePhaseTwo sends BranchCommit (registration order) or BranchRollback (reverse order) for every branch of xid,
// one after the other like the real TC, each repeated up to `deliveries` times regardless of the answer when
// deliveries > 1 (duplicate delivery), waiting `wait` for each response.
func (t *TC) DrivePhaseTwo(xid string, commit bool, deliveries int, wait time.Duration) []*PhaseTwoResult {
	return t.drivePhaseTwo(t.BranchesOf(xid), xid, commit, deliveries, wait)
}

// DrivePhaseTwoReported is DrivePhaseTwo without the branches whose last report is PhaseOne_Failed (4): the real
// coordinator removes such a branch instead of sending it a phase-two request.
func (t *TC) DrivePhaseTwoReported(xid string, commit bool, wait time.Duration) []*PhaseTwoResult {
	var bs []*Branch
	t.mu.Lock()
	if g := t.globals[xid]; g != nil {
		for _, b := range g.Branches {
			if n := len(b.Reports); n > 0 && b.Reports[n-1] == 4 {
				continue
			}
			bs = append(bs, b)
		}
	}
	t.mu.Unlock()
	return t.drivePhaseTwo(bs, xid, commit, 1, wait)
}

func (t *TC) drivePhaseTwo(bs []*Branch, xid string, commit bool, deliveries int, wait time.Duration) []*PhaseTwoResult {
	if !commit {
		for i, j := 0, len(bs)-1; i < j; i, j = i+1, j-1 {
			bs[i], bs[j] = bs[j], bs[i]
		}
	}
	var out []*PhaseTwoResult
	for _, b := range bs {
		res := &PhaseTwoResult{Branch: b}
		for d := 0; d < deliveries; d++ {
			s := t.WaitSession(b.Resource, 2*time.Second)
			if s == nil {
				res.NoSess = true
				break
			}
			res.Attempts++
			res.ReqSeq = t.Clock.Now()
			_, ch, err := t.Request(s, BranchEndReq(commit, b), 0)
			if err != nil {
				continue
			}
			select {
			case m := <-ch:
				res.Resp = m
			case <-time.After(wait):
				res.Resp = nil
			}
		}
		out = append(out, res)
	}
	if !commit {
		allOK := true
		for _, r := range out {
			if r.Resp == nil || r.Resp.I("branchStatus") != 8 {
				allOK = false
			}
		}
		if allOK {
			t.ReleaseLocks(xid)
		}
	}
	return out
}
