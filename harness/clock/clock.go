// Package clock is the world's single logical clock: every SQL command, TC frame and control mark gets a
// sequence number from it at arrival and at reply, so "A before B" is a comparison of two integers.
package clock

import (
	"sync"
	"sync/atomic"
)

type Clock struct{ n atomic.Int64 }

func (c *Clock) Next() int64 { return c.n.Add(1) }
func (c *Clock) Now() int64  { return c.n.Load() }

// Mark is a client-reported instant (synchronous control mark).
type Mark struct {
	Seq  int64                  `json:"seq"`
	Case string                 `json:"case,omitempty"`
	What string                 `json:"what"`
	Data map[string]interface{} `json:"data,omitempty"`
}

type Marks struct {
	mu sync.Mutex
	L  []Mark
}

func (m *Marks) Add(x Mark) {
	m.mu.Lock()
	m.L = append(m.L, x)
	m.mu.Unlock()
}

func (m *Marks) All() []Mark {
	m.mu.Lock()
	defer m.mu.Unlock()
	return append([]Mark{}, m.L...)
}

func (m *Marks) Of(cs string) []Mark {
	m.mu.Lock()
	defer m.mu.Unlock()
	var out []Mark
	for _, x := range m.L {
		if x.Case == cs {
			out = append(out, x)
		}
	}
	return out
}
