package checks

import (
	"encoding/hex"
	"encoding/json"
	"fmt"
	"sort"
	"strings"

	"verif/vc"
	"verif/wire"
)

// C13 — frame reader survives any fragmentation of the byte stream.
//
// The real RpcPackageHandler.Read is driven in a client child by a replica of getty's handleTCPPackage loop
// (iteration counted, so "spin" is a logical verdict). Ground truth for frame boundaries and contents is the
// independent framer of package wire.

func init() {
	Registry["C13"] = Check{Level: "exploration", Fn: runC13}
}

type c13Frame struct {
	f    *wire.Frame
	body *wire.Msg
	head map[string]string
	raw  []byte
}

type c13Stream struct {
	frames  []c13Frame
	bytes   []byte
	garbage string // "", "prefix", "suffix", "only"
	gpos    int    // where garbage starts (suffix) / ends (prefix)
	shape   string
}

type c13Pkg struct {
	Type       int               `json:"type"`
	ID         int32             `json:"id"`
	Codec      int               `json:"codec"`
	Compressor int               `json:"compressor"`
	Head       map[string]string `json:"head"`
	Body       *wire.TextMsg     `json:"body,omitempty"`
	BodyKind   string            `json:"body_kind"`
}

type c13Out struct {
	Deliveries [][2]int `json:"d"`
	Err        string   `json:"err,omitempty"`
	Panic      string   `json:"panic,omitempty"`
	Spin       bool     `json:"spin,omitempty"`
	Over       bool     `json:"over,omitempty"`
	Leftover   int      `json:"left"`
	Reads      int      `json:"reads"`
	NeedMore   int      `json:"need_more"`
	AtChunk    int      `json:"at_chunk"`
}

func c13GenFrame(r *vc.Rand, big bool) c13Frame {
	kinds := []byte{wire.FrameRequestSync, wire.FrameResponse, wire.FrameRequestOneway, wire.FrameHeartbeatReq, wire.FrameHeartbeatResp}
	k := kinds[r.Intn(len(kinds))]
	if r.Intn(3) == 0 {
		k = wire.FrameRequestSync
	}
	f := &wire.Frame{Version: 1, Type: k, Codec: 1, Compressor: 0, ID: uint32(r.Intn(1 << 20))}
	if r.Intn(6) == 0 {
		f.ID = []uint32{0, 1, 0x7fffffff, 0x80000000, 0xffffffff}[r.Intn(5)]
	}
	fr := c13Frame{f: f, head: map[string]string{}}
	nh := 0
	if r.Intn(3) != 0 {
		nh = r.Intn(6)
	}
	pool := []string{"", "k", "key", "v", "名前", "a b", strings.Repeat("x", 40), "0"}
	for i := 0; i < nh; i++ {
		key := pool[r.Intn(len(pool))]
		if i > 0 && key == "" && r.Bool() {
			key = fmt.Sprintf("k%d", i)
		}
		if _, dup := fr.head[key]; dup {
			key = fmt.Sprintf("%s#%d", key, i)
		}
		val := pool[r.Intn(len(pool))]
		fr.head[key] = val
		f.Head = append(f.Head, wire.HeadKV{K: key, V: val})
	}
	if k != wire.FrameHeartbeatReq && k != wire.FrameHeartbeatResp {
		tcs := wire.TypeCodes()
		t := tcs[r.Intn(len(tcs))]
		m := &wire.Msg{Type: t, F: map[string]interface{}{}}
		for _, fd := range wire.Layout[t] {
			switch fd.Kind {
			case wire.U8:
				m.F[fd.Name] = int64(r.Intn(128))
			case wire.I32:
				m.F[fd.Name] = int64(r.Intn(1 << 30))
			case wire.I64:
				m.F[fd.Name] = int64(r.U64())
			case wire.Bool8, wire.Lock16:
				m.F[fd.Name] = r.Bool()
			case wire.Str16, wire.Str32:
				n := r.Intn(24)
				if big && r.Intn(3) == 0 {
					n = 200 + r.Intn(3000)
				}
				m.F[fd.Name] = mkString(r, n, r.Bool())
			case wire.Result:
				if r.Bool() {
					m.F["resultCode"] = int64(1)
					m.F["msg"] = ""
				} else {
					m.F["resultCode"] = int64(0)
					m.F["msg"] = mkString(r, r.Intn(40), false)
				}
			}
		}
		fr.body = m
		b, err := wire.Encode(m)
		if err != nil {
			panic(err)
		}
		f.Body = b
	}
	fr.raw = wire.EncodeFrame(f)
	return fr
}

func c13StreamShape(s *c13Stream) string {
	var parts []string
	for _, fr := range s.frames {
		k := []string{"req", "resp", "oneway", "ping", "pong"}[fr.f.Type]
		h := fmt.Sprintf("h%d", len(fr.head))
		for kk, v := range fr.head {
			if kk == "" {
				h += "+ek"
			}
			if v == "" {
				h += "+ev"
			}
		}
		// dedupe flags
		h = strings.Join(uniq(strings.Split(h, "+")), "+")
		parts = append(parts, k+":"+h+":"+lenClass(len(fr.raw)))
	}
	g := ""
	if s.garbage != "" {
		g = "|garbage=" + s.garbage
	}
	return strings.Join(parts, ",") + g
}

func uniq(xs []string) []string {
	seen := map[string]bool{}
	var out []string
	for _, x := range xs {
		if !seen[x] {
			seen[x] = true
			out = append(out, x)
		}
	}
	sort.Strings(out[1:])
	return out
}

type c13Part struct {
	kind   string
	chunks []int
}

func c13Partitions(r *vc.Rand, s *c13Stream, tier string) []c13Part {
	L := len(s.bytes)
	var ps []c13Part
	ps = append(ps, c13Part{"whole", []int{L}})
	limit := 400
	if L <= limit {
		for k := 1; k < L; k++ {
			ps = append(ps, c13Part{"2cut", []int{k, L - k}})
		}
		one := make([]int, L)
		for i := range one {
			one[i] = 1
		}
		ps = append(ps, c13Part{"bytewise", one})
		// truncated prefixes: the tail never arrives
		for k := 1; k < L; k += 1 + L/60 {
			ps = append(ps, c13Part{"truncated", []int{k}})
		}
	}
	if L <= 70 && s.garbage == "" {
		for i := 1; i < L; i++ {
			for j := i + 1; j < L; j++ {
				ps = append(ps, c13Part{"3cut", []int{i, j - i, L - j}})
			}
		}
	}
	nrand := 12
	if tier == "thorough" {
		nrand = 60
	}
	for i := 0; i < nrand; i++ {
		var ch []int
		rem := L
		maxc := []int{3, 17, 64, 1000}[r.Intn(4)]
		for rem > 0 {
			c := 1 + r.Intn(maxc)
			if c > rem {
				c = rem
			}
			ch = append(ch, c)
			rem -= c
		}
		ps = append(ps, c13Part{"random", ch})
	}
	// cuts around frame boundaries and inside headers
	off := 0
	for _, fr := range s.frames {
		for _, d := range []int{-1, 1, 2, 3, 6, 7, 8, 9, 15, 16, 17} {
			k := off + d
			if k > 0 && k < L {
				ps = append(ps, c13Part{"boundary", []int{k, L - k}})
			}
		}
		off += len(fr.raw)
	}
	return ps
}

func runC13(r *vc.Run, replay string) {
	r.Rule = "cases = (stream, partition) pairs: streams of 1-6 generated frames (all five frame kinds, head maps with 0-5 entries incl. empty keys/values and multi-byte text, bodies of all 24 message types) and garbage variants; partitions = whole, EVERY 2-cut and byte-wise feed and truncated prefixes for streams <= 400 bytes, every 3-cut for streams <= 70 bytes, cuts around every frame boundary/header offset, seeded random k-partitions; the real Read is driven by a replica of getty's receive loop; distinct_nontrivial = distinct (stream shape, partition kind, smallest-chunk class) signatures among cases in which Read was called"
	r.Assumptions = []string{"ground truth for frame boundaries/contents: harness/wire framer (independent of seata-go)",
		"receive loop replica follows dubbo-getty v1.5.0 session.handleTCPPackage: err => session dies, pkg==nil => wait, else deliver and drop n bytes"}
	bin, err := vc.BuildClient(r.Root, r.Prop, false)
	if err != nil {
		r.Errorf("%v", err)
		return
	}
	ch, err := vc.StartChild(bin, r.RunDir, "c13", nil, nil)
	if err != nil {
		r.Errorf("%v", err)
		return
	}
	defer ch.Kill()
	rnd := vc.NewRand(r.Seed, "c13")

	nstreams := 60
	if r.Tier == "thorough" {
		nstreams = 600
	}
	var streams []*c13Stream
	for i := 0; i < nstreams; i++ {
		s := &c13Stream{}
		nf := 1 + r13n(rnd, i)
		big := i%7 == 6
		for j := 0; j < nf; j++ {
			fr := c13GenFrame(rnd, big)
			s.frames = append(s.frames, fr)
			s.bytes = append(s.bytes, fr.raw...)
		}
		switch {
		case i%10 == 8:
			s.garbage = "suffix"
			s.gpos = len(s.bytes)
			s.bytes = append(s.bytes, c13Garbage(rnd)...)
		case i%10 == 9:
			s.garbage = "prefix"
			g := c13Garbage(rnd)
			s.gpos = len(g)
			s.bytes = append(g, s.bytes...)
		case i%20 == 7:
			s.garbage = "only"
			s.frames = nil
			s.bytes = c13Garbage(rnd)
		}
		s.shape = c13StreamShape(s)
		streams = append(streams, s)
	}
	// fixed small streams (always present): a lone heart-beat, a lone request with empty-value head entry
	streams = append(streams, c13Fixed()...)

	var needMoreTotal, readsTotal int64
	for si, s := range streams {
		parts := c13Partitions(rnd, s, r.Tier)
		var pl [][]int
		for _, p := range parts {
			pl = append(pl, p.chunks)
		}
		var res struct {
			Pkgs []c13Pkg `json:"pkgs"`
			Outs []c13Out `json:"outs"`
		}
		if err := ch.Call("frame_drive", map[string]interface{}{"stream": hex.EncodeToString(s.bytes), "partitions": pl}, &res); err != nil {
			r.Errorf("frame_drive: %v (child log tail: %s)", err, ch.LogTail(2000))
			return
		}
		for pi, p := range parts {
			o := res.Outs[pi]
			needMoreTotal += int64(o.NeedMore)
			readsTotal += int64(o.Reads)
			c13Judge(r, si, s, p, o, res.Pkgs)
		}
	}
	r.Count("read_calls", readsTotal)
	r.Count("need_more_answers", needMoreTotal)
	if needMoreTotal == 0 {
		r.Errorf("vacuous run: Read never answered 'need more data'")
	}
	c13HeadRoundTrip(r, ch, rnd)
	r.Exhaustive = append(r.Exhaustive, "every 2-cut, byte-wise feed of every stream <= 400 bytes; every 3-cut of streams <= 70 bytes")
}

func r13n(r *vc.Rand, i int) int {
	if i%5 == 0 {
		return 0
	}
	return r.Intn(6)
}

func c13Garbage(r *vc.Rand) []byte {
	n := 1 + r.Intn(40)
	b := make([]byte, n)
	for i := range b {
		b[i] = byte(r.Intn(256))
	}
	switch r.Intn(4) {
	case 0:
		b[0] = 0xda // half-right magic
	case 1:
		if n > 1 {
			b[0], b[1] = 0xda, 0xda // right magic, nonsense lengths
		}
	}
	return b
}

func c13Fixed() []*c13Stream {
	var out []*c13Stream
	mk := func(frames ...*wire.Frame) *c13Stream {
		s := &c13Stream{}
		for _, f := range frames {
			fr := c13Frame{f: f, head: map[string]string{}}
			for _, kv := range f.Head {
				fr.head[kv.K] = kv.V
			}
			if len(f.Body) > 0 {
				m, _, err := wire.Decode(f.Body)
				if err != nil {
					panic(err)
				}
				fr.body = m
			}
			fr.raw = wire.EncodeFrame(f)
			s.frames = append(s.frames, fr)
			s.bytes = append(s.bytes, fr.raw...)
		}
		s.shape = "fixed:" + c13StreamShape(s)
		return s
	}
	// frames whose total length sits on and around multiples of 2^16 (the head length is a 16-bit field, the total
	// length a 32-bit one): a small frame, the large one with a head map, a heart-beat behind it
	small, _ := wire.Encode(wire.New(wire.TGlobalBegin, "timeout", 60000, "transactionName", "s"))
	head := []wire.HeadKV{{K: "k", V: "v"}, {K: "trace", V: strings.Repeat("t", 20)}}
	probe := &wire.Frame{Version: 1, Type: wire.FrameRequestSync, Codec: 1, ID: 70, Head: head}
	probe.Body, _ = wire.Encode(wire.New(wire.TBranchRegister, "xid", "10.0.0.1:8091:7", "branchType", 0, "resourceId", "r", "lockKey", "", "applicationData", ""))
	base := len(wire.EncodeFrame(probe))
	headLen := base - len(probe.Body)
	for _, total := range []int{1<<16 - 1, 1 << 16, 1<<16 + 1, 1<<16 + 15, 1<<16 + 16, 1<<16 + headLen - 1, 1<<16 + headLen, 1<<16 + headLen + 1, 1 << 17, 1<<17 + headLen - 1} {
		b, _ := wire.Encode(wire.New(wire.TBranchRegister, "xid", "10.0.0.1:8091:7", "branchType", 0, "resourceId", "r", "lockKey", strings.Repeat("k", total-base), "applicationData", ""))
		big := &wire.Frame{Version: 1, Type: wire.FrameRequestSync, Codec: 1, ID: 71, Head: head, Body: b}
		if got := len(wire.EncodeFrame(big)); got != total {
			panic(fmt.Sprintf("c13: boundary frame has %d bytes, wanted %d", got, total))
		}
		st := mk(&wire.Frame{Version: 1, Type: wire.FrameRequestSync, Codec: 1, ID: 69, Body: small}, big, &wire.Frame{Version: 1, Type: wire.FrameHeartbeatResp, Codec: 1, ID: 72})
		st.shape = fmt.Sprintf("fixed:length-boundary:2^%d%+d", map[bool]int{true: 16, false: 17}[total < 1<<17-100], total-map[bool]int{true: 1 << 16, false: 1 << 17}[total < 1<<17-100])
		out = append(out, st)
	}
	body, _ := wire.Encode(wire.New(wire.TGlobalBegin, "timeout", 60000, "transactionName", "tx"))
	out = append(out, mk(&wire.Frame{Version: 1, Type: wire.FrameHeartbeatReq, Codec: 1, ID: 5}))
	out = append(out, mk(&wire.Frame{Version: 1, Type: wire.FrameRequestSync, Codec: 1, ID: 7, Head: []wire.HeadKV{{"k", "v"}, {"e", ""}}, Body: body}))
	out = append(out, mk(&wire.Frame{Version: 1, Type: wire.FrameRequestSync, Codec: 1, ID: 8, Head: []wire.HeadKV{{"", "v"}}, Body: body},
		&wire.Frame{Version: 1, Type: wire.FrameHeartbeatResp, Codec: 1, ID: 9}))
	return out
}

func c13Judge(r *vc.Run, si int, s *c13Stream, p c13Part, o c13Out, pkgs []c13Pkg) {
	minc := 1 << 30
	sum := 0
	for _, c := range p.chunks {
		if c < minc {
			minc = c
		}
		sum += c
	}
	mcls := ">=16"
	if minc < 16 {
		mcls = "<16"
	}
	if minc < 2 {
		mcls = "1"
	}
	shape := s.shape + "|" + p.kind + "|minchunk" + mcls
	feat := map[string]string{"partition": p.kind, "minchunk": mcls, "garbage": s.garbage}
	cs := map[string]interface{}{"stream_hex": hex.EncodeToString(s.bytes), "partition": p.chunks, "stream_shape": s.shape}
	hist := map[string]interface{}{"observed": o}
	if o.Reads > 0 {
		r.Case(shape, map[string]interface{}{"shape": shape, "stream_len": len(s.bytes), "chunks": clipInts(p.chunks, 12), "reads": o.Reads, "need_more": o.NeedMore, "deliveries": len(o.Deliveries)})
	} else {
		r.Case("", nil)
	}
	viol := func(clause, detail string) {
		r.Violate(&vc.Violation{Clause: clause, Shape: shape, Features: feat, Detail: detail, Case: cs, History: hist})
	}
	if o.Panic != "" {
		viol("panic", fmt.Sprintf("Read panicked at chunk %d: %s", o.AtChunk, o.Panic))
		return
	}
	if o.Spin {
		viol("spin", fmt.Sprintf("Read returned a package with consumed length 0 at chunk %d (getty would deliver it forever without progress)", o.AtChunk))
		return
	}
	if o.Over {
		viol("over-consume", fmt.Sprintf("Read returned consumed length beyond the buffered bytes at chunk %d", o.AtChunk))
		return
	}
	if s.garbage == "only" || s.garbage == "prefix" {
		return // arbitrary non-frame bytes: error or silence are both fine; only panic/spin are refutations
	}
	// valid stream (possibly with garbage suffix / truncated): expected deliveries = frames completely fed, in order
	fed := sum
	if fed > len(s.bytes) {
		fed = len(s.bytes)
	}
	var exp []c13Frame
	off := 0
	for _, fr := range s.frames {
		if off+len(fr.raw) <= fed {
			exp = append(exp, fr)
			off += len(fr.raw)
		} else {
			break
		}
	}
	inGarbage := s.garbage == "suffix" && fed > s.gpos
	if o.Err != "" && !inGarbage {
		viol("error-on-valid-stream", fmt.Sprintf("Read returned error %q at chunk %d although every byte fed belongs to well-formed frames (an incomplete frame must answer 'need more data')", o.Err, o.AtChunk))
		return
	}
	if len(o.Deliveries) > len(exp) && !inGarbage {
		viol("fabricated", fmt.Sprintf("%d packages delivered but only %d frames were completely fed", len(o.Deliveries), len(exp)))
	}
	n := len(o.Deliveries)
	if n > len(exp) {
		n = len(exp)
	}
	for i := 0; i < n; i++ {
		d := o.Deliveries[i]
		pk := pkgs[d[0]]
		if why := c13PkgEqual(exp[i], pk); why != "" {
			viol("wrong-message", fmt.Sprintf("delivery %d differs from frame %d of the stream: %s", i, i, why))
			return
		}
		if d[1] != len(exp[i].raw) {
			viol("wrong-length", fmt.Sprintf("delivery %d consumed %d bytes, frame is %d bytes", i, d[1], len(exp[i].raw)))
			return
		}
	}
	if o.Err == "" && len(o.Deliveries) < len(exp) {
		viol("missing", fmt.Sprintf("%d frames completely fed, only %d delivered (leftover %d bytes)", len(exp), len(o.Deliveries), o.Leftover))
		return
	}
	if o.Err == "" && !inGarbage && o.Leftover != fed-off {
		viol("consumed-incomplete", fmt.Sprintf("after the run %d bytes are buffered, expected %d (bytes of the incomplete tail)", o.Leftover, fed-off))
	}
}

func c13PkgEqual(fr c13Frame, pk c13Pkg) string {
	if pk.Type != int(fr.f.Type) || uint32(pk.ID) != fr.f.ID || pk.Codec != int(fr.f.Codec) || pk.Compressor != int(fr.f.Compressor) {
		return fmt.Sprintf("header (type,id,codec,compressor) = (%d,%d,%d,%d), expected (%d,%d,%d,%d)", pk.Type, uint32(pk.ID), pk.Codec, pk.Compressor, fr.f.Type, fr.f.ID, fr.f.Codec, fr.f.Compressor)
	}
	if len(pk.Head) != len(fr.head) {
		return fmt.Sprintf("head map has %d entries %v, expected %d %v", len(pk.Head), pk.Head, len(fr.head), fr.head)
	}
	for k, v := range fr.head {
		if got, ok := pk.Head[k]; !ok || got != v {
			return fmt.Sprintf("head map entry %q: got %q (present=%v), expected %q; got map %v", k, got, ok, v, pk.Head)
		}
	}
	switch fr.f.Type {
	case wire.FrameHeartbeatReq:
		if pk.BodyKind != "ping" {
			return "heart-beat request delivered with body kind " + pk.BodyKind
		}
	case wire.FrameHeartbeatResp:
		if pk.BodyKind != "pong" {
			return "heart-beat response delivered with body kind " + pk.BodyKind
		}
	default:
		if fr.body == nil {
			if pk.BodyKind != "nil" {
				return "empty body delivered as " + pk.BodyKind
			}
			return ""
		}
		if pk.Body == nil {
			return "body delivered as " + pk.BodyKind
		}
		if ok, why := wire.Equal(fr.body, wire.FromText(*pk.Body)); !ok {
			return "body: " + why
		}
	}
	return ""
}

func clipInts(x []int, n int) []int {
	if len(x) > n {
		return x[:n]
	}
	return x
}

// c13HeadRoundTrip: head maps (incl. empty keys / values) survive RpcPackageHandler.Write -> Read.
func c13HeadRoundTrip(r *vc.Run, ch *vc.Child, rnd *vc.Rand) {
	type wreq struct {
		Type       int               `json:"type"`
		ID         int32             `json:"id"`
		Codec      int               `json:"codec"`
		Compressor int               `json:"compressor"`
		Head       map[string]string `json:"head"`
		Body       *wire.TextMsg     `json:"body"`
	}
	var reqs []wreq
	var frs []c13Frame
	n := 150
	for i := 0; i < n; i++ {
		fr := c13GenFrame(rnd, false)
		switch i {
		case 0:
			fr.head = map[string]string{"e": ""}
		case 1:
			fr.head = map[string]string{"": "v"}
		case 2:
			fr.head = map[string]string{"": ""}
		case 3:
			fr.head = map[string]string{"a": "1", "b": "", "c": "3"}
		}
		w := wreq{Type: int(fr.f.Type), ID: int32(fr.f.ID), Codec: 1, Compressor: 0, Head: fr.head}
		if fr.body != nil {
			t := wire.ToText(fr.body)
			w.Body = &t
		}
		reqs = append(reqs, w)
		frs = append(frs, fr)
	}
	var outs []struct {
		Bytes string `json:"bytes"`
		Err   string `json:"err"`
		Panic string `json:"panic"`
	}
	if err := ch.Call("frame_write", reqs, &outs); err != nil {
		r.Errorf("frame_write: %v", err)
		return
	}
	for i, o := range outs {
		fr := frs[i]
		hs := fmt.Sprintf("h%d", len(fr.head))
		ek, ev := false, false
		for k, v := range fr.head {
			if k == "" {
				ek = true
			}
			if v == "" {
				ev = true
			}
		}
		feat := map[string]string{"partition": "write-read", "empty_key": fmt.Sprint(ek), "empty_value": fmt.Sprint(ev)}
		shape := fmt.Sprintf("write-read|%s|ek=%v|ev=%v|kind=%d", hs, ek, ev, fr.f.Type)
		cs := map[string]interface{}{"frame": reqs[i]}
		viol := func(clause, detail string) {
			r.Violate(&vc.Violation{Clause: clause, Shape: shape, Features: feat, Detail: detail, Case: cs, History: o})
		}
		r.Case(shape, map[string]interface{}{"shape": shape, "head": fr.head, "written_hex": clipHex(o.Bytes, 80)})
		if o.Panic != "" {
			viol("panic", "Write panicked: "+o.Panic)
			continue
		}
		if o.Err != "" {
			viol("write-error", o.Err)
			continue
		}
		raw, _ := hex.DecodeString(o.Bytes)
		wf, k, err := wire.DecodeFrame(raw)
		if err != nil || wf == nil || k != len(raw) {
			viol("write-layout", fmt.Sprintf("written frame is not a well-formed v1 frame: %v (consumed %d of %d)", err, k, len(raw)))
			continue
		}
		got := map[string]string{}
		for _, kv := range wf.Head {
			got[kv.K] = kv.V
		}
		if fmt.Sprint(got) != fmt.Sprint(fr.head) || len(wf.Head) != len(fr.head) {
			viol("write-layout", fmt.Sprintf("written head map %v != %v", got, fr.head))
			continue
		}
		var res struct {
			Pkgs []c13Pkg `json:"pkgs"`
			Outs []c13Out `json:"outs"`
		}
		if err := ch.Call("frame_drive", map[string]interface{}{"stream": o.Bytes, "partitions": [][]int{{len(raw)}}}, &res); err != nil {
			r.Errorf("frame_drive: %v", err)
			return
		}
		d := res.Outs[0]
		if d.Panic != "" || d.Err != "" || len(d.Deliveries) != 1 {
			b, _ := json.Marshal(d)
			viol("head-roundtrip", "Read of the written frame did not deliver exactly one package: "+string(b))
			continue
		}
		fr.raw = raw
		if why := c13PkgEqual(fr, res.Pkgs[d.Deliveries[0][0]]); why != "" {
			viol("head-roundtrip", "Write->Read changed the message: "+why)
		}
	}
}
