package checks

import (
	"fmt"
	"strings"
	"sync"
	"time"

	"verif/faketc"
	mm "verif/minimysql"
	"verif/vc"
	"verif/wire"
)

// C10 — branch rollback is idempotent and blocks a late phase one.
//
// Three streams, each against the real client over the fake coordinator and the fake database:
//   repeat: 1..3 deliveries (sequential, and two at once) of BranchRollback for every branch of generated programs;
//   faults: for single-branch programs with several compensations, a database failure (error, connection lost before
//           / after execution) at every command index of the rollback transaction, then a clean retry;
//   late:   the rollback is delivered while phase one of the branch is held at its undo-log insert or at its COMMIT.
// All verdicts compare ground-truth snapshots of the fake database and the answers seen by the fake coordinator.

func init() {
	Registry["C10"] = Check{Level: "fault_enumeration", Fn: runC10}
}

func runC10(r *vc.Run, replay string) {
	r.Rule = "repeat: generated programs (1..3 local transactions, 1..3 statements) x deliveries {1,2,3 sequential; 2 concurrent}: every delivery answered Rollbacked, final state == state before the global transaction, deliveries after the first successful one make no durable change; faults: single-branch programs with 2..3 compensations x every command index of the rollback transaction x {error 1205/1213, connection dropped before execution, connection dropped after execution}: after the failed attempt the tables equal the phase-one state (and the undo log is still there) or the pre-state (never in between), Rollbacked only with the pre-state; a clean retry ends in the pre-state and answers Rollbacked; late: phase one held at its undo-log INSERT / at its COMMIT while BranchRollback is delivered: if that delivery answered Rollbacked the held local commit must fail and commit nothing; a final retry ends in the pre-state; distinct_nontrivial = distinct (stream, statement kinds, delivery / fault kind+command kind / hold position) signatures with a registered branch"
	r.Assumptions = []string{"statement index = index of the command on the client's connections (classes 'proxied' and 'app') after the BranchRollback request, SET commands excluded", "the fake database ends the transaction when COMMIT fails (like InnoDB)", "faults stop before the clean retry"}
	n := 90
	nf := 14
	nl := 40
	if r.Tier == "thorough" {
		n, nf, nl = 900, 120, 400
	}
	if v := devN(); v > 0 {
		n, nf, nl = v, v/6+1, v/2+1
	}
	var wg sync.WaitGroup
	only := osGetenv("VERIF_DEV_STREAM")
	for name, f := range map[string]func(){
		"repeat": func() { c10Repeat(r, n) },
		"faults": func() { c10Faults(r, nf) },
		"late":   func() { c10Late(r, nl) },
	} {
		if only != "" && only != name {
			continue
		}
		wg.Add(1)
		go func(f func()) { defer wg.Done(); f() }(f)
	}
	wg.Wait()
}

var c10Cfg = atUndoCfg{Serializer: "json", Compress: "None", Validation: true, OnlyCare: true}

type c10Delivery struct {
	Branch   int64
	ReqSeq   int64
	RespSeq  int64
	Status   int64 // -1: no answer
	Parallel bool
}

// c10Deliver sends one BranchRollback for b and waits for the attempt to end.
func c10Deliver(env *atEnv, b *faketc.Branch) c10Delivery {
	d := c10Delivery{Branch: b.ID, Status: -1}
	t0 := time.Now()
	s := env.w.TC.WaitSession(b.Resource, 3*time.Second)
	if s == nil {
		s = env.w.TC.WaitSession("", time.Second)
	}
	if s == nil {
		return d
	}
	d.ReqSeq = env.w.Clock.Now()
	logOff := env.ch.LogSize()
	_, ch, err := env.w.TC.Request(s, faketc.BranchEndReq(false, b), 0)
	if err != nil {
		return d
	}
	if m := env.awaitPhaseTwoFrom(ch, d.ReqSeq, logOff); m != nil {
		d.Status = m.I("branchStatus")
	}
	d.RespSeq = env.w.Clock.Now()
	if osGetenv("VERIF_VERBOSE") != "" {
		if el := time.Since(t0); el > 2*time.Second {
			fmt.Printf("SLOW delivery branch=%d status=%d %v\n", b.ID, d.Status, el)
		}
	}
	return d
}

func c10Statuses(ds []c10Delivery) []int64 {
	var out []int64
	for _, d := range ds {
		out = append(out, d.Status)
	}
	return out
}

func c10OpenUndo(env *atEnv, xid string) []string {
	var out []string
	for _, u := range env.undoRows(xid) {
		if strings.HasSuffix(u, "status=0") {
			out = append(out, u)
		}
	}
	return out
}

// appWritesSince lists durable changes to the case's tables made by the client's connections after seq.
func c10AppWritesSince(env *atEnv, c *atCase, seq int64) []string {
	var out []string
	for _, j := range env.db.E.JournalSince(seq) {
		if j.Class == "foreign" {
			continue
		}
		for _, ch := range j.Committed {
			for _, t := range c.Tables {
				if strings.EqualFold(ch.Table, t.Name) {
					out = append(out, fmt.Sprintf("[%d] %s %s", j.Seq, t.Name, strings.ReplaceAll(truthRowKey(t.Def, firstNonNil(ch.Before, ch.After)), "\x00", ",")))
				}
			}
		}
	}
	return out
}

func c10Finish(env *atEnv, c *atCase, o *atOutcome) {
	o.Post = env.snap(c)
	o.Journal = env.db.E.JournalSince(o.StartSeq)
	o.TCEvents = env.w.TC.EventsSince(o.StartSeq)
	if o.Xid != "" {
		o.UndoPost = env.undoRows(o.Xid)
		env.w.TC.ReleaseLocks(o.Xid)
	}
}

// ---------------------------------------------------------------- repeat

func c10Repeat(r *vc.Run, n int) {
	env, err := newATEnv(r, "c10-rep", c10Cfg, r.Tier == "thorough", "")
	if err != nil {
		r.Errorf("%v", err)
		return
	}
	defer env.Close()
	rnd := vc.NewRand(r.Seed, "c10-repeat")
	for i := 0; i < n; i++ {
		c := c01GenCase(rnd, i, atSafeKinds, "r_")
		mode := []string{"1", "2", "3", "2-concurrent"}[i%4]
		c.Feat["deliveries"] = mode
		env.install(c)
		o := env.runGtx(c, "error", nil)
		if o.CallErr != nil {
			if !env.ch.Alive() {
				c01Crash(r, env, c)
				return
			}
			r.Inconc(c.Name + ": " + o.CallErr.Error())
			r.Case("", nil)
			env.drop(c)
			continue
		}
		bs := env.w.TC.BranchesOf(o.Xid)
		var all, follow []c10Delivery
		var firstOK int64
		var lateWrites []string
		for k := len(bs) - 1; k >= 0; k-- {
			b := bs[k]
			switch mode {
			case "2-concurrent":
				var wg sync.WaitGroup
				res := make([]c10Delivery, 2)
				for x := 0; x < 2; x++ {
					wg.Add(1)
					go func(x int) { defer wg.Done(); res[x] = c10Deliver(env, b); res[x].Parallel = true }(x)
				}
				wg.Wait()
				all = append(all, res...)
				// two deliveries at once may collide on the marker's unique key: the loser fails without an answer and the
				// coordinator retries; that retry must be answered Rollbacked
				follow = append(follow, c10Deliver(env, b))
			default:
				cnt := int(mode[0] - '0')
				for x := 0; x < cnt; x++ {
					d := c10Deliver(env, b)
					all = append(all, d)
					if x == 0 && d.Status == 8 {
						firstOK = d.RespSeq
					}
					if x > 0 && firstOK > 0 {
						lateWrites = append(lateWrites, c10AppWritesSince(env, c, all[len(all)-2].RespSeq)...)
					}
				}
				firstOK = 0
			}
		}
		c10Finish(env, c, o)
		shape := "repeat|" + c.shape() + "|deliveries=" + mode
		st := c10Statuses(all)
		if len(bs) > 0 {
			r.Case(shape, map[string]interface{}{"case": c, "deliveries": all, "retries_after_concurrent": follow, "history": o.history(60)})
		} else {
			r.Case("", nil)
		}
		r.Count("repeat_deliveries", int64(len(all)))
		viol := func(clause, detail string) {
			r.Violate(&vc.Violation{Clause: clause, Shape: shape, Features: c.Feat, Detail: detail, Case: c,
				History: map[string]interface{}{"deliveries": all, "events": o.history(220), "undo_rows_left": o.UndoPost, "client_log_errors": env.logErrors(20)}})
		}
		if len(bs) > 0 {
			if mode == "2-concurrent" {
				ok := 0
				bad := false
				for _, d := range all {
					if d.Status == 8 {
						ok++
					} else if d.Status != -1 {
						bad = true
					}
				}
				for _, d := range follow {
					if d.Status != 8 {
						bad = true
					}
				}
				if bad || ok < len(bs) {
					viol("repeat-not-rollbacked", fmt.Sprintf("two simultaneous deliveries per branch were answered %v and the following retries %v (8 = Rollbacked, -1 = no answer)", st, c10Statuses(follow)))
				}
			} else {
				for _, d := range all {
					if d.Status != 8 {
						viol("repeat-not-rollbacked", fmt.Sprintf("deliveries of BranchRollback were answered %v (8 = Rollbacked, -1 = no answer) on a healthy database", st))
						break
					}
				}
			}
			if diff := snapDiff(o.Pre, o.Post); len(diff) > 0 {
				viol("repeat-state-differs", fmt.Sprintf("after %s deliveries per branch %d rows differ from the state before the global transaction: %s", mode, len(diff), strings.Join(clipList(diff, 4), "; ")))
			}
			if open := c10OpenUndo(env, o.Xid); len(open) > 0 {
				viol("repeat-undo-log-left", fmt.Sprintf("undo log rows remain after the rollbacks: %v", open))
			}
			if len(lateWrites) > 0 {
				viol("repeat-wrote-again", fmt.Sprintf("a delivery after the first successful rollback made durable changes: %v", clipList(lateWrites, 4)))
			}
		}
		env.sweep()
		env.drop(c)
		if i%40 == 39 {
			env.db.E.Truncate("undo_log")
		}
		if !env.ch.Alive() {
			c01Crash(r, env, c)
			return
		}
	}
}

// ---------------------------------------------------------------- faults

type c10Fault struct {
	Kind string // none | db-error | drop-before | drop-after
	Pos  int
	Code int
	What string
}

// c10GenMulti: one explicit local transaction with 2..3 statements over 1..2 tables (several compensations in one
// undo log).
func c10GenMulti(r *vc.Rand, idx int, prefix string) *atCase {
	c := &atCase{Name: fmt.Sprintf("%s%04d", prefix, idx), Feat: map[string]string{}}
	nt := 1 + r.Intn(2)
	for k := 0; k < nt; k++ {
		pk := []string{"int", "autoinc", "composite", "varchar", "composite_txt"}[r.Intn(5)]
		c.Tables = append(c.Tables, atGenTable(r, fmt.Sprintf("%s%04dt%d", prefix, idx, k), pk, atSafeKinds, 2+r.Intn(2), 4+r.Intn(3), false))
	}
	grp := atGroup{Explicit: true}
	ns := 2 + r.Intn(2)
	seq := 0
	for k := 0; k < ns; k++ {
		t := c.Tables[r.Intn(len(c.Tables))]
		o := atStmtOpts{params: true, rowsClass: []string{"1", "many"}[r.Intn(2)]}
		switch r.Intn(4) {
		case 0, 1:
			grp.Stmts = append(grp.Stmts, atGenUpdate(r, t, o))
		case 2:
			grp.Stmts = append(grp.Stmts, atGenDelete(r, t, o))
		default:
			grp.Stmts = append(grp.Stmts, atGenInsert(r, t, o, 1+r.Intn(2), &seq))
		}
	}
	c.Groups = []atGroup{grp}
	for _, t := range c.Tables {
		c.DDL = append(c.DDL, describeTable(t))
	}
	c.fold()
	return c
}

func c10Faults(r *vc.Run, n int) {
	env, err := newATEnv(r, "c10-flt", c10Cfg, r.Tier == "thorough", "")
	if err != nil {
		r.Errorf("%v", err)
		return
	}
	defer env.Close()
	rnd := vc.NewRand(r.Seed, "c10-faults")
	run := 0
	for i := 0; i < n; i++ {
		p := c10GenMulti(rnd, i, "x_")
		run++
		base, cmds := c10FaultRun(r, env, p, run, c10Fault{Kind: "none"})
		if base == nil {
			return
		}
		var faults []c10Fault
		for k, j := range cmds {
			faults = append(faults, c10Fault{Kind: "db-error", Pos: k, Code: []int{1205, 1213}[k%2], What: j},
				c10Fault{Kind: "drop-before", Pos: k, What: j}, c10Fault{Kind: "drop-after", Pos: k, What: j})
		}
		for _, f := range faults {
			run++
			if o, _ := c10FaultRun(r, env, p, run, f); o == nil {
				return
			}
		}
		env.db.E.Truncate("undo_log")
	}
}

func c10CmdKind(j *mm.JournalEntry) string {
	k := j.Kind
	if strings.EqualFold(j.Table, "undo_log") {
		k += "(undo_log)"
	}
	return k
}

// c10FaultRun: phase one of a fresh copy of p, then one BranchRollback attempt under fault f, then a clean retry.
func c10FaultRun(r *vc.Run, env *atEnv, p *atCase, run int, f c10Fault) (*atOutcome, []string) {
	c := c02Clone(p, fmt.Sprintf("%s_%d", p.Name, run))
	env.install(c)
	defer env.drop(c)
	o := env.runGtx(c, "error", nil)
	if o.CallErr != nil {
		if !env.ch.Alive() {
			c01Crash(r, env, c)
			return nil, nil
		}
		r.Inconc(c.Name + ": " + o.CallErr.Error())
		r.Case("", nil)
		return o, nil
	}
	bs := env.w.TC.BranchesOf(o.Xid)
	if len(bs) != 1 {
		r.Case("", nil)
		c10Finish(env, c, o)
		return o, nil
	}
	var mu sync.Mutex
	npos := -1
	delivered := false
	env.db.E.Inject = func(j *mm.JournalEntry) *mm.Action {
		if (j.Class != "proxied" && j.Class != "app") || j.Kind == "SET" {
			return nil
		}
		mu.Lock()
		defer mu.Unlock()
		npos++
		if delivered || npos != f.Pos {
			return nil
		}
		switch f.Kind {
		case "db-error":
			delivered = true
			msg := "Lock wait timeout exceeded; try restarting transaction"
			if f.Code == 1213 {
				msg = "Deadlock found when trying to get lock; try restarting transaction"
			}
			return &mm.Action{Err: &mm.MyErr{Code: uint16(f.Code), State: "HY000", Msg: msg}}
		case "drop-before":
			delivered = true
			return &mm.Action{DropBefore: true}
		case "drop-after":
			delivered = true
			return &mm.Action{DropAfter: true}
		}
		return nil
	}
	d1 := c10Deliver(env, bs[0])
	env.db.E.Inject = nil
	// let a connection that was cut off finish dying before the state is read
	s1 := env.snap(c)
	undo1 := c10OpenUndo(env, o.Xid)
	var cmds []string
	for _, j := range env.db.E.JournalSince(d1.ReqSeq) {
		if (j.Class == "proxied" || j.Class == "app") && j.Kind != "SET" {
			cmds = append(cmds, c10CmdKind(j))
		}
	}
	mu.Lock()
	wasDelivered := delivered
	mu.Unlock()
	var d2 c10Delivery
	if f.Kind != "none" {
		d2 = c10Deliver(env, bs[0])
	}
	c10Finish(env, c, o)
	feat := map[string]string{}
	for k, v := range c.Feat {
		feat[k] = v
	}
	feat["fault"] = f.Kind
	feat["fault_at"] = f.What
	shape := fmt.Sprintf("faults|stmts=%s|fault=%s@%s", c.Feat["stmts"], f.Kind, f.What)
	if f.Kind != "none" && !wasDelivered {
		r.Case("", nil) // the command index was not reached in this run
		return o, cmds
	}
	r.Case(shape, map[string]interface{}{"case": c, "fault": f, "attempt1": d1, "retry": d2, "history": o.history(70)})
	viol := func(clause, detail string) {
		r.Violate(&vc.Violation{Clause: clause, Shape: shape, Features: feat, Detail: detail, Case: c,
			History: map[string]interface{}{"fault": f, "attempt1": d1, "retry": d2, "events": o.history(240), "undo_rows_left": o.UndoPost, "client_log_errors": env.logErrors(20)}})
	}
	atMid := len(snapDiff(o.Mid, s1)) == 0
	atPre := len(snapDiff(o.Pre, s1)) == 0
	switch {
	case f.Kind == "none":
		if d1.Status != 8 || !atPre {
			viol("clean-rollback-failed", fmt.Sprintf("without any fault the rollback answered %d and %d rows differ from the pre-state", d1.Status, len(snapDiff(o.Pre, s1))))
		}
		return o, cmds
	case !atMid && !atPre:
		viol("partial-compensation", fmt.Sprintf("after the failed attempt (%s at command %d %s) the tables equal neither the phase-one state nor the pre-state: vs phase one: %s", f.Kind, f.Pos, f.What, strings.Join(clipList(snapDiff(o.Mid, s1), 4), "; ")))
	case d1.Status == 8 && !atPre:
		viol("rollbacked-without-restoring", fmt.Sprintf("the attempt with %s at command %d %s was answered Rollbacked but the tables still hold the branch's writes", f.Kind, f.Pos, f.What))
	case atMid && !atPre && len(undo1) == 0:
		viol("undo-log-lost", fmt.Sprintf("after the failed attempt (%s at command %d %s) the branch's writes are still there but its undo log is gone", f.Kind, f.Pos, f.What))
	}
	if d2.Status != 8 {
		viol("retry-not-rollbacked", fmt.Sprintf("the clean retry after %s at command %d %s was answered %d (8 = Rollbacked, -1 = no answer)", f.Kind, f.Pos, f.What, d2.Status))
	}
	if diff := snapDiff(o.Pre, o.Post); len(diff) > 0 {
		viol("retry-state-differs", fmt.Sprintf("after the clean retry %d rows differ from the pre-state: %s", len(diff), strings.Join(clipList(diff, 4), "; ")))
	}
	if open := c10OpenUndo(env, o.Xid); len(open) > 0 && d2.Status == 8 {
		viol("retry-undo-log-left", fmt.Sprintf("undo log rows remain after the retry answered Rollbacked: %v", open))
	}
	env.sweep()
	if !env.ch.Alive() {
		c01Crash(r, env, c)
		return nil, nil
	}
	return o, cmds
}

// ---------------------------------------------------------------- late phase one

func c10Late(r *vc.Run, n int) {
	env, err := newATEnv(r, "c10-late", c10Cfg, r.Tier == "thorough", "")
	if err != nil {
		r.Errorf("%v", err)
		return
	}
	defer env.Close()
	rnd := vc.NewRand(r.Seed, "c10-late")
	for i := 0; i < n; i++ {
		var c *atCase
		if i%3 == 2 {
			c = c10GenMulti(rnd, i, "l_")
		} else {
			c = c01GenCase(rnd, i, atSafeKinds, "l_")
			c.Groups = c.Groups[:1]
			c.fold()
		}
		hold := []string{"undo-insert", "commit"}[i%2]
		if i%5 == 4 {
			// phase one is held at its undo-log INSERT until the rollback transaction has looked for the undo log (none)
			// and is about to insert its marker; then phase one runs to its local commit before the marker INSERT goes on
			hold = "undo-insert-until-rollback-marker"
		}
		c.Feat["hold"] = hold
		heldDeliveries := 1
		if hold == "undo-insert" {
			heldDeliveries = 1 + (i/2)%3
		}
		c.Feat["deliveries_while_held"] = fmt.Sprint(heldDeliveries)
		env.install(c)
		reached := make(chan struct{})
		release := make(chan struct{})
		var releaseOnce sync.Once
		doRelease := func() { releaseOnce.Do(func() { close(release) }) }
		done := make(chan struct{})
		var mu sync.Mutex
		fired, sawUndo, marker := false, false, false
		env.db.E.Inject = func(j *mm.JournalEntry) *mm.Action {
			// phase one runs on the application's proxied connection; the rollback transaction runs on a connection of
			// the resource's own pool (class "app")
			if j.Class != "proxied" && !(hold == "undo-insert-until-rollback-marker" && j.Class == "app") {
				return nil
			}
			mu.Lock()
			isUndo := j.Kind == "INSERT" && strings.Contains(strings.ToLower(j.SQL), "into undo_log")
			match := !fired && j.Class == "proxied" && ((strings.HasPrefix(hold, "undo-insert") && isUndo) || (hold == "commit" && j.Kind == "COMMIT" && sawUndo))
			second := fired && !match && isUndo && !marker && j.Class == "app" && hold == "undo-insert-until-rollback-marker"
			if second {
				marker = true
			}
			if isUndo {
				sawUndo = true
			}
			if match {
				fired = true
			}
			mu.Unlock()
			if second {
				// the rollback transaction's marker INSERT: let phase one finish its local commit first
				doRelease()
				select {
				case <-done:
				case <-time.After(30 * time.Second):
				}
				return nil
			}
			if match {
				close(reached)
				select {
				case <-release:
				case <-time.After(40 * time.Second):
				}
			}
			return nil
		}
		o := &atOutcome{}
		env.logMark()
		o.Pre = env.snap(c)
		o.StartSeq = env.w.Clock.Now()
		go func() {
			o.CallErr = env.ch.Call("gtx", &gtxScope{Case: c.Name, Name: c.Name, TimeoutMs: 60000, Outcome: "error", Label: "gtx", Steps: c.steps("at")}, &o.Res)
			close(done)
		}()
		var d1, d2 c10Delivery
		held := false
		var b *faketc.Branch
		select {
		case <-reached:
			held = true
			for _, g := range env.w.TC.GlobalsByName(c.Name) {
				o.Xid = g.Xid
			}
			if bs := env.w.TC.BranchesOf(o.Xid); len(bs) > 0 {
				b = bs[len(bs)-1]
				for x := 0; x < heldDeliveries; x++ {
					d := c10Deliver(env, b)
					if x == 0 || d.Status != 8 {
						d1 = d
					}
				}
			}
			doRelease()
			<-done
		case <-done:
			// phase one never wrote an undo log (no row matched): nothing to hold
			doRelease()
		case <-time.After(60 * time.Second):
			doRelease()
			env.ch.Quit()
			<-done
		}
		env.db.E.Inject = nil
		if o.Xid == "" {
			o.Xid = o.Res.XidIn
		}
		o.Mid = env.snap(c)
		o.MidSeq = env.w.Clock.Now()
		if o.CallErr != nil {
			if !env.ch.Alive() {
				c01Crash(r, env, c)
				return
			}
			r.Inconc(c.Name + ": " + o.CallErr.Error())
			r.Case("", nil)
			env.drop(c)
			continue
		}
		// the coordinator retries until every branch of the global transaction is rolled back
		for _, bb := range env.w.TC.BranchesOf(o.Xid) {
			d := c10Deliver(env, bb)
			if b != nil && bb.ID == b.ID {
				d2 = d
			} else if d.Status != 8 {
				d2 = d
			}
		}
		c10Finish(env, c, o)
		shape := fmt.Sprintf("late|stmts=%s|explicit=%s|hold=%s|deliveries=%d|first=%d", c.Feat["stmts"], c.Feat["explicit_tx"], hold, heldDeliveries, d1.Status)
		if !held || b == nil {
			r.Count(fmt.Sprintf("late not-held: held=%v branch=%v returned=%s", held, b != nil, o.Res.Returned), 1)
			r.Case("", nil)
			env.sweep()
			env.drop(c)
			continue
		}
		stepErr := ""
		for _, s := range o.Res.Steps {
			if s.Err != "" {
				stepErr = s.Op + ": " + s.Err
				break
			}
		}
		r.Case(shape, map[string]interface{}{"case": c, "hold": hold, "delivery_while_held": d1, "retry": d2, "phase_one_error": stepErr, "history": o.history(70)})
		r.Count(fmt.Sprintf("late hold=%s first_answer=%d phase_one_failed=%v", hold, d1.Status, stepErr != ""), 1)
		viol := func(clause, detail string) {
			r.Violate(&vc.Violation{Clause: clause, Shape: shape, Features: c.Feat, Detail: detail, Case: c,
				History: map[string]interface{}{"delivery_while_held": d1, "retry": d2, "phase_one_error": stepErr, "steps": o.Res.Steps, "events": o.history(240), "undo_rows_left": o.UndoPost, "client_log_errors": env.logErrors(20)}})
		}
		if d1.Status == 8 {
			// the coordinator considers the branch rolled back: the held local commit must not get through
			if diff := snapDiff(o.Pre, o.Mid); len(diff) > 0 {
				viol("late-phase-one-committed", fmt.Sprintf("BranchRollback (x%d) was answered Rollbacked while phase one was held at its %s; after release the local transaction committed %d row changes: %s", heldDeliveries, hold, len(diff), strings.Join(clipList(diff, 4), "; ")))
			}
			if stepErr == "" {
				viol("late-phase-one-no-error", fmt.Sprintf("BranchRollback was answered Rollbacked while phase one was held at its %s, but the application saw no error from its local transaction", hold))
			}
		}
		if d2.Status != 8 {
			viol("late-retry-not-rollbacked", fmt.Sprintf("the coordinator's retry after the race was answered %d", d2.Status))
		}
		if diff := snapDiff(o.Pre, o.Post); len(diff) > 0 {
			viol("late-final-state-differs", fmt.Sprintf("after the retry %d rows differ from the pre-state: %s", len(diff), strings.Join(clipList(diff, 4), "; ")))
		}
		if open := c10OpenUndo(env, o.Xid); len(open) > 0 && d2.Status == 8 {
			viol("late-undo-log-left", fmt.Sprintf("undo log rows remain: %v", open))
		}
		env.sweep()
		env.drop(c)
		if i%40 == 39 {
			env.db.E.Truncate("undo_log")
		}
		if !env.ch.Alive() {
			c01Crash(r, env, c)
			return
		}
	}
}

var _ = wire.TBranchRollback
