package checks

import (
	"fmt"
	"sort"
	"strings"
	"sync"

	mm "verif/minimysql"
	"verif/vc"
)

// C18 — captured images equal the rows the statement actually changed.
//
// Ground truth is the fake MySQL's own record, for the business command, of the rows it matched and the rows it
// changed (full pre/post content). The images are read from the rollback_info argument of the INSERT INTO undo_log
// that the client sent (json serializer, no compression) with a plain JSON reader - never with seata-go's decoder.

func init() {
	Registry["C18"] = Check{Level: "exploration", Fn: runC18}
}

// atGenWhereTree builds a WHERE tree over the table's columns. values come from the initial rows, so that trees match
// something reasonably often.
func atGenWhereTree(r *vc.Rand, t *atTable, depth int, params, strCols bool) (string, []tval, map[string]bool) {
	ops := map[string]bool{}
	var cols []int
	for ci := range t.Def.Cols {
		k := t.Kinds[ci]
		switch {
		case k == "pk":
			if t.Def.Cols[ci].T == mm.TInt || strCols {
				cols = append(cols, ci)
			}
		case k == "int" || k == "bigint" || k == "tinyint" || k == "double":
			cols = append(cols, ci)
		case (k == "varchar") && strCols:
			cols = append(cols, ci)
		}
	}
	if len(cols) == 0 {
		cols = []int{t.Def.PK[0]}
	}
	val := func(ci int) interface{} {
		if len(t.Rows) > 0 && r.Intn(5) != 0 {
			if v := t.Rows[r.Intn(len(t.Rows))][ci]; v != nil {
				return v
			}
		}
		if t.Kinds[ci] == "pk" {
			return t.Rows[0][ci]
		}
		return atColKinds[t.Kinds[ci]].gen(r)
	}
	var args []tval
	lit := func(v interface{}) string {
		if params {
			args = append(args, tvOf(v))
			return "?"
		}
		return sqlLit(v)
	}
	var gen func(d int) string
	gen = func(d int) string {
		if d <= 0 || r.Intn(3) == 0 {
			ci := cols[r.Intn(len(cols))]
			name := t.Def.Cols[ci].Name
			switch r.Intn(6) {
			case 0, 1:
				ops["cmp"] = true
				return fmt.Sprintf("%s %s %s", name, []string{"=", "<>", ">", "<=", ">=", "<"}[r.Intn(6)], lit(val(ci)))
			case 2:
				ops["in"] = true
				n := 1 + r.Intn(3)
				var vs []string
				for i := 0; i < n; i++ {
					vs = append(vs, lit(val(ci)))
				}
				return fmt.Sprintf("%s in (%s)", name, strings.Join(vs, ", "))
			case 3:
				ops["between"] = true
				a, b := val(ci), val(ci)
				return fmt.Sprintf("%s between %s and %s", name, lit(a), lit(b))
			default:
				ops["cmp"] = true
				return fmt.Sprintf("%s = %s", name, lit(val(ci)))
			}
		}
		l := gen(d - 1)
		rr := gen(d - 1)
		op := "and"
		if r.Bool() {
			op = "or"
		}
		ops[op] = true
		s := l + " " + op + " " + rr
		if r.Bool() {
			ops["paren"] = true
			s = "(" + s + ")"
		}
		return s
	}
	return gen(depth), args, ops
}

func c18GenCase(r *vc.Rand, idx int, prefix string, onlyCare bool) *atCase {
	c := &atCase{Name: fmt.Sprintf("%s%04d", prefix, idx), Feat: map[string]string{}}
	pk := []string{"int", "autoinc", "composite", "varchar", "composite3", "int", "composite_txt", "int+uq", "composite+uq", "autoinc+uq"}[r.Intn(10)]
	kinds := atSafeKinds
	if idx%5 == 4 {
		kinds = atAllKinds
	}
	t := atGenTable(r, fmt.Sprintf("%s%04dt", prefix, idx), pk, kinds, 2+r.Intn(3), 4+r.Intn(5), r.Bool())
	c.Tables = []*atTable{t}
	c.Feat["pk"] = pk
	c.Feat["only_care"] = fmt.Sprint(onlyCare)
	params := r.Intn(4) != 0
	strCols := r.Intn(4) == 0
	depth := r.Intn(5)
	seq := 0
	var st atStmt
	kind := r.Intn(10)
	switch {
	case kind < 4: // UPDATE
		vcs := t.valueCols()
		n := 1 + r.Intn(2)
		if n > len(vcs) {
			n = len(vcs)
		}
		perm := r.Perm(len(vcs))
		var sets []string
		var args []tval
		for i := 0; i < n; i++ {
			ci := vcs[perm[i]]
			v := atColKinds[t.Kinds[ci]].gen(r)
			if params {
				sets = append(sets, t.Def.Cols[ci].Name+" = ?")
				args = append(args, tvOf(v))
			} else {
				sets = append(sets, t.Def.Cols[ci].Name+" = "+sqlLit(v))
			}
		}
		w, wargs, ops := atGenWhereTree(r, t, depth, params, strCols)
		args = append(args, wargs...)
		sql := fmt.Sprintf("update %s set %s where %s", t.Name, strings.Join(sets, ", "), w)
		lim := ""
		if r.Intn(4) == 0 {
			first := t.Def.Cols[t.Def.PK[0]].Name
			n := 1 + r.Intn(3)
			if params {
				sql += fmt.Sprintf(" order by %s %s limit ?", first, []string{"asc", "desc"}[r.Intn(2)])
				args = append(args, tvOf(int64(n)))
			} else {
				sql += fmt.Sprintf(" order by %s %s limit %d", first, []string{"asc", "desc"}[r.Intn(2)], n)
			}
			lim = "limit"
		}
		st = atStmt{Kind: "update", Table: t.Name, SQL: sql, Args: args, Feat: map[string]string{"stmt": "update", "where": strings.Join(sortedKeys(ops), "+"), "limit": lim}}
	case kind < 6: // DELETE
		w, wargs, ops := atGenWhereTree(r, t, depth, params, strCols)
		sql := fmt.Sprintf("delete from %s where %s", t.Name, w)
		lim := ""
		if r.Intn(4) == 0 {
			first := t.Def.Cols[t.Def.PK[0]].Name
			sql += fmt.Sprintf(" order by %s limit %d", first, 1+r.Intn(3))
			lim = "limit"
		}
		st = atStmt{Kind: "delete", Table: t.Name, SQL: sql, Args: wargs, Feat: map[string]string{"stmt": "delete", "where": strings.Join(sortedKeys(ops), "+"), "limit": lim}}
	case kind < 8: // INSERT single/multi rows, literals/params/NULL
		st = atGenInsert(r, t, atStmtOpts{params: params, shuffleCols: r.Bool(), mixedArgs: r.Intn(3) == 0}, 1+r.Intn(4), &seq)
		st.Feat["where"] = ""
	case kind < 9:
		if nul := t.Uniq >= 0 && r.Intn(3) == 0; nul || r.Intn(3) == 0 {
			// with a secondary unique index: often NULL in its column in the first value group and a collision through
			// it in the second one
			st = atGenUpsertMulti(r, t, atStmtOpts{params: params, nullThenUqHit: nul}, &seq)
		} else {
			// every fourth one also assigns the key columns their inserted values: harmless when the duplicate is on the
			// primary key, a change of the primary key when the row is found through the secondary unique index
			st = atGenUpsert(r, t, atStmtOpts{params: params, assignPk: r.Intn(4) == 0 || (t.Uniq >= 0 && r.Bool())}, r.Intn(3) != 0, &seq)
		}
		st.Feat["where"] = ""
	default: // an UPDATE that changes the primary key: must be rejected
		first := t.Def.Cols[t.Def.PK[0]]
		w, wargs := pkWhere(t, t.Rows[r.Intn(len(t.Rows))], params)
		var nv interface{} = int64(777777)
		if first.T != mm.TInt {
			nv = "ZZZ"
		}
		var args []tval
		setv := sqlLit(nv)
		if params {
			setv = "?"
			args = append(args, tvOf(nv))
		}
		args = append(args, wargs...)
		colName := first.Name
		spelling := "exact"
		switch r.Intn(3) {
		case 1:
			colName, spelling = strings.ToUpper(colName), "upper"
		case 2:
			colName, spelling = "`"+colName+"`", "quoted"
		}
		st = atStmt{Kind: "update", Table: t.Name, SQL: fmt.Sprintf("update %s set %s = %s where %s", t.Name, colName, setv, w), Args: args,
			Feat: map[string]string{"stmt": "update-pk", "where": "cmp+and", "pk_spelling": spelling}}
	}
	c.Groups = []atGroup{{Explicit: r.Intn(4) == 0, Stmts: []atStmt{st}}}
	c.Feat["stmt"] = st.Feat["stmt"]
	c.Feat["where"] = st.Feat["where"]
	c.Feat["limit"] = st.Feat["limit"]
	if v := st.Feat["pk_spelling"]; v != "" {
		c.Feat["pk_spelling"] = v
	}
	c.Feat["params"] = fmt.Sprint(params)
	c.Feat["str_cols_in_where"] = fmt.Sprint(strCols)
	c.Feat["depth"] = fmt.Sprint(depth)
	c.Feat["literal_string"] = fmt.Sprint(!params && strings.Contains(st.SQL, "'"))
	c.DDL = []string{describeTable(t)}
	return c
}

func runC18(r *vc.Run, replay string) {
	r.Rule = "cases = one intercepted statement each: UPDATE / DELETE with WHERE trees (comparison, AND/OR, IN, BETWEEN, parentheses, depth 0-4, optional ORDER BY ... LIMIT) with bound parameters or literals at every position, INSERT with 1-4 rows (literals, parameters, NULL), upsert hit/miss, and primary-key-changing UPDATEs, over int / auto-increment / composite / varchar / 3-column keys, both only-care-update-columns settings; oracle = ground-truth matched/changed rows of the business command in the fake database's journal vs. the images read from the undo_log row with a plain JSON reader: changed rows ⊆ image rows ⊆ matched rows, field values exact, required columns present, pk-changing statements rejected; distinct_nontrivial = distinct feature signatures of cases whose statement changed at least one row and produced an undo log"
	r.Assumptions = []string{"json serializer without compression (the encoding itself is C08's subject)", "MySQL is harness/minimysql; its record of matched and changed rows is the ground truth"}
	n := 1200
	if r.Tier == "thorough" {
		n = 5000
	}
	if v := devN(); v > 0 {
		n = v
	}
	var wg sync.WaitGroup
	for i, oc := range []bool{true, false} {
		wg.Add(1)
		go func(i int, oc bool) {
			defer wg.Done()
			c18Batch(r, i, oc, n)
		}(i, oc)
	}
	wg.Wait()
}

func c18Batch(r *vc.Run, bi int, onlyCare bool, n int) {
	cfg := atUndoCfg{Serializer: "json", Compress: "None", Validation: true, OnlyCare: onlyCare}
	env, err := newATEnv(r, fmt.Sprintf("c18-%d", bi), cfg, false, "")
	if err != nil {
		r.Errorf("%v", err)
		return
	}
	defer env.Close()
	rnd := vc.NewRand(r.Seed, fmt.Sprintf("c18-%d", bi))
	for i := 0; i < n; i++ {
		c := c18GenCase(rnd, i, fmt.Sprintf("i%d_", bi), onlyCare)
		// the server's auto_increment_increment differs from case to case (it is a dynamic server variable)
		inc := []int64{1, 2, 1, 5, 3}[i%5]
		env.db.E.SetAutoIncIncrement(inc)
		c.Feat["auto_increment_increment"] = fmt.Sprint(inc)
		env.install(c)
		o := env.runGtx(c, "nil", nil)
		if o.CallErr != nil {
			if !env.ch.Alive() {
				c01Crash(r, env, c)
				return
			}
			r.Inconc(c.Name + ": " + o.CallErr.Error())
			r.Case("", nil)
			env.drop(c)
			continue
		}
		o.Journal = env.db.E.JournalSince(o.StartSeq)
		o.TCEvents = env.w.TC.EventsSince(o.StartSeq)
		c18Judge(r, env, c, o)
		env.sweep()
		env.drop(c)
		if i%50 == 49 {
			env.db.E.Truncate("undo_log")
		}
	}
}

func c18Judge(r *vc.Run, env *atEnv, c *atCase, o *atOutcome) {
	shape := c.shape()
	t := c.Tables[0]
	def := t.Def
	stmtFeat := c.Feat["stmt"]
	txs := atLocalTxs(o.Journal, o.TCEvents, o.Xid, map[string]bool{"proxied": true, "app": true})
	stepErr := ""
	for _, s := range o.Res.Steps {
		if s.Err != "" && stepErr == "" {
			stepErr = s.Err
		}
		if s.Panic != "" {
			stepErr = "PANIC " + s.Panic
		}
	}
	viol := func(clause, detail string) {
		r.Violate(&vc.Violation{Clause: clause, Shape: shape, Features: c.Feat, Detail: detail, Case: c,
			History: map[string]interface{}{"steps": o.Res.Steps, "events": o.history(120), "client_log_errors": env.logErrors(12)}})
	}
	// find the business statement in the journal
	var stmt *mm.JournalEntry
	var ltx *atLocalTx
	for _, tx := range txs {
		for _, s := range tx.Stmts {
			if strings.EqualFold(s.Table, t.Name) {
				stmt, ltx = s, tx
			}
		}
	}
	nontrivial := false
	defer func() {
		if nontrivial {
			r.Case(shape, map[string]interface{}{"case": c, "history": o.history(30)})
		} else {
			r.Case("", nil)
		}
	}()
	if stmtFeat == "update-pk" {
		// must be rejected: either it never reached the database, or it did not become durable with an image
		if stmt != nil && stmt.Err == nil && len(stmt.Changes) > 0 && ltx.Ended == "COMMIT" && stepErr == "" {
			viol("pk-change-accepted", "an UPDATE that changes the primary key was executed and committed instead of being rejected")
		}
		if stmt == nil || stepErr != "" {
			r.Count("pk_updates_rejected", 1)
		}
		return
	}
	if stmt == nil || stmt.Err != nil || stepErr != "" {
		// the statement was rejected (error to the caller): allowed by the property as long as nothing of it is durable
		r.Count("statements_rejected", 1)
		r.Count("rejected: "+errClass(stepErr), 1)
		if osGetenv("VERIF_DEV_REJ") != "" && strings.Contains(stepErr, osGetenv("VERIF_DEV_REJ")) {
			fmt.Printf("REJ %s :: %s :: %v\n", clipStr(stepErr, 100), c.Groups[0].Stmts[0].SQL, env.logErrors(4))
		}
		if stmt != nil && stmt.Err == nil && len(stmt.Changes) > 0 && ltx != nil && (ltx.Ended == "COMMIT" || ltx.Ended == "IMPLICIT") && len(ltx.Durable) > 0 {
			viol("rejected-but-durable", "the statement was answered with an error ("+clipStr(stepErr, 120)+") but its row changes became durable")
		}
		return
	}
	if len(stmt.Changes) == 0 {
		return // matched nothing / changed nothing: no image needed
	}
	for _, ch := range stmt.Changes {
		if ch.Before != nil && ch.After != nil && truthRowKey(def, ch.Before) != truthRowKey(def, ch.After) {
			r.Count("statements_that_moved_a_primary_key_accepted", 1)
			viol("pk-change-accepted", fmt.Sprintf("the statement moved a row from primary key %q to %q and was accepted (it must be rejected: the images cannot describe a row that changes its key)", strings.ReplaceAll(truthRowKey(def, ch.Before), "\x00", ","), strings.ReplaceAll(truthRowKey(def, ch.After), "\x00", ",")))
			return
		}
	}
	if ltx.Ended != "COMMIT" {
		viol("not-committed", fmt.Sprintf("the statement succeeded but its local transaction ended %q", ltx.Ended))
		return
	}
	if len(ltx.UndoIns) == 0 {
		viol("changed-rows-without-image", fmt.Sprintf("%d rows changed and were committed but no undo log was written", len(stmt.Changes)))
		return
	}
	u, err := parseUndoJSON(rollbackInfoOf(ltx.UndoIns[len(ltx.UndoIns)-1]))
	if err != nil {
		viol("undo-log-unreadable", "rollback_info is not the expected JSON: "+err.Error())
		return
	}
	var logs []imgUndo
	for _, l := range u.Logs {
		nb, na := 0, 0
		if l.BeforeImage != nil {
			nb = len(l.BeforeImage.Rows)
		}
		if l.AfterImage != nil {
			na = len(l.AfterImage.Rows)
		}
		if nb+na > 0 {
			logs = append(logs, l)
		}
	}
	if len(logs) == 0 {
		viol("changed-rows-without-image", fmt.Sprintf("one statement changed %d rows but the undo log holds no non-empty entry", len(stmt.Changes)))
		return
	}
	nontrivial = true
	r.Count("images_checked", 1)
	l := logs[0]
	if len(logs) > 1 {
		// a statement may be recorded as several items (an upsert that updated some rows and inserted others): the items
		// together must describe the changed rows, each row once
		r.Count("statements_recorded_as_several_undo_items", 1)
		l = imgUndo{SQLType: logs[0].SQLType, TableName: logs[0].TableName, BeforeImage: &imgRecord{TableName: logs[0].TableName}, AfterImage: &imgRecord{TableName: logs[0].TableName}}
		for _, x := range logs {
			if !strings.EqualFold(x.TableName, l.TableName) {
				viol("changed-rows-without-image", fmt.Sprintf("the items of one statement name different tables (%s, %s)", l.TableName, x.TableName))
				return
			}
			if x.BeforeImage != nil {
				l.BeforeImage.Rows = append(l.BeforeImage.Rows, x.BeforeImage.Rows...)
			}
			if x.AfterImage != nil {
				l.AfterImage.Rows = append(l.AfterImage.Rows, x.AfterImage.Rows...)
			}
		}
	}
	// ground truth
	changedPre := map[string][]interface{}{}
	changedPost := map[string][]interface{}{}
	for _, ch := range stmt.Changes {
		if ch.Before != nil {
			changedPre[truthRowKey(def, ch.Before)] = ch.Before
		}
		if ch.After != nil {
			changedPost[truthRowKey(def, ch.After)] = ch.After
		}
	}
	matchedPre := map[string][]interface{}{}
	for _, mr := range stmt.MatchedRows {
		matchedPre[truthRowKey(def, mr)] = mr
	}
	// required columns
	required := map[string]bool{}
	for _, p := range def.PK {
		required[strings.ToLower(def.Cols[p].Name)] = true
	}
	onlyCare := c.Feat["only_care"] == "true"
	if !onlyCare || stmt.Kind == "DELETE" {
		for _, col := range def.Cols {
			required[strings.ToLower(col.Name)] = true
		}
	} else {
		// SET list of an UPDATE / column list of an INSERT: taken from the statement text
		low := strings.ToLower(stmt.SQL)
		for _, col := range def.Cols {
			n := strings.ToLower(col.Name)
			if stmt.Kind == "UPDATE" {
				if i := strings.Index(low, " where "); i > 0 && strings.Contains(low[:i], n+" = ") {
					required[n] = true
				}
			} else if stmt.Kind == "INSERT" {
				if i := strings.Index(low, " values"); i > 0 && (strings.Contains(low[:i], "("+n+",") || strings.Contains(low[:i], " "+n+",") || strings.Contains(low[:i], " "+n+")") || strings.Contains(low[:i], "("+n+")")) {
					required[n] = true
				}
			}
		}
	}
	checkImage := func(which string, img *imgRecord, truth map[string][]interface{}, mustCover map[string][]interface{}, allowed map[string][]interface{}) {
		seen := map[string]bool{}
		var rows []imgRow
		if img != nil {
			rows = img.Rows
		}
		for _, row := range rows {
			key, ok := imgRowKey(def, row)
			if !ok {
				viol(which+"-image-without-pk", which+" image row lacks primary-key fields")
				return
			}
			if seen[key] {
				viol(which+"-image-duplicate-row", fmt.Sprintf("%s image holds row %q twice", which, strings.ReplaceAll(key, "\x00", ",")))
				return
			}
			seen[key] = true
			tr, ok := truth[key]
			if !ok {
				if allowed != nil {
					if ar, ok2 := allowed[key]; ok2 {
						tr, ok = ar, true
					}
				}
			}
			if !ok {
				viol(which+"-image-untouched-row", fmt.Sprintf("%s image contains row %q which the statement did not touch", which, strings.ReplaceAll(key, "\x00", ",")))
				return
			}
			have := map[string]bool{}
			for _, f := range row.Fields {
				ci := def.ColIndex(f.Name)
				if ci < 0 {
					viol(which+"-image-unknown-column", which+" image has a field for unknown column "+f.Name)
					return
				}
				n := strings.ToLower(def.Cols[ci].Name)
				if have[n] {
					viol(which+"-image-duplicate-field", fmt.Sprintf("%s image row %q lists column %s more than once", which, strings.ReplaceAll(key, "\x00", ","), n))
					return
				}
				have[n] = true
				if eq, why := imgValueEquals(f.Value, f.Type, tr[ci]); !eq {
					viol(which+"-image-wrong-value", fmt.Sprintf("%s image row %q column %s: %s", which, strings.ReplaceAll(key, "\x00", ","), n, why))
					return
				}
			}
			for n := range required {
				if !have[n] {
					viol(which+"-image-missing-column", fmt.Sprintf("%s image row %q lacks tracked column %s", which, strings.ReplaceAll(key, "\x00", ","), n))
					return
				}
			}
		}
		var missing []string
		for k := range mustCover {
			if !seen[k] {
				missing = append(missing, strings.ReplaceAll(k, "\x00", ","))
			}
		}
		sort.Strings(missing)
		if len(missing) > 0 {
			viol(which+"-image-missing-row", fmt.Sprintf("%s image lacks %d changed rows, e.g. %q (image has %d rows, statement changed %d)", which, len(missing), missing[0], len(rows), len(mustCover)))
		}
	}
	switch stmt.Kind {
	case "UPDATE":
		// post content of matched-but-unchanged rows equals their pre content
		checkImage("before", l.BeforeImage, changedPre, changedPre, matchedPre)
		postAllowed := map[string][]interface{}{}
		for k, v := range matchedPre {
			if _, ch := changedPre[k]; !ch {
				postAllowed[k] = v
			}
		}
		checkImage("after", l.AfterImage, changedPost, changedPost, postAllowed)
	case "DELETE":
		checkImage("before", l.BeforeImage, changedPre, changedPre, nil)
		if l.AfterImage != nil && len(l.AfterImage.Rows) > 0 {
			viol("after-image-untouched-row", "after image of a DELETE is not empty")
		}
	case "INSERT":
		// an upsert may name existing rows whose values it leaves as they are: such rows may appear in the images with
		// their (unchanged) content, which is what the table still holds for them
		var hitUnchanged map[string][]interface{}
		if len(stmt.Matched) > 0 && strings.Contains(strings.ToLower(stmt.SQL), "on duplicate key") {
			named := map[string]bool{}
			for _, k := range stmt.Matched {
				named[k] = true
			}
			hitUnchanged = map[string][]interface{}{}
			for _, row := range env.db.E.RowsTyped(t.Name) {
				k := truthRowKey(def, row)
				if _, ch := changedPost[k]; !ch && named[def.PKKey(row)] {
					hitUnchanged[k] = row
				}
			}
		}
		if len(changedPre) > 0 || len(hitUnchanged) > 0 {
			// upsert that hit an existing row: recorded as an update of that row
			checkImage("before", l.BeforeImage, changedPre, changedPre, hitUnchanged)
		} else if l.BeforeImage != nil && len(l.BeforeImage.Rows) > 0 {
			viol("before-image-untouched-row", "before image of an INSERT of new rows is not empty")
		}
		checkImage("after", l.AfterImage, changedPost, changedPost, hitUnchanged)
	}
}

func devN() int {
	var n int
	if v := osGetenv("VERIF_DEV_N"); v != "" {
		fmt.Sscanf(v, "%d", &n)
	}
	return n
}

// errClass reduces an error text to a coarse class for counters.
func errClass(e string) string {
	switch {
	case e == "":
		return "statement error at the database"
	case strings.Contains(e, "_UTF8MB4"):
		return "string literal rendered as _UTF8MB4... in the image query"
	case strings.Contains(e, "Named Parameters"):
		return "named parameters sent to the driver"
	case strings.Contains(e, "out of range"):
		return "value out of range for int64 scan"
	case strings.Contains(e, "PANIC"), strings.Contains(e, "panic"):
		return "panic"
	}
	if len(e) > 70 {
		e = e[:70]
	}
	return e
}
