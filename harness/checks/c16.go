package checks

import (
	"encoding/json"
	"fmt"
	"sort"
	"strings"
	"sync"
	"sync/atomic"
	"time"

	"verif/faketc"
	mm "verif/minimysql"
	"verif/vc"
	"verif/wire"
	"verif/world"
)

// C16 — the proxy driver is transparent apart from its transactional duties.
//
// Differential monitor: one generated statement program runs three times in the same client process — through the AT
// proxy, through the XA proxy and through the bare go-sql-driver — against three fake databases with identical
// content. Step results (rows, column names and types, affected counts, generated ids, error numbers and texts), the
// statement journals of the three databases, their final committed contents and the coordinator's request log are
// compared.

func init() {
	Registry["C16"] = Check{Level: "exploration", Fn: runC16}
}

type c16Prog struct {
	Name   string            `json:"name"`
	Tables []*atTable        `json:"-"`
	DDL    []string          `json:"tables"`
	Steps  []gtxStep         `json:"steps"`
	Feat   map[string]string `json:"features"`
	Mode   string            `json:"mode"`                  // outside | inside
	KillAt int               `json:"kill_idle_before_step"` // -1: never; else the pooled connections are closed by the server before this step
	// 0: never; n: the server executes the n-th business DML of the program and then loses the connection without
	// replying (the driver reports "invalid connection": sent, outcome unknown, not to be repeated)
	LoseAfterDML int `json:"connection_lost_after_dml,omitempty"`
}

func runC16(r *vc.Run, replay string) {
	r.Rule = "programs = sequences of queries, DML (INSERT with table-order or shuffled column lists, UPDATE, DELETE, single- and multi-row INSERT ... ON DUPLICATE KEY UPDATE; literal and bound arguments, duplicate keys, syntax errors, unknown tables), prepared statements (exec/query reuse, close), explicit local transactions (default / isolation level / read-only options; commit or rollback), pinned connections, multi-statement texts and DDL (create/alter/drop); each program runs through the AT proxy, the XA proxy and the bare driver on identical databases, with interpolated parameters and (outside global transactions) with the driver's default server-side parameters, optionally with the server closing idle pooled connections in between; mixed programs: a dedicated connection used inside a global transaction (local commit / rollback, statement prepared there) and afterwards outside it; outside a global transaction: identical statement journal (text, arguments, order), identical step results, no coordinator traffic; inside a global transaction (AT, committed): identical business statement results and identical committed data, business statements reach the database in the same order; distinct_nontrivial = distinct (mode, proxy, step kinds, dsn flavour) signatures"
	r.Assumptions = []string{"error values are compared by MySQL error number and text", "undo_log statements (the asynchronous commit worker deletes the logs of earlier global transactions at its own pace) and metadata lookups are transactional duties and are left out of the journal comparison", "statements the proxy issues when a connection is first opened (SELECT VERSION() and the like) are outside the compared window only if they precede the first program on that pool"}
	n := 600
	if r.Tier == "thorough" {
		n = 2500
	}
	if v := devN(); v > 0 {
		n = v
	}
	var wg sync.WaitGroup
	// one batch with interpolateParams=true (as every DSN in seata-go's documentation, samples and tests), one with
	// the driver's default (bound arguments travel through server-side prepared statements)
	for bi, interp := range []bool{true, false} {
		wg.Add(1)
		go func(bi int, interp bool) {
			defer wg.Done()
			c16Batch(r, bi, interp, n/2)
		}(bi, interp)
	}
	wg.Wait()
}

type c16Env struct {
	w    *world.World
	dbs  map[string]*world.DB // at, xa, bare
	ch   *vc.Child
	name string
}

func c16Batch(r *vc.Run, bi int, interp bool, n int) {
	w, err := world.New(r)
	if err != nil {
		r.Errorf("%v", err)
		return
	}
	defer w.Close()
	env := &c16Env{w: w, dbs: map[string]*world.DB{}, name: fmt.Sprintf("c16-%d", bi)}
	extra := "parseTime=true&multiStatements=true"
	if interp {
		extra += "&interpolateParams=true"
	}
	var specs []world.DBSpec
	for _, k := range []string{"at", "xa", "bare"} {
		db := w.NewDB(k)
		db.CreateUndoLog()
		// a server that detaches a prepared XA branch from its session (8.0.29+): the connection is the application's
		// again as soon as phase one is over
		db.E.Version = "8.0.32"
		env.dbs[k] = db
		driver := map[string]string{"at": "seata-at-mysql", "xa": "seata-xa-mysql", "bare": "mysql"}[k]
		specs = append(specs, world.DBSpec{Name: k, Driver: driver, DSN: db.DSN("app", extra), MaxOpen: 4, Class: "prog"})
		if interp {
			// the same database opened a second time by the same process with another option of the driver
			specs = append(specs, world.DBSpec{Name: k + "2", Driver: driver, DSN: db.DSN("app", extra+"&clientFoundRows=true"), MaxOpen: 2, Class: "prog"})
		}
	}
	ch, err := w.StartClient(env.name, r.Tier == "thorough", world.InitArg{DBs: specs}, nil)
	if err != nil {
		r.Errorf("%v", err)
		return
	}
	env.ch = ch
	defer ch.Kill()
	if err := ch.Call("set_undo", atUndoCfg{Serializer: "json", Compress: "None", Validation: true, OnlyCare: true}, nil); err != nil {
		r.Errorf("set_undo: %v", err)
		return
	}
	rnd := vc.NewRand(r.Seed, fmt.Sprintf("c16-%d", bi))
	// warm-up: every pool opens its connections and performs its one-time initialisation
	warm := &c16Prog{Name: fmt.Sprintf("w%d", bi), Mode: "outside", KillAt: -1, Feat: map[string]string{}}
	wt := atGenTable(rnd, fmt.Sprintf("w%d_t", bi), "int", []string{"int"}, 1, 2, false)
	warm.Tables = []*atTable{wt}
	warm.Steps = []gtxStep{{Op: "query", DB: "X", SQL: "select id from " + wt.Name + " order by id"}, {Op: "exec", DB: "X", SQL: "update " + wt.Name + " set c0 = 1 where id = 1"}}
	c16Install(env, warm)
	for _, k := range []string{"at", "xa", "bare"} {
		c16Run(env, warm, k)
	}
	c16Drop(env, warm)
	for i := 0; i < n; i++ {
		// server-side parameters: only outside a global transaction (inside one, prepared statements are finding C16-K2)
		p := c16Gen(rnd, fmt.Sprintf("p%d_%04d", bi, i), i, interp)
		p.Feat["dsn"] = map[bool]string{true: "interpolate", false: "server-side-params"}[interp]
		runs := map[string]*c16RunResult{}
		proxies := []string{"at", "xa"}
		if p.Mode == "inside" {
			proxies = []string{"at"}
		}
		c16Install(env, p)
		for _, k := range append([]string{"bare"}, proxies...) {
			t0 := time.Now()
			runs[k] = c16Run(env, p, k)
			if d := time.Since(t0); d > 2*time.Second && osGetenv("VERIF_VERBOSE") != "" {
				fmt.Printf("SLOW %s %s %v kinds=%s mode=%s\n", p.Name, k, d, p.Feat["kinds"], p.Mode)
			}
		}
		c16Drop(env, p)
		if !ch.Alive() {
			txt, _, _ := ch.PanicInfo()
			r.Violate(&vc.Violation{Clause: "client-crash", Shape: "crash", Detail: "the client process died while running a program through the proxies: " + clipStr(txt, 600), Case: p})
			return
		}
		for _, k := range proxies {
			c16Judge(r, env, p, k, runs[k], runs["bare"])
		}
	}
	if interp {
		c16SecondHandles(r, env, rnd, bi)
		nm := 30
		if r.Tier == "thorough" {
			nm = 200
		}
		for i := 0; i < nm && ch.Alive(); i++ {
			c16Mixed(r, env, rnd, fmt.Sprintf("m%d_%04d", bi, i))
		}
	}
}

// c16Mixed: one dedicated connection (db.Conn) is first used inside a global transaction (a local transaction that is
// committed or rolled back) and afterwards, with the global transaction over, for ordinary statements. From the mark
// on the proxies must again behave exactly like the bare driver: same statements, same results, no coordinator
// traffic. Also with a statement prepared inside the global transaction and executed after it.
func c16Mixed(r *vc.Run, env *c16Env, rnd *vc.Rand, name string) {
	t := atGenTable(rnd, name+"_a", []string{"autoinc", "int", "varchar"}[rnd.Intn(3)], []string{"int", "bigint", "varchar", "double"}, 3, 4, false)
	p := &c16Prog{Name: name, Mode: "mixed", Tables: []*atTable{t}, Feat: map[string]string{"mode": "mixed"}, KillAt: -1}
	seq := 0
	o := atStmtOpts{params: true, rowsClass: "1"}
	u := atGenUpdate(rnd, t, o)
	var inner []gtxStep
	end := []string{"commit", "rollback"}[rnd.Intn(2)]
	switch rnd.Intn(3) {
	case 0:
		// a statement-scoped (autocommit) statement that fails: a duplicate of an existing key
		row := t.Rows[rnd.Intn(len(t.Rows))]
		var cols, vals []string
		for ci, c := range t.Def.Cols {
			cols = append(cols, c.Name)
			vals = append(vals, sqlLit(row[ci]))
		}
		inner = []gtxStep{{Op: "exec", DB: "X", SQL: fmt.Sprintf("insert into %s (%s) values (%s)", t.Name, strings.Join(cols, ", "), strings.Join(vals, ", "))}}
		end = "autocommit-failing"
	case 1:
		inner = []gtxStep{{Op: "exec", DB: "X", SQL: u.SQL, Args: u.Args}}
		end = "autocommit"
	default:
		inner = []gtxStep{{Op: "begin", DB: "X"}, {Op: "exec", DB: "X", SQL: u.SQL, Args: u.Args}, {Op: end}}
	}
	outcome := []string{"nil", "error"}[rnd.Intn(2)]
	withStmt := rnd.Intn(3) == 0
	vc0 := t.Def.Cols[t.valueCols()[0]].Name
	w, wargs := pkWhere(t, t.Rows[rnd.Intn(len(t.Rows))], true)
	if withStmt {
		inner = append([]gtxStep{{Op: "prepare", DB: "X", Stmt: "s1", SQL: fmt.Sprintf("update %s set %s = %s where %s", t.Name, vc0, vc0, w)}}, inner...)
	}
	var after []gtxStep
	for k := 0; k < 1+rnd.Intn(2); k++ {
		var st atStmt
		switch rnd.Intn(3) {
		case 0:
			st = atGenUpdate(rnd, t, atStmtOpts{params: true, rowsClass: []string{"1", "many"}[rnd.Intn(2)]})
		case 1:
			st = atGenDelete(rnd, t, o)
		default:
			st = atGenInsert(rnd, t, o, 1, &seq)
		}
		after = append(after, gtxStep{Op: "exec", DB: "X", SQL: st.SQL, Args: st.Args})
	}
	if rnd.Bool() {
		// ... inside an explicit local transaction
		after = append(append([]gtxStep{{Op: "begin", DB: "X"}}, after...), gtxStep{Op: []string{"commit", "rollback"}[rnd.Intn(2)]})
		p.Feat["after_part"] = "local-tx"
	} else {
		p.Feat["after_part"] = "autocommit"
	}
	if rnd.Bool() {
		after = append(after, gtxStep{Op: "query", DB: "X", SQL: fmt.Sprintf("select * from %s where %s for update", t.Name, w), Args: wargs})
	}
	if withStmt {
		after = append(after, gtxStep{Op: "stmt_exec", Stmt: "s1", Args: wargs})
	}
	p.Feat["gtx_part"] = end + "/" + outcome
	p.Feat["prepared_inside"] = fmt.Sprint(withStmt)
	c16Install(env, p)
	defer c16Drop(env, p)
	type run struct {
		res     scopeResult
		err     error
		journal []string
		tc      []string
		p2      int32 // branches that were sent a phase-two request before the global transaction ended
	}
	runs := map[string]*run{}
	for _, k := range []string{"bare", "at", "xa"} {
		bind := func(in []gtxStep) []gtxStep {
			var o []gtxStep
			for _, s := range in {
				if s.DB == "X" {
					s.DB = k
				}
				o = append(o, s)
			}
			return o
		}
		cs := name + "_" + k
		steps := []gtxStep{{Op: "conn_pin", DB: k}}
		steps = append(steps, gtxStep{Op: "scope", Scope: &gtxScope{Name: cs, TimeoutMs: 60000, Outcome: outcome, Label: k + "-gtx", ShareConn: true, Steps: bind(inner)}})
		steps = append(steps, gtxStep{Op: "mark", What: "c16-after-gtx"})
		steps = append(steps, bind(after)...)
		steps = append(steps, gtxStep{Op: "conn_release"})
		rr := &run{}
		runs[k] = rr
		// like the real coordinator for XA branches, phase two is delivered before the global commit / rollback is
		// answered: when the business function returns, the global transaction is over at the database too (a branch
		// that is still prepared would hide its rows from the statements that follow)
		var driven int32
		env.w.TC.AddRule(&faketc.Rule{Name: "c16-mixed", Match: func(q *faketc.Req) bool {
			return q.TxName == cs && (q.Msg.Type == wire.TGlobalCommit || q.Msg.Type == wire.TGlobalRollback)
		}, Do: func(q *faketc.Req) bool {
			atomic.StoreInt32(&driven, 1)
			go func() {
				// a branch that ended in phase one (failed statement, local rollback) has nothing prepared; the XA
				// manager does not answer a phase-two request for it (observation in DESIGN.md), so do not wait long
				wait := 20 * time.Second
				if end == "autocommit-failing" || end == "rollback" {
					wait = 1500 * time.Millisecond
				}
				p2 := env.w.TC.DrivePhaseTwoReported(q.Xid, q.Msg.Type == wire.TGlobalCommit, wait)
				for _, x := range p2 {
					if x.Resp == nil {
						r.Count(fmt.Sprintf("mixed: phase two (%s, commit=%v, gtx_part=%s) not answered", k, q.Msg.Type == wire.TGlobalCommit, p.Feat["gtx_part"]), 1)
					}
				}
				atomic.StoreInt32(&rr.p2, int32(len(p2)))
				q.ReplyDefault()
			}()
			return true
		}})
		rr.err = env.ch.Call("gtx", &gtxScope{Case: cs, Name: cs, TimeoutMs: 60000, Outcome: "nil", Label: k, NoGtx: true, Steps: steps}, &rr.res)
		env.w.TC.ClearRules()
		var markSeq int64 = -1
		for _, m := range env.w.Marks.Of(cs) {
			if m.What == "c16-after-gtx" {
				markSeq = m.Seq
			}
		}
		if rr.err != nil || markSeq < 0 {
			r.Inconc(fmt.Sprintf("%s: mixed program did not reach its mark (%v)", cs, rr.err))
			r.Case("", nil)
			return
		}
		for _, j := range env.dbs[k].E.JournalSince(markSeq) {
			if strings.HasPrefix(strings.ToUpper(j.SQL), "SET @VERIF_CLASS") || j.Kind == "INFOSCHEMA" || j.Kind == "SHOW" || strings.EqualFold(j.Table, "undo_log") || strings.Contains(strings.ToLower(j.SQL), " undo_log") || strings.EqualFold(strings.TrimSpace(j.SQL), "SELECT VERSION()") {
				continue
			}
			rr.journal = append(rr.journal, c16Render(j))
		}
		for _, ev := range env.w.TC.EventsSince(markSeq) {
			if ev.Dir != "in" || ev.FType == wire.FrameResponse || ev.Type == "ping" || strings.Contains(strings.ToLower(ev.Type), "heartbeat") {
				continue
			}
			rr.tc = append(rr.tc, ev.Type)
		}
		// finish the global transaction of this run at the coordinator (phase two), outside the compared window
		if x := rr.res; atomic.LoadInt32(&driven) == 0 && len(x.Steps) > 1 && x.Steps[1].Scope != nil && x.Steps[1].Scope.XidIn != "" {
			env.w.TC.DrivePhaseTwo(x.Steps[1].Scope.XidIn, outcome == "nil", 1, 0)
		}
		// the three databases must start the next run alike: bring the tables back
		for _, tt := range p.Tables {
			env.dbs[k].E.Truncate(tt.Name)
			env.dbs[k].E.Load(tt.Name, tt.Rows)
		}
	}
	want := runs["bare"]
	for _, k := range []string{"at", "xa"} {
		got := runs[k]
		feat := map[string]string{"proxy": k, "mode": "mixed", "gtx_part": p.Feat["gtx_part"], "prepared_inside": p.Feat["prepared_inside"], "after_part": p.Feat["after_part"]}
		shape := featShape(feat)
		r.Case(shape, map[string]interface{}{"program": p, "proxy": k, "after_gtx_proxy": clipList(got.journal, 20), "after_gtx_bare": clipList(want.journal, 20)})
		viol := func(clause, detail string) {
			r.Violate(&vc.Violation{Clause: clause, Shape: shape, Features: feat, Detail: detail, Case: map[string]interface{}{"inside": inner, "after": after, "table": describeTable(t)},
				History: map[string]interface{}{"proxy_steps": got.res.Steps, "bare_steps": want.res.Steps, "proxy_journal_after_gtx": got.journal, "bare_journal_after_gtx": want.journal, "coordinator_requests_after_gtx": got.tc}})
		}
		// the connection of the application closed under it by phase two: the first statement afterwards is refused
		// with "bad connection" where the bare driver executes it
		if k == "xa" && atomic.LoadInt32(&got.p2) > 0 {
			closed := false
			for i := 3; i < len(got.res.Steps) && i < len(want.res.Steps); i++ {
				a, b := got.res.Steps[i], want.res.Steps[i]
				if a.Op == "conn_release" {
					break
				}
				if a.Err == "" && a.Panic == "" {
					break
				}
				if b.Err == "" && (strings.Contains(a.Err, "bad connection") || strings.Contains(a.Err, "connection is already closed")) {
					closed = true
				}
				break
			}
			if closed {
				viol("dedicated-conn-closed-by-phase-two", fmt.Sprintf("a dedicated connection (sql.Conn) ran an XA branch inside a global transaction; once phase two of that branch was done the connection was closed under the application: the first statement after the global transaction failed with %q, the bare driver executed it", clipStr(got.res.Steps[3].Err, 120)))
				continue
			}
		}
		if strings.Join(got.journal, "\n") != strings.Join(want.journal, "\n") {
			viol("journal-differs", fmt.Sprintf("on a dedicated connection that had been used inside a global transaction, the statements reaching the database afterwards differ from the bare driver's: %d vs %d, first proxied %q", len(got.journal), len(want.journal), clipStr(strings.Join(clipList(got.journal, 2), " ; "), 300)))
			continue
		}
		if len(got.tc) > 0 {
			viol("coordinator-traffic-outside", fmt.Sprintf("after the global transaction was over, statements on the same dedicated connection caused coordinator requests: %v", got.tc))
			continue
		}
		for i := 3; i < len(got.res.Steps) && i < len(want.res.Steps); i++ {
			a, b := got.res.Steps[i], want.res.Steps[i]
			if (a.Err == "") != (b.Err == "") || a.Affected != b.Affected || len(a.Rows) != len(b.Rows) {
				viol("result-differs", fmt.Sprintf("step %d (%s) after the global transaction: proxied err=%q affected=%d rows=%d, bare err=%q affected=%d rows=%d", i, a.Op, clipStr(a.Err, 100), a.Affected, len(a.Rows), clipStr(b.Err, 100), b.Affected, len(b.Rows)))
				break
			}
		}
	}
}

// c16SecondHandles: the process has opened every database a second time with clientFoundRows=true. Programs of
// autocommit statements, among them UPDATEs that leave a matched row as it is (the option changes their affected
// count), run through the second handles outside any global transaction: the proxies' second handles must behave like
// the bare driver's second handle.
func c16SecondHandles(r *vc.Run, env *c16Env, rnd *vc.Rand, bi int) {
	n := 12
	if r.Tier == "thorough" {
		n = 60
	}
	for i := 0; i < n && env.ch.Alive(); i++ {
		p := c16Gen(rnd, fmt.Sprintf("h%d_%04d", bi, i), 0, false)
		p.LoseAfterDML, p.KillAt = 0, -1
		t := p.Tables[0]
		for k := 0; k < 2; k++ {
			row := t.Rows[rnd.Intn(len(t.Rows))]
			w, wargs := pkWhere(t, row, true)
			vc0 := t.Def.Cols[t.valueCols()[0]].Name
			p.Steps = append(p.Steps, gtxStep{Op: "exec", DB: "X", SQL: fmt.Sprintf("update %s set %s = %s where %s", t.Name, vc0, vc0, w), Args: wargs})
		}
		p.Feat["dsn"] = "second-handle(clientFoundRows)"
		p.Feat["kinds"] = strings.TrimPrefix(p.Feat["kinds"]+"+update-same-value", "+")
		runs := map[string]*c16RunResult{}
		c16Install(env, p)
		for _, k := range []string{"bare2", "at2", "xa2"} {
			runs[k] = c16Run(env, p, k)
		}
		c16Drop(env, p)
		if !env.ch.Alive() {
			return
		}
		for _, k := range []string{"at2", "xa2"} {
			c16Judge(r, env, p, k, runs[k], runs["bare2"])
		}
	}
}

type c16RunResult struct {
	Res      scopeResult
	CallErr  error
	Journal  []string // normalised statement journal of the program's connections
	Business []string // DML / DDL subsequence
	Snap     map[string]map[string]string
	TC       []string
	Raw      []string
}

func c16Render(j *mm.JournalEntry) string {
	s := strings.Join(strings.Fields(j.SQL), " ")
	if len(j.Args) > 0 {
		var as []string
		for _, a := range j.Args {
			as = append(as, mm.TextOf(a))
		}
		s += " ARGS[" + strings.Join(as, "|") + "]"
	}
	if j.Prepared {
		s += " (prepared)"
	}
	return s
}

// the same tables exist in all three databases while a program runs: seata-go keeps one table-metadata cache per
// database type and reads it through whichever data source registered last (observation recorded in DESIGN.md)
func c16Install(env *c16Env, p *c16Prog) {
	for _, db := range env.dbs {
		for _, t := range p.Tables {
			def := *t.Def
			def.Cols = append([]mm.Column{}, t.Def.Cols...)
			db.E.CreateTable(&def)
			db.E.Load(t.Name, t.Rows)
		}
	}
}

func c16Drop(env *c16Env, p *c16Prog) {
	for _, db := range env.dbs {
		for _, t := range p.Tables {
			db.E.DropTable(t.Name)
		}
		for _, extra := range strings.Fields(p.Feat["created_tables"]) {
			db.E.DropTable(extra)
		}
	}
}

// c16Run executes p with alias X bound to database k and collects the observations.
func c16Run(env *c16Env, p *c16Prog, k string) *c16RunResult {
	db := env.dbs[strings.TrimSuffix(k, "2")] // "at2" ...: a second handle on the same database
	out := &c16RunResult{}
	start := env.w.Clock.Now()
	bind := func(steps []gtxStep) []gtxStep {
		var o []gtxStep
		for _, s := range steps {
			if s.DB == "X" {
				s.DB = k
			}
			o = append(o, s)
		}
		return o
	}
	parts := [][]gtxStep{p.Steps}
	if p.KillAt > 0 && p.KillAt < len(p.Steps) {
		parts = [][]gtxStep{p.Steps[:p.KillAt], p.Steps[p.KillAt:]}
	}
	if p.LoseAfterDML > 0 {
		var imu sync.Mutex
		seen := 0
		db.E.Inject = func(j *mm.JournalEntry) *mm.Action {
			// the target table is not known yet when the command arrives: kind and text only
			if (j.Kind != "INSERT" && j.Kind != "UPDATE" && j.Kind != "DELETE") || strings.Contains(strings.ToLower(j.SQL), "undo_log") {
				return nil
			}
			imu.Lock()
			defer imu.Unlock()
			seen++
			if seen == p.LoseAfterDML {
				return &mm.Action{DropAfter: true}
			}
			return nil
		}
		defer func() { db.E.Inject = nil }()
	}
	for pi, part := range parts {
		if pi > 0 {
			db.S.KillAll(nil) // the server closes every connection of the pool while it is idle
		}
		sc := &gtxScope{Case: p.Name, Name: p.Name + "_" + k, TimeoutMs: 60000, Outcome: "nil", Label: k, NoGtx: p.Mode == "outside", Steps: bind(part)}
		var res scopeResult
		if err := env.ch.Call("gtx", sc, &res); err != nil {
			out.CallErr = err
			break
		}
		if pi == 0 {
			out.Res = res
		} else {
			out.Res.Steps = append(out.Res.Steps, res.Steps...)
			if res.Returned != "nil" {
				out.Res.Returned, out.Res.Err = res.Returned, res.Err
			}
		}
	}
	if p.Mode == "inside" && out.Res.XidIn != "" {
		env.w.TC.DrivePhaseTwo(out.Res.XidIn, true, 1, 0)
	}
	for _, j := range db.E.JournalSince(start) {
		line := c16Render(j)
		if j.Injected == "drop-after" {
			line += " [lost]"
		}
		out.Raw = append(out.Raw, fmt.Sprintf("c%d(%s) %s | %s", j.Conn, j.Class, j.Kind, clipStr(line, 200)))
		// every connection of the process counts; the proxies' metadata lookups are not business traffic
		if strings.HasPrefix(strings.ToUpper(j.SQL), "SET @VERIF_CLASS") || j.Kind == "INFOSCHEMA" || j.Kind == "SHOW" || strings.EqualFold(j.Table, "undo_log") || strings.Contains(strings.ToLower(j.SQL), " undo_log") || strings.EqualFold(strings.TrimSpace(j.SQL), "SELECT VERSION()") {
			continue
		}
		out.Journal = append(out.Journal, line)
		switch j.Kind {
		case "INSERT", "UPDATE", "DELETE":
			if isAppTable(j.Table) {
				out.Business = append(out.Business, line)
			}
		case "CREATE_TABLE", "DROP_TABLE", "ALTER_TABLE", "TRUNCATE":
			out.Business = append(out.Business, line)
		}
	}
	for _, ev := range env.w.TC.EventsSince(start) {
		// requests of the client only: answers to the coordinator's own (phase-two) requests of earlier programs may
		// still be arriving
		if ev.Dir != "in" || ev.FType == wire.FrameResponse || ev.Type == "ping" || ev.Type == "HeartbeatMessage" || strings.Contains(strings.ToLower(ev.Type), "heartbeat") {
			continue
		}
		out.TC = append(out.TC, ev.Type)
	}
	out.Snap = map[string]map[string]string{}
	names := map[string]bool{}
	for _, t := range p.Tables {
		names[t.Name] = true
	}
	for _, extra := range strings.Fields(p.Feat["created_tables"]) {
		names[extra] = true
	}
	for n := range names {
		out.Snap[n] = db.E.SnapshotTable(n)
	}
	return out
}

// ---- generator ----

func c16Gen(r *vc.Rand, name string, idx int, insideToo bool) *c16Prog {
	p := &c16Prog{Name: name, Feat: map[string]string{}, KillAt: -1}
	p.Mode = "outside"
	if idx%3 == 2 && insideToo {
		p.Mode = "inside"
	}
	vkinds := []string{"int", "bigint", "varchar", "double", "datetime"}
	if p.Mode == "outside" {
		// values the AT image builder refuses (unsigned 64-bit above the signed range) only where no image is built
		vkinds = append(vkinds, "ubigint")
	}
	t := atGenTable(r, name+"_a", []string{"autoinc", "int", "varchar"}[r.Intn(3)], vkinds, 3, 4, true)
	p.Tables = []*atTable{t}
	p.DDL = []string{describeTable(t)}
	kinds := map[string]bool{}
	seq := 0
	var steps []gtxStep
	add := func(kind string, s ...gtxStep) {
		kinds[kind] = true
		steps = append(steps, s...)
	}
	params := func() bool { return r.Bool() }
	dml := func() gtxStep {
		o := atStmtOpts{params: params(), rowsClass: []string{"1", "many", "0"}[r.Intn(3)]}
		var st atStmt
		switch r.Intn(6) {
		case 0:
			st = atGenUpdate(r, t, o)
		case 1:
			st = atGenDelete(r, t, o)
		case 2:
			o.shuffleCols = r.Bool()
			st = atGenInsert(r, t, o, 1+r.Intn(2), &seq)
		case 3:
			st = atGenInsert(r, t, o, 1, &seq)
		case 4:
			st = atGenUpsert(r, t, o, r.Bool(), &seq)
		default:
			st = atGenUpsertMulti(r, t, o, &seq)
		}
		return gtxStep{Op: "exec", DB: "X", SQL: st.SQL, Args: st.Args}
	}
	query := func() gtxStep {
		where, args, _ := atGenWhere(r, t, atStmtOpts{params: params(), rowsClass: []string{"1", "many", "0"}[r.Intn(3)]})
		cols := "*"
		if r.Bool() {
			cols = strings.Join(t.pkCols(), ", ") + ", " + t.Def.Cols[t.valueCols()[0]].Name
		}
		return gtxStep{Op: "query", DB: "X", SQL: fmt.Sprintf("select %s from %s where %s order by %s", cols, t.Name, where, strings.Join(t.pkCols(), ", ")), Args: args}
	}
	nsteps := 2 + r.Intn(5)
	for len(steps) < nsteps {
		choice := r.Intn(12)
		if p.Mode == "inside" && (choice == 8 || choice == 9) {
			choice = r.Intn(4) // DDL, multi-statement and option transactions are exercised outside
		}
		switch choice {
		case 0, 1:
			add("dml", dml())
		case 2:
			add("query", query())
		case 3: // duplicate key / errors
			switch r.Intn(3) {
			case 0:
				row := t.Rows[r.Intn(len(t.Rows))]
				var cols, vals []string
				for ci, c := range t.Def.Cols {
					cols = append(cols, c.Name)
					vals = append(vals, sqlLit(row[ci]))
				}
				add("dup-key", gtxStep{Op: "exec", DB: "X", SQL: fmt.Sprintf("insert into %s (%s) values (%s)", t.Name, strings.Join(cols, ", "), strings.Join(vals, ", "))})
			case 1:
				add("syntax-error", gtxStep{Op: "exec", DB: "X", SQL: "updat " + t.Name + " set x = 1"})
			default:
				add("unknown-table", gtxStep{Op: "query", DB: "X", SQL: "select * from " + name + "_nope where id = 1"})
			}
		case 4, 5: // explicit local transaction
			b := gtxStep{Op: "begin", DB: "X"}
			kind := "tx"
			if p.Mode == "outside" {
				switch r.Intn(4) {
				case 0:
					b.Isolation = []int{2, 4, 6}[r.Intn(3)] // read committed, repeatable read, serializable
					kind = "tx-isolation"
				case 1:
					b.ReadOnly = true
					kind = "tx-readonly"
				}
			}
			add(kind, b)
			for k := 0; k < 1+r.Intn(3); k++ {
				if r.Intn(3) == 0 {
					steps = append(steps, query())
				} else {
					steps = append(steps, dml())
				}
			}
			if r.Intn(3) == 0 {
				add("tx-rollback", gtxStep{Op: "rollback"})
			} else {
				add("tx-commit", gtxStep{Op: "commit"})
			}
		case 6: // prepared statement reused
			pkc := t.pkCols()[0]
			vc0 := t.Def.Cols[t.valueCols()[0]]
			if r.Bool() {
				add("prepared-query", gtxStep{Op: "prepare", DB: "X", Stmt: "q", SQL: fmt.Sprintf("select * from %s where %s = ?", t.Name, pkc)})
				for k := 0; k < 2; k++ {
					row := t.Rows[r.Intn(len(t.Rows))]
					steps = append(steps, gtxStep{Op: "stmt_query", Stmt: "q", Args: []tval{tvOf(row[t.Def.PK[0]])}})
				}
				steps = append(steps, gtxStep{Op: "stmt_close", Stmt: "q"})
			} else {
				add("prepared-exec", gtxStep{Op: "prepare", DB: "X", Stmt: "e", SQL: fmt.Sprintf("update %s set %s = ? where %s = ?", t.Name, vc0.Name, pkc)})
				for k := 0; k < 2; k++ {
					row := t.Rows[r.Intn(len(t.Rows))]
					steps = append(steps, gtxStep{Op: "stmt_exec", Stmt: "e", Args: []tval{tvOf(atColKinds[t.Kinds[t.valueCols()[0]]].gen(r)), tvOf(row[t.Def.PK[0]])}})
				}
				steps = append(steps, gtxStep{Op: "stmt_close", Stmt: "e"})
			}
		case 7: // pinned connection
			add("pinned-conn", gtxStep{Op: "conn_pin", DB: "X"}, dml(), query(), gtxStep{Op: "conn_release"})
		case 8: // multi-statement text
			a, b := dml(), dml()
			if len(a.Args) == 0 && len(b.Args) == 0 {
				add("multi-statement", gtxStep{Op: "exec", DB: "X", SQL: a.SQL + "; " + b.SQL})
			}
		case 9: // DDL
			nt := name + "_ddl"
			p.Feat["created_tables"] = nt
			add("ddl", gtxStep{Op: "exec", DB: "X", SQL: fmt.Sprintf("create table %s (id bigint not null, v varchar(32), primary key (id))", nt)},
				gtxStep{Op: "exec", DB: "X", SQL: fmt.Sprintf("insert into %s (id, v) values (?, ?)", nt), Args: []tval{tvOf(int64(1)), tvOf("one")}},
				gtxStep{Op: "exec", DB: "X", SQL: fmt.Sprintf("alter table %s add column w int", nt)},
				gtxStep{Op: "exec", DB: "X", SQL: fmt.Sprintf("update %s set w = 5 where id = 1", nt)},
				gtxStep{Op: "query", DB: "X", SQL: fmt.Sprintf("select id, v, w from %s order by id", nt)})
			if r.Bool() {
				steps = append(steps, gtxStep{Op: "exec", DB: "X", SQL: "drop table " + nt})
			}
		case 10:
			w, wargs := pkWhere(t, t.Rows[0], true)
			add("select-for-update", gtxStep{Op: "begin", DB: "X"}, gtxStep{Op: "query", SQL: fmt.Sprintf("select * from %s where %s for update", t.Name, w), Args: wargs}, gtxStep{Op: "commit"})
		case 11:
			if r.Intn(3) == 0 {
				w, wargs := pkWhere(t, t.Rows[0], true)
				add("autocommit-select-for-update", gtxStep{Op: "query", DB: "X", SQL: fmt.Sprintf("select * from %s where %s for update", t.Name, w), Args: wargs})
			} else if p.KillAt < 0 && len(steps) > 0 {
				p.KillAt = len(steps)
				kinds["server-closes-idle-connections"] = true
			}
		}
	}
	if p.Mode == "outside" && r.Intn(8) == 0 {
		p.LoseAfterDML = 1 + r.Intn(3)
		kinds["connection-lost-after-statement"] = true
	}
	p.Steps = steps
	var ks []string
	for k := range kinds {
		ks = append(ks, k)
	}
	sort.Strings(ks)
	p.Feat["kinds"] = strings.Join(ks, "+")
	p.Feat["mode"] = p.Mode
	p.Feat["pk"] = t.PKKind
	return p
}

// ---- judge ----

// c16InLocalTx: is step i between a begin and its commit/rollback?
func c16InLocalTx(steps []gtxStep, i int) bool {
	in := false
	for k := 0; k < i && k < len(steps); k++ {
		switch steps[k].Op {
		case "begin":
			in = true
		case "commit", "rollback":
			in = false
		}
	}
	return in
}

func c16StepSig(s stepResult) string {
	b, _ := json.Marshal(struct {
		Err      string
		ErrNo    int
		Panic    string
		Affected int64
		LastID   int64
		Cols     []string
		ColTypes []string
		Rows     [][]tval
	}{s.Err, s.ErrNo, s.Panic, s.Affected, s.LastID, s.Cols, s.ColTypes, s.Rows})
	return string(b)
}

func c16Judge(r *vc.Run, env *c16Env, p *c16Prog, k string, got, want *c16RunResult) {
	feat := map[string]string{"proxy": k}
	for a, b := range p.Feat {
		feat[a] = b
	}
	shape := featShape(map[string]string{"mode": p.Mode, "proxy": k, "kinds": p.Feat["kinds"], "dsn": p.Feat["dsn"]})
	r.Case(shape, map[string]interface{}{"program": p, "proxy": k, "journal_proxy": clipList(got.Journal, 30), "journal_bare": clipList(want.Journal, 30)})
	if p.LoseAfterDML > 0 {
		lost := 0
		for _, l := range got.Raw {
			if strings.Contains(l, "[lost]") {
				lost++
			}
		}
		r.Count(fmt.Sprintf("programs with connection-lost-after-statement: fault fired=%v (%s)", lost > 0, k), 1)
	}
	viol := func(clause, detail string) {
		r.Violate(&vc.Violation{Clause: clause, Shape: shape, Features: feat, Detail: detail, Case: p,
			History: map[string]interface{}{"proxy_steps": got.Res.Steps, "bare_steps": want.Res.Steps, "proxy_journal": got.Raw, "bare_journal": want.Raw, "proxy_returned": got.Res.Returned + " " + got.Res.Err, "coordinator_requests": got.TC}})
	}
	if got.CallErr != nil || want.CallErr != nil {
		r.Inconc(fmt.Sprintf("%s: %v / %v", p.Name, got.CallErr, want.CallErr))
		return
	}
	if got.Res.Returned == "panic" {
		viol("panic", "a panic escaped: "+clipStr(got.Res.PanicVal, 300))
		return
	}
	// known defect C16-K1: string literals of a WHERE clause are rendered without quotes in the image query
	for i, a := range got.Res.Steps {
		if strings.Contains(a.Err, "_UTF8MB4") && i < len(want.Res.Steps) && want.Res.Steps[i].Err == "" {
			feat["string_literal_in_where"] = "true"
			viol("string-literal-unquoted-in-image-query", fmt.Sprintf("step %d (%s): inside a global transaction the statement fails with %q; the bare driver executes it", i, clipStr(p.Steps[i].SQL, 140), clipStr(a.Err, 120)))
			return // everything after the refused statement differs as a consequence
		}
	}
	if p.Mode == "inside" {
		for i, a := range got.Res.Steps {
			if i >= len(want.Res.Steps) || i >= len(p.Steps) || want.Res.Steps[i].Err != "" {
				continue
			}
			op := p.Steps[i].Op
			// known defect C16-K2: prepared statements have no connection to build images with
			if (op == "stmt_exec" || op == "stmt_query") && a.Err == "invalid conn" {
				viol("prepared-statement-inside-global-tx-fails", fmt.Sprintf("step %d (%s): a prepared statement executed inside a global transaction fails with %q; the bare driver executes it", i, op, a.Err))
				return
			}
			// known defect C16-K3: the statement-scoped local transaction of an autocommit locking read is committed
			// while the caller has not read the rows yet
			if op == "query" && strings.Contains(strings.ToLower(p.Steps[i].SQL), "for update") && got.Res.Steps[i].Err != "" && !c16InLocalTx(p.Steps, i) {
				viol("autocommit-locking-read-inside-global-tx-fails", fmt.Sprintf("step %d (%s): SELECT ... FOR UPDATE in autocommit mode inside a global transaction fails with %q; the bare driver executes it", i, clipStr(p.Steps[i].SQL, 100), clipStr(a.Err, 100)))
				return
			}
		}
	}
	// step results
	ng, nw := len(got.Res.Steps), len(want.Res.Steps)
	if ng != nw {
		viol("result-differs", fmt.Sprintf("the proxied run produced %d step results, the bare run %d", ng, nw))
	} else {
		for i := range got.Res.Steps {
			a, b := got.Res.Steps[i], want.Res.Steps[i]
			if p.Mode == "inside" && a.Err != "" && a.ErrNo == 0 && b.ErrNo == 1064 {
				continue // AT mode refuses a statement it cannot analyse; the database refuses it as a syntax error
			}
			if c16StepSig(a) != c16StepSig(b) {
				what := "result"
				switch {
				case a.Panic != "":
					what = "panic " + clipStr(a.Panic, 160)
				case a.Err != b.Err:
					what = fmt.Sprintf("error %q vs %q", clipStr(a.Err, 160), clipStr(b.Err, 160))
				case a.Affected != b.Affected:
					what = fmt.Sprintf("affected rows %d vs %d", a.Affected, b.Affected)
				case a.LastID != b.LastID:
					what = fmt.Sprintf("last insert id %d vs %d", a.LastID, b.LastID)
				case fmt.Sprint(a.Cols) != fmt.Sprint(b.Cols) || fmt.Sprint(a.ColTypes) != fmt.Sprint(b.ColTypes):
					what = fmt.Sprintf("columns %v %v vs %v %v", a.Cols, a.ColTypes, b.Cols, b.ColTypes)
				default:
					what = fmt.Sprintf("rows %d vs %d (or different values)", len(a.Rows), len(b.Rows))
				}
				stepSQL := ""
				if i < len(p.Steps) {
					stepSQL = p.Steps[i].Op + " " + clipStr(p.Steps[i].SQL, 140)
				}
				viol("result-differs", fmt.Sprintf("step %d (%s): proxied vs bare: %s", i, stepSQL, what))
				break
			}
		}
	}
	// committed data
	for name, ws := range want.Snap {
		gs := got.Snap[name]
		if d := snapDiff(atSnap{name: ws}, atSnap{name: gs}); len(d) > 0 {
			viol("committed-data-differs", fmt.Sprintf("table %s after the proxied run differs from the bare run: %s", name, strings.Join(clipList(d, 4), "; ")))
			break
		}
	}
	if p.Mode == "outside" {
		if len(got.TC) > 0 {
			viol("coordinator-traffic", fmt.Sprintf("outside any global transaction the proxy sent %v to the coordinator", clipList(got.TC, 6)))
		}
		if strings.Join(got.Journal, "\n") != strings.Join(want.Journal, "\n") {
			i := 0
			for i < len(got.Journal) && i < len(want.Journal) && got.Journal[i] == want.Journal[i] {
				i++
			}
			a, b := "<end>", "<end>"
			if i < len(got.Journal) {
				a = got.Journal[i]
			}
			if i < len(want.Journal) {
				b = want.Journal[i]
			}
			viol("journal-differs", fmt.Sprintf("statement %d reaching the database: proxied %q vs bare %q (%d vs %d statements)", i, clipStr(a, 160), clipStr(b, 160), len(got.Journal), len(want.Journal)))
		}
	} else {
		if strings.Join(got.Business, "\n") != strings.Join(want.Business, "\n") {
			viol("business-statements-differ", fmt.Sprintf("business statements reaching the database differ: proxied %v vs bare %v", clipList(got.Business, 5), clipList(want.Business, 5)))
		}
	}
}
