package checks

import (
	"sync/atomic"
	"fmt"
	"os"
	"path/filepath"
	"regexp"
	"sort"
	"strings"
	"sync"
	"time"

	"verif/faketc"
	mm "verif/minimysql"
	"verif/vc"
	"verif/world"
)

// C20 — concurrent use of one client is free of data races and lock-ups.
//
// One client child built with the Go race detector (always, in both tiers) runs N concurrent global transactions of
// all three kinds (AT, XA, TCC, and AT+TCC mixed) through shared database handles and registered actions while the
// fake coordinator drives phase two for finished transactions concurrently, fresh tables keep appearing (table
// metadata is loaded concurrently) and the server closes idle pooled connections. Monitors: the race detector's
// report files, goroutine count and pool statistics before / after, and a watchdog on every transaction.

func init() {
	Registry["C20"] = Check{Level: "exploration", Fn: runC20}
}

var reRaceFrame = regexp.MustCompile(`^\s+(seata\.apache\.org/seata-go/\S+)\(\)\s*$`)

type c20Race struct {
	Sig   string
	Text  string
	Count int
	// every conflicting access itself (innermost frame of each accessing stack) is seata-go code
	AccessInSeata bool
}

func c20ParseRaces(dir, prefix string) []*c20Race {
	files, _ := filepath.Glob(filepath.Join(dir, prefix+"*"))
	bySig := map[string]*c20Race{}
	for _, f := range files {
		b, err := os.ReadFile(f)
		if err != nil {
			continue
		}
		for _, blk := range strings.Split(string(b), "==================") {
			if !strings.Contains(blk, "WARNING: DATA RACE") {
				continue
			}
			// the first seata-go frame of each of the stacks (accesses, goroutine creations are below "Goroutine")
			parts := strings.Split(blk, "\n\n")
			var sites []string
			stacks, inner := 0, 0
			for _, p := range parts {
				head := strings.TrimSpace(p)
				if !(strings.HasPrefix(head, "Write at") || strings.HasPrefix(head, "Read at") || strings.HasPrefix(head, "Previous write at") || strings.HasPrefix(head, "Previous read at") || strings.HasPrefix(head, "WARNING: DATA RACE")) {
					continue
				}
				stacks++
				first := true
				for _, ln := range strings.Split(p, "\n") {
					if !strings.HasPrefix(ln, "  ") || strings.HasPrefix(ln, "      ") {
						continue // header or file:line
					}
					if m := reRaceFrame.FindStringSubmatch(ln); m != nil {
						if first {
							inner++
						}
						sites = append(sites, strings.TrimPrefix(m[1], "seata.apache.org/seata-go/"))
						break
					}
					first = false
				}
			}
			if len(sites) == 0 {
				continue // a race without any seata-go frame in the accessing stacks (harness, driver, getty)
			}
			sort.Strings(sites)
			sig := strings.Join(sites, " <-> ")
			if r := bySig[sig]; r != nil {
				r.Count++
			} else {
				bySig[sig] = &c20Race{Sig: sig, Text: clipStr(blk, 3000), Count: 1, AccessInSeata: stacks >= 2 && inner == stacks}
			}
		}
	}
	var out []*c20Race
	for _, r := range bySig {
		out = append(out, r)
	}
	sort.Slice(out, func(i, j int) bool { return out[i].Sig < out[j].Sig })
	return out
}

type c20Stats struct {
	Goroutines int `json:"goroutines"`
	Pools      map[string]struct {
		Open    int `json:"open"`
		InUse   int `json:"in_use"`
		Idle    int `json:"idle"`
		MaxOpen int `json:"max_open"`
	} `json:"pools"`
	Dump string `json:"dump"`
}

func runC20(r *vc.Run, replay string) {
	r.Rule = "one -race client; rounds of N concurrent global transactions {AT 1-3 statements, XA autocommit statement, TCC prepare, AT+TCC} x {commit, rollback} on private rows of per-round tables (fresh tables every round: concurrent metadata loads), pools smaller than N, the coordinator driving phase two of finished transactions concurrently (every third AT / TCC branch request delivered three times), the server closing idle pooled connections between rounds; verdicts: no race report whose accessing stacks contain a seata-go frame (reports deduplicated by the first seata-go frame of each stack), every transaction returns within 120 s and every phase-two request is answered, after the last round (5 s of quiescence) no pooled connection is in use and the goroutine count has not grown by more than max(15, transactions/4) over the count after the warm-up round; distinct_nontrivial = distinct (round, kind, outcome) signatures of finished transactions"
	r.Assumptions = []string{"the race detector only sees interleavings that happened; GORACE halt_on_error=0 so that one report does not hide the others", "goroutines of the race runtime, database/sql and getty are part of the steady state measured after the warm-up round"}
	var redeliveryHangs int32
	workers, rounds := 24, 4
	if r.Tier == "thorough" {
		workers, rounds = 48, 30
	}
	if v := devN(); v > 0 {
		rounds = v
	}
	w, err := world.New(r)
	if err != nil {
		r.Errorf("%v", err)
		return
	}
	defer w.Close()
	dbAT := w.NewDB("at")
	dbAT.CreateUndoLog()
	dbXA := w.NewDB("xa")
	dbXA.E.Version = "8.0.32"
	racePrefix := "race-c20"
	ch, err := w.StartClient("c20", true, world.InitArg{DBs: []world.DBSpec{
		{Name: "at", Driver: "seata-at-mysql", DSN: dbAT.DSN("app", ""), MaxOpen: 8},
		{Name: "xa", Driver: "seata-xa-mysql", DSN: dbXA.DSN("app", ""), MaxOpen: 8},
	},
		// a small phase-two commit buffer flushed every 20 ms: batches are handed to the commit workers while further
		// commit requests keep arriving
		Replace: map[string]string{"seata:\n": "seata:\n  async:\n    buffer_limit: 6\n    buffer_clean_interval: 20ms\n    receive_chan_size: 8\n    commit_worker_count: 2\n    commit_worker_buffer_size: 1\n"}},
		[]string{"GORACE=halt_on_error=0 log_path=" + filepath.Join(r.RunDir, racePrefix)})
	if err != nil {
		r.Errorf("%v", err)
		return
	}
	defer ch.Kill()
	if err := ch.Call("set_undo", atUndoCfg{Serializer: "json", Compress: "None", Validation: true, OnlyCare: true}, nil); err != nil {
		r.Errorf("set_undo: %v", err)
		return
	}
	actions := []string{"c20ActA", "c20ActB"}
	if err := ch.Call("tcc_register", actions, nil); err != nil {
		r.Errorf("tcc_register: %v", err)
		return
	}
	rnd := vc.NewRand(r.Seed, "c20")
	var base c20Stats
	stuck := 0
	for round := 0; round <= rounds; round++ { // round 0 is the warm-up
		// fresh tables: one per database and round, a private key range per worker
		tn := fmt.Sprintf("w_r%d", round)
		for _, db := range []*world.DB{dbAT, dbXA} {
			db.E.CreateTable(&mm.Table{Name: tn, Cols: []mm.Column{
				{Name: "id", T: mm.TInt, Bits: 64, ColType: "bigint(20)"},
				{Name: "v", T: mm.TInt, Bits: 32, ColType: "int(11)", Nullable: true},
				{Name: "s", T: mm.TChar, Len: 32, ColType: "varchar(32)", Nullable: true},
			}, PK: []int{0}})
			var rows [][]interface{}
			for wk := 0; wk < workers; wk++ {
				for k := 0; k < 4; k++ {
					rows = append(rows, []interface{}{int64(wk*100 + k), int64(k), "init"})
				}
			}
			db.E.Load(tn, rows)
		}
		type plan struct {
			kind, outcome string
			sc            *gtxScope
		}
		var plans []plan
		for wk := 0; wk < workers; wk++ {
			kind := []string{"at", "at", "xa", "tcc", "at+tcc"}[rnd.Intn(5)]
			outcome := []string{"nil", "error"}[rnd.Intn(2)]
			id0 := int64(wk * 100)
			var steps []gtxStep
			atSteps := []gtxStep{
				{Op: "exec", DB: "at", SQL: fmt.Sprintf("update %s set v = v + 1, s = ? where id = ?", tn), Args: []tval{tvOf(fmt.Sprintf("w%d", wk)), tvOf(id0)}, StopOnErr: true},
				{Op: "exec", DB: "at", SQL: fmt.Sprintf("insert into %s (id, v, s) values (?, ?, ?)", tn), Args: []tval{tvOf(id0 + 50), tvOf(int64(7)), tvOf("new")}, StopOnErr: true},
				{Op: "exec", DB: "at", SQL: fmt.Sprintf("delete from %s where id = ?", tn), Args: []tval{tvOf(id0 + 1)}, StopOnErr: true},
			}
			switch kind {
			case "at":
				steps = atSteps[:1+rnd.Intn(3)]
			case "xa":
				steps = []gtxStep{{Op: "exec", DB: "xa", SQL: fmt.Sprintf("update %s set v = v + 1 where id = ?", tn), Args: []tval{tvOf(id0)}, StopOnErr: true}}
			case "tcc":
				steps = []gtxStep{{Op: "tcc", Action: actions[rnd.Intn(2)], Params: map[string]interface{}{"kind": "tagged", "a": wk, "b": tn}, StopOnErr: true}}
			default:
				steps = append([]gtxStep{atSteps[0]}, gtxStep{Op: "tcc", Action: actions[rnd.Intn(2)], Params: map[string]interface{}{"kind": "tagged", "a": wk, "b": tn}, StopOnErr: true})
			}
			plans = append(plans, plan{kind, outcome, &gtxScope{Case: "c20", Name: fmt.Sprintf("c20-r%d-w%d", round, wk), TimeoutMs: 60000, Outcome: outcome, Label: "gtx", Steps: steps}})
		}
		var wg sync.WaitGroup
		var mu sync.Mutex
		for _, p := range plans {
			wg.Add(1)
			go func(p plan) {
				defer wg.Done()
				var res scopeResult
				done := make(chan error, 1)
				go func() { done <- ch.Call("gtx", p.sc, &res) }()
				select {
				case err := <-done:
					if err != nil {
						mu.Lock()
						r.Inconc(p.sc.Name + ": " + err.Error())
						mu.Unlock()
						return
					}
				case <-time.After(120 * time.Second):
					mu.Lock()
					stuck++
					r.Violate(&vc.Violation{Clause: "transaction-stuck", Shape: "stuck|" + p.kind, Features: map[string]string{"kind": p.kind, "outcome": p.outcome}, Detail: fmt.Sprintf("global transaction %s (%s, %s) did not return within 120 s", p.sc.Name, p.kind, p.outcome)})
					mu.Unlock()
					return
				}
				// phase two, concurrently with the transactions still running
				commit := p.outcome == "nil" && res.Returned == "nil"
				unanswered, redeliveredUnanswered := 0, 0
				if res.XidIn != "" {
					// like the coordinator: a request that got no answer (the manager failed, e.g. on a pooled connection
					// the server had closed) is sent again; three unanswered attempts count
					for _, b := range w.TC.BranchesOf(res.XidIn) {
						failed := false
						for _, st := range b.Reports {
							if st == 3 {
								failed = true
							}
						}
						if failed {
							continue
						}
						answered := false
						for attempt := 0; attempt < 3 && !answered; attempt++ {
							s := w.TC.WaitSession(b.Resource, 2*time.Second)
							if s == nil {
								s = w.TC.WaitSession("", time.Second)
							}
							if s == nil {
								break
							}
							_, rch, err := w.TC.Request(s, faketc.BranchEndReq(commit, b), 0)
							if err != nil {
								continue
							}
							select {
							case <-rch:
								answered = true
							case <-time.After(4 * time.Second):
							}
						}
						if !answered {
							unanswered++
						} else if b.ID%3 == 0 && b.Type != 3 && atomic.LoadInt32(&redeliveryHangs) < 3 {
							// the coordinator did not get the answer and delivers the request again, twice (AT and TCC; a finished XA
							// branch answers a repeated request with the database's XAER_NOTA and the manager stays silent, which
							// no property forbids - DESIGN §8.3)
							for dup := 0; dup < 2; dup++ {
								s := w.TC.WaitSession(b.Resource, 2*time.Second)
								if s == nil {
									break
								}
								_, rch, err := w.TC.Request(s, faketc.BranchEndReq(commit, b), 0)
								if err != nil {
									continue
								}
								select {
								case <-rch:
									mu.Lock()
									r.Count("redelivered_phase_two_requests_answered", 1)
									mu.Unlock()
								case <-time.After(6 * time.Second):
									redeliveredUnanswered++
									atomic.AddInt32(&redeliveryHangs, 1)
								}
							}
						}
					}
				}
				mu.Lock()
				r.Case(fmt.Sprintf("round=%d|kind=%s|outcome=%s|returned=%s", round, p.kind, p.outcome, res.Returned), map[string]interface{}{"name": p.sc.Name, "steps": res.Steps})
				r.Count("transactions_finished", 1)
				if redeliveredUnanswered > 0 {
					r.Violate(&vc.Violation{Clause: "phase-two-unanswered", Shape: "p2-redelivered|" + p.kind, Features: map[string]string{"kind": p.kind, "outcome": p.outcome, "redelivered": "true"}, Detail: fmt.Sprintf("%d redelivered phase-two requests of %s (%s, commit=%v) got no answer within 6 s although the first delivery had been answered", redeliveredUnanswered, p.sc.Name, p.kind, commit), Case: p.sc})
				}
				if unanswered > 0 {
					r.Violate(&vc.Violation{Clause: "phase-two-unanswered", Shape: "p2|" + p.kind, Features: map[string]string{"kind": p.kind, "outcome": p.outcome}, Detail: fmt.Sprintf("%d phase-two requests of %s (%s, commit=%v) stayed unanswered in three attempts under concurrency", unanswered, p.sc.Name, p.kind, commit), Case: p.sc, History: map[string]interface{}{"steps": res.Steps, "returned": res.Returned + " " + res.Err}})
				}
				mu.Unlock()
			}(p)
		}
		wg.Wait()
		if !ch.Alive() {
			txt, _, _ := ch.PanicInfo()
			r.Violate(&vc.Violation{Clause: "client-crash", Shape: "crash", Detail: "the client process died under the concurrent workload: " + clipStr(txt, 800)})
			break
		}
		// the server closes idle pooled connections; undo_log housekeeping
		dbAT.S.KillAll(nil)
		dbXA.S.KillAll(nil)
		for _, db := range []*world.DB{dbAT, dbXA} {
			db.E.DropTable(tn)
		}
		if round == 0 {
			time.Sleep(2 * time.Second)
			ch.Call("stats", map[string]bool{"dump": false}, &base)
		}
	}
	// ---- quiescence and leak monitors ----
	// a leak per transaction shows as growth proportional to the number of transactions: one goroutine per four
	// transactions (and at least 15) over the count after the warm-up round
	leakBound := rounds * workers / 4
	if leakBound < 15 {
		leakBound = 15
	}
	if ch.Alive() && stuck == 0 {
		var st c20Stats
		deadline := time.Now().Add(12 * time.Second)
		for {
			time.Sleep(5 * time.Second)
			if err := ch.Call("stats", map[string]bool{"dump": true}, &st); err != nil {
				break
			}
			inUse := 0
			for _, p := range st.Pools {
				inUse += p.InUse
			}
			if (st.Goroutines <= base.Goroutines+leakBound && inUse == 0) || time.Now().After(deadline) {
				break
			}
		}
		r.Count(fmt.Sprintf("goroutines after warm-up %d, after the last round %d", base.Goroutines, st.Goroutines), 1)
		for name, p := range st.Pools {
			if p.InUse != 0 {
				r.Violate(&vc.Violation{Clause: "connection-leaked", Shape: "leak|pool", Features: map[string]string{"pool": name}, Detail: fmt.Sprintf("pool %s still has %d connections in use after every transaction finished (open %d)", name, p.InUse, p.Open)})
			}
		}
		if st.Goroutines > base.Goroutines+leakBound {
			// attribute: functions with the most goroutines
			counts := map[string]int{}
			for _, g := range strings.Split(st.Dump, "\n\n") {
				lines := strings.Split(g, "\n")
				for i := 1; i < len(lines); i++ {
					l := strings.TrimSpace(lines[i])
					if strings.HasPrefix(l, "seata.apache.org/seata-go/") {
						counts[strings.SplitN(l, "(", 2)[0]]++
						break
					}
				}
			}
			var top []string
			for k, v := range counts {
				if v > 3 {
					top = append(top, fmt.Sprintf("%s x%d", k, v))
				}
			}
			sort.Strings(top)
			r.Violate(&vc.Violation{Clause: "goroutines-leaked", Shape: "leak|goroutines", Features: map[string]string{}, Detail: fmt.Sprintf("goroutine count grew from %d (after the warm-up round) to %d after %d rounds of %d transactions; seata-go functions holding more than 3 goroutines: %v", base.Goroutines, st.Goroutines, rounds, workers, top)})
		}
	}
	// ---- race reports ----
	ch.Quit()
	time.Sleep(300 * time.Millisecond)
	races := c20ParseRaces(r.RunDir, racePrefix)
	r.Count("distinct_race_reports_with_seata_frames", int64(len(races)))
	for _, rc := range races {
		r.Violate(&vc.Violation{Clause: "data-race", Shape: "race|" + rc.Sig, Features: map[string]string{"race_site": rc.Sig}, Detail: fmt.Sprintf("race detector: %s (%d reports)", rc.Sig, rc.Count), History: map[string]interface{}{"report": rc.Text}})
	}
}
