package checks

import (
	"fmt"
	"strings"
	"sync"

	"verif/faketc"
	"verif/vc"
	"verif/wire"
	"verif/world"
)

// C07 — propagation modes and transaction context across nesting (and RPC integrations, see c07integ.go).
//
// A reference interpreter of the six documented propagation modes predicts, for a scope tree, which logical
// transactions are begun, by whom they are ended and how, what each callback sees, and which scopes fail their
// precondition. The real tm.WithGlobalTx runs the same tree in a client child against the fake TC; the TC's per-xid
// request log and the context observations are compared with the prediction.

func init() {
	Registry["C07"] = Check{Level: "exploration", Fn: runC07}
}

var propNames = []string{"Required", "RequiresNew", "NotSupported", "Supports", "Never", "Mandatory"}

type c07Node struct {
	Prop     int        `json:"prop"`
	Outcome  string     `json:"outcome"`
	Fresh    bool       `json:"fresh_ctx"`
	Children []*c07Node `json:"children,omitempty"`
	name     string
	label    string
}

type c07Expect struct {
	label     string
	ran       bool // callback expected to run
	fails     bool // precondition error expected (callback not run)
	txIdx     int  // index of the logical transaction visible in the callback (-1 none)
	launcher  bool // this scope begins (and must end) txIdx
	returnErr bool // scope returns non-nil
}

type c07Tx struct {
	name     string // begin name (scope name of the launcher)
	decision string // commit | rollback
}

// c07Model predicts the behaviour of the tree rooted at n entered with current transaction cur (-1 none).
func c07Model(n *c07Node, cur int, txs *[]c07Tx, exps map[string]*c07Expect, done *[]int) {
	e := &c07Expect{label: n.label, txIdx: -1}
	exps[n.label] = e
	join := func() { e.ran, e.txIdx = true, cur }
	begin := func() {
		*txs = append(*txs, c07Tx{name: n.name})
		e.ran, e.txIdx, e.launcher = true, len(*txs)-1, true
	}
	switch n.Prop {
	case 0: // Required
		if cur >= 0 {
			join()
		} else {
			begin()
		}
	case 1: // RequiresNew
		begin()
	case 2: // NotSupported
		e.ran = true
	case 3: // Supports
		if cur >= 0 {
			join()
		} else {
			e.ran = true
		}
	case 4: // Never
		if cur >= 0 {
			e.fails = true
		} else {
			e.ran = true
		}
	case 5: // Mandatory
		if cur >= 0 {
			join()
		} else {
			e.fails = true
		}
	}
	if e.fails {
		e.returnErr = true
		return
	}
	for _, c := range n.Children {
		c07Model(c, e.txIdx, txs, exps, done)
	}
	e.returnErr = n.Outcome != "nil"
	if e.launcher {
		if n.Outcome == "nil" {
			(*txs)[e.txIdx].decision = "commit"
		} else {
			(*txs)[e.txIdx].decision = "rollback"
		}
		*done = append(*done, e.txIdx)
	}
}

func c07Label(n *c07Node, prefix, caseName string) {
	n.label = prefix
	n.name = caseName + "-" + prefix
	for i, c := range n.Children {
		c07Label(c, fmt.Sprintf("%s.%d", prefix, i), caseName)
	}
}

func c07Scope(n *c07Node, caseName string, root bool) *gtxScope {
	sc := &gtxScope{Name: n.name, TimeoutMs: 60000, Prop: n.Prop, Outcome: n.Outcome, Label: n.label, FreshCtx: n.Fresh && !root}
	if root {
		sc.Case = caseName
	}
	for _, c := range n.Children {
		sc.Steps = append(sc.Steps, gtxStep{Op: "scope", Scope: c07Scope(c, caseName, false)})
	}
	return sc
}

func c07Shape(n *c07Node) string {
	s := propNames[n.Prop] + ":" + n.Outcome
	if len(n.Children) > 0 {
		var cs []string
		for _, c := range n.Children {
			cs = append(cs, c07Shape(c))
		}
		s += "(" + strings.Join(cs, ",") + ")"
	}
	return s
}

func c07Trees(tier string, r *vc.Rand) []*c07Node {
	var out []*c07Node
	outs := []string{"nil", "error"}
	// exhaustive chains up to depth 3, for shared context and for fresh (remote-style) context
	for _, fresh := range []bool{false, true} {
		for d := 1; d <= 3; d++ {
			n := 1
			for i := 0; i < d; i++ {
				n *= 12
			}
			for code := 0; code < n; code++ {
				c := code
				var nodes []*c07Node
				for i := 0; i < d; i++ {
					k := c % 12
					c /= 12
					nodes = append(nodes, &c07Node{Prop: k / 2, Outcome: outs[k%2], Fresh: fresh})
				}
				for i := 0; i+1 < d; i++ {
					nodes[i].Children = []*c07Node{nodes[i+1]}
				}
				if d == 1 && fresh {
					continue
				}
				out = append(out, nodes[0])
			}
		}
	}
	// thorough: ALL chains of depth 4 as well (12^4 = 20736 per context kind)
	if tier == "thorough" {
		for _, fresh := range []bool{false, true} {
			for code := 0; code < 12*12*12*12; code++ {
				c := code
				var nodes []*c07Node
				for i := 0; i < 4; i++ {
					k := c % 12
					c /= 12
					nodes = append(nodes, &c07Node{Prop: k / 2, Outcome: outs[k%2], Fresh: fresh})
				}
				for i := 0; i+1 < 4; i++ {
					nodes[i].Children = []*c07Node{nodes[i+1]}
				}
				out = append(out, nodes[0])
			}
		}
	}
	// trees with two children at depth <= 2 (sampled: root x child1 x child2, grandchild under child1)
	n2 := 300
	if tier == "thorough" {
		n2 = 3000
	}
	for i := 0; i < n2; i++ {
		mk := func() *c07Node { return &c07Node{Prop: r.Intn(6), Outcome: outs[r.Intn(2)], Fresh: r.Intn(3) == 0} }
		root := mk()
		a, b := mk(), mk()
		root.Children = []*c07Node{a, b}
		if r.Bool() {
			a.Children = []*c07Node{mk()}
		}
		if r.Intn(3) == 0 {
			b.Children = []*c07Node{mk(), mk()}
		}
		out = append(out, root)
	}
	return out
}

func runC07(r *vc.Run, replay string) {
	r.Rule = "cases = ALL scope chains up to depth 3 over the six propagation modes x {nil,error} per scope, once sharing one context (local nested call) and once with a fresh context carrying only the xid (remote style), plus sampled trees with two children per scope; plus integration cases (gRPC interceptors, gin middleware, dubbo filter) over generated xid strings and key spellings; oracle = reference interpreter of the documented semantics compared with the fake TC's per-xid request log and the context observed inside and after every scope; distinct_nontrivial = distinct tree signatures in which at least one callback ran"
	r.Assumptions = []string{"documented semantics: Required/Supports/Mandatory join an existing transaction; Required begins one when none exists; RequiresNew always begins an independent one; NotSupported/Never run without; Mandatory without and Never with a transaction fail before running the callback",
		"a scope's callback ignores the errors of its child scopes (each scope has its own scripted outcome)"}
	w, err := world.New(r)
	if err != nil {
		r.Errorf("world: %v", err)
		return
	}
	defer w.Close()
	ch, err := w.StartClient("c07", r.Tier == "thorough", world.InitArg{}, nil)
	if err != nil {
		r.Errorf("%v", err)
		return
	}
	defer ch.Kill()
	trees := c07Trees(r.Tier, vc.NewRand(r.Seed, "c07"))
	type job struct {
		name string
		tree *c07Node
		res  scopeResult
		err  error
	}
	jobs := make([]*job, len(trees))
	var wg sync.WaitGroup
	sem := make(chan struct{}, 64)
	for i, t := range trees {
		name := fmt.Sprintf("c07-%05d", i)
		c07Label(t, "s", name)
		jobs[i] = &job{name: name, tree: t}
		wg.Add(1)
		sem <- struct{}{}
		go func(j *job) {
			defer wg.Done()
			defer func() { <-sem }()
			j.err = ch.Call("gtx", c07Scope(j.tree, j.name, true), &j.res)
		}(jobs[i])
	}
	wg.Wait()
	if txt, inSeata, found := ch.PanicInfo(); found {
		if inSeata {
			r.Violate(&vc.Violation{Clause: "client-crash", Shape: "c07", Detail: "client process died from a panic inside seata-go: " + clipStr(txt, 1500)})
		} else {
			r.Errorf("client child crashed outside seata-go: %s", clipStr(txt, 1500))
		}
		return
	}
	// index TC events by case
	byCase := map[string][]*faketc.Event{}
	for _, e := range w.TC.Events() {
		if e.Dir == "in" && strings.HasPrefix(e.TxName, "c07-") && len(e.TxName) >= 9 {
			byCase[e.TxName[:9]] = append(byCase[e.TxName[:9]], e)
		}
	}
	for _, j := range jobs {
		if j.err != nil {
			r.Inconc(j.name + ": control call failed: " + j.err.Error())
			r.Case("", nil)
			continue
		}
		c07Judge(r, j.name, j.tree, &j.res, byCase[j.name])
	}
	r.Exhaustive = append(r.Exhaustive, "all chains of depth <= 3 over 6 modes x 2 outcomes, for shared and fresh contexts")
	if r.Tier == "thorough" {
		r.Exhaustive = append(r.Exhaustive, "all chains of depth 4 over 6 modes x 2 outcomes, for shared and fresh contexts")
	}
	runC07Integ(r, w, ch)
}

func c07Collect(res *scopeResult, into map[string]*scopeResult) {
	into[res.Label] = res
	for i := range res.Steps {
		if res.Steps[i].Scope != nil {
			c07Collect(res.Steps[i].Scope, into)
		}
	}
}

func c07Judge(r *vc.Run, name string, tree *c07Node, res *scopeResult, evs []*faketc.Event) {
	var txs []c07Tx
	exps := map[string]*c07Expect{}
	var done []int
	c07Model(tree, -1, &txs, exps, &done)
	obs := map[string]*scopeResult{}
	c07Collect(res, obs)
	shape := c07Shape(tree)
	ctxKind := "shared"
	if c07AnyFresh(tree) {
		ctxKind = "fresh"
	}
	shape = ctxKind + "|" + shape
	anyRan := false
	for _, o := range obs {
		if o.Entered {
			anyRan = true
		}
	}
	var hist []map[string]interface{}
	for _, e := range evs {
		hist = append(hist, map[string]interface{}{"seq": e.Seq, "type": e.Type, "tx": e.TxName, "xid": e.Xid})
	}
	if anyRan {
		r.Case(shape, map[string]interface{}{"tree": tree, "shape": shape, "tc_requests": hist})
	} else {
		r.Case("", nil)
	}
	feat := map[string]string{"ctx": ctxKind, "depth": fmt.Sprint(c07Depth(tree)), "root": propNames[tree.Prop]}
	feat["nested_in_tx"] = "no"
	if len(txs) > 0 && c07Depth(tree) > 1 {
		feat["nested_in_tx"] = "yes"
	}
	viol := func(clause, detail string) {
		r.Violate(&vc.Violation{Clause: clause, Shape: shape, Features: feat, Detail: detail, Case: map[string]interface{}{"tree": tree, "name": name},
			History: map[string]interface{}{"tc": hist, "result": res, "expected_transactions": fmt.Sprint(txs)}})
	}
	// --- observed logical transactions: begin requests in order, xid from the TC's tables
	type otx struct {
		name, xid          string
		commits, rollbacks int
	}
	var otxs []*otx
	byXid := map[string]*otx{}
	for _, e := range evs {
		if e.Msg == nil {
			continue
		}
		switch e.Msg.Type {
		case wire.TGlobalBegin:
			otxs = append(otxs, &otx{name: e.TxName})
		case wire.TGlobalCommit, wire.TGlobalRollback:
			t := byXid[e.Xid]
			if t == nil {
				// find by name via TC table
				for _, o := range otxs {
					if o.name == e.TxName && o.xid == "" {
						o.xid = e.Xid
						byXid[e.Xid] = o
						t = o
						break
					}
				}
			}
			if t == nil {
				viol("decision-for-unknown-xid", fmt.Sprintf("%s for xid %q that this case never began", e.Type, e.Xid))
				continue
			}
			if e.Msg.Type == wire.TGlobalCommit {
				t.commits++
			} else {
				t.rollbacks++
			}
		}
	}
	r.Count("tc_requests_observed", int64(len(evs)))
	// --- begins
	if len(otxs) != len(txs) {
		var on []string
		for _, o := range otxs {
			on = append(on, o.name)
		}
		var en []string
		for _, t := range txs {
			en = append(en, t.name)
		}
		viol("begin-set", fmt.Sprintf("transactions begun: observed %v, documented semantics begin %v", on, en))
		return
	}
	for i, t := range txs {
		o := otxs[i]
		if o.name != t.name {
			viol("begin-set", fmt.Sprintf("transaction #%d begun under name %q, expected %q", i, o.name, t.name))
			return
		}
		wantC, wantR := 0, 0
		if t.decision == "commit" {
			wantC = 1
		} else {
			wantR = 1
		}
		if o.commits != wantC || o.rollbacks != wantR {
			viol("second-phase", fmt.Sprintf("transaction begun by %q: %d commit / %d rollback requests observed, expected %d / %d (its launcher returned %s)", t.name, o.commits, o.rollbacks, wantC, wantR, t.decision))
		}
	}
	// --- per scope observations
	var walk func(n *c07Node, parent *c07Node)
	xidOf := func(idx int) string {
		if idx < 0 {
			return ""
		}
		// the xid of logical transaction idx is what its launcher saw in its callback
		for _, e := range exps {
			if e.launcher && e.txIdx == idx {
				if o := obs[e.label]; o != nil {
					return o.XidIn
				}
			}
		}
		return "?"
	}
	walk = func(n *c07Node, parent *c07Node) {
		e := exps[n.label]
		o := obs[n.label]
		if e == nil {
			return
		}
		if o == nil {
			// scope never reached because an ancestor failed its precondition: fine iff model agrees
			return
		}
		if e.fails {
			if o.Entered {
				viol("precondition-not-enforced", fmt.Sprintf("scope %s (%s) ran its callback although its precondition is unmet", n.label, propNames[n.Prop]))
			}
			if o.Returned == "nil" {
				viol("precondition-not-enforced", fmt.Sprintf("scope %s (%s) returned nil although its precondition is unmet", n.label, propNames[n.Prop]))
			}
			return
		}
		if !o.Entered {
			viol("spurious-failure", fmt.Sprintf("scope %s (%s) did not run its callback (returned %s %q) although the documented semantics run it", n.label, propNames[n.Prop], o.Returned, clipStr(o.Err, 120)))
			return
		}
		want := xidOf(e.txIdx)
		if want != "?" && o.XidIn != want {
			viol("wrong-xid-in-callback", fmt.Sprintf("scope %s (%s): callback saw xid %q, expected %q", n.label, propNames[n.Prop], o.XidIn, want))
		}
		if e.txIdx >= 0 {
			wantRole := "Participant"
			if e.launcher {
				wantRole = "Launcher"
			}
			if o.CtxIn.Role != wantRole {
				viol("wrong-role", fmt.Sprintf("scope %s (%s): role inside callback %q, expected %q", n.label, propNames[n.Prop], o.CtxIn.Role, wantRole))
			}
		}
		if e.returnErr && o.Returned == "nil" {
			viol("error-lost", fmt.Sprintf("scope %s returned nil although its callback returned an error", n.label))
		}
		if o.Returned == "panic" {
			viol("panic", fmt.Sprintf("scope %s panicked: %s", n.label, clipStr(o.PanicVal, 200)))
		}
		// enclosing context intact after the inner scope ended (only meaningful for a shared context)
		if parent != nil && !n.Fresh {
			po := obs[parent.label]
			if po != nil && po.Entered {
				if o.CtxAfter.Xid != po.CtxIn.Xid || o.CtxAfter.Role != po.CtxIn.Role || o.CtxAfter.Name != po.CtxIn.Name {
					viol("outer-context-damaged", fmt.Sprintf("after inner scope %s (%s) ended, the enclosing context is (xid=%q role=%s name=%q); before it was (xid=%q role=%s name=%q)",
						n.label, propNames[n.Prop], o.CtxAfter.Xid, o.CtxAfter.Role, o.CtxAfter.Name, po.CtxIn.Xid, po.CtxIn.Role, po.CtxIn.Name))
				}
			}
		}
		for _, c := range n.Children {
			walk(c, n)
		}
	}
	walk(tree, nil)
}

func c07AnyFresh(n *c07Node) bool {
	for _, c := range n.Children {
		if c.Fresh || c07AnyFresh(c) {
			return true
		}
	}
	return false
}

func c07Depth(n *c07Node) int {
	d := 0
	for _, c := range n.Children {
		if x := c07Depth(c); x > d {
			d = x
		}
	}
	return d + 1
}
