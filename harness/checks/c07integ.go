package checks

import (
	"fmt"
	"strings"
	"sync"

	"verif/vc"
	"verif/wire"
	"verif/world"
)

type c07IntegArg struct {
	Case    string            `json:"case"`
	Kind    string            `json:"kind"`
	Side    string            `json:"side"`
	Xid     string            `json:"xid"`
	Key     string            `json:"key"`
	RealTx  bool              `json:"real_tx"`
	Name    string            `json:"name"`
	Outcome string            `json:"callee_outcome"`
	Stale   map[string]string `json:"stale,omitempty"`
	// dubbo: the attachments arrive the way the triple protocol delivers them (lower-cased keys, []string values)
	Triple bool `json:"triple,omitempty"`
}

type c07IntegRes struct {
	CallerXid     string            `json:"caller_xid"`
	CallerRet     string            `json:"caller_returned"`
	CallerErr     string            `json:"caller_err,omitempty"`
	CalleeReached bool              `json:"callee_reached"`
	CalleeXidCtx  string            `json:"callee_xid_ctx"`
	CalleeRan     bool              `json:"callee_ran"`
	CalleeXid     string            `json:"callee_xid"`
	CalleeRole    string            `json:"callee_role"`
	CalleeRet     string            `json:"callee_returned"`
	Carrier       map[string]string `json:"carrier,omitempty"`
	HTTPStatus    int               `json:"http_status,omitempty"`
	Panic         string            `json:"panic,omitempty"`
}

func c07Xids(kind string) []string {
	xs := []string{
		"127.0.0.1:8091:1234567",
		"[fe80::1]:8091:99",
		"h:1:" + strings.Repeat("9", 400),
		"a-b_c.d:65535:9223372036854775807",
		"x y:1:2",
		"x:1:2;k=v,z",
		"%41%3a:1:2",
		"UPPER:1:Xid",
		"0",
	}
	if kind == "dubbo" {
		xs = append(xs, "名前:1:2", "tab\there:1:2")
	}
	return xs
}

func xidClass(x string) string {
	switch {
	case len(x) > 200:
		return "long"
	case strings.HasPrefix(x, "["):
		return "ipv6"
	case strings.ContainsAny(x, " ;,%\t"):
		return "punct"
	case strings.ToLower(x) != x:
		return "mixedcase"
	}
	for i := 0; i < len(x); i++ {
		if x[i] >= 0x80 {
			return "utf8"
		}
	}
	return "plain"
}

// c07IntegOverlap: overlapping requests on a server whose base context is a shared seata context.
func c07IntegOverlap(r *vc.Run, ch *vc.Child) {
	n := 6
	if r.Tier == "thorough" {
		n = 40
	}
	for _, kind := range []string{"gin", "grpc"} {
		for i := 0; i < n; i++ {
			x1, x2 := fmt.Sprintf("10.7.7.1:8091:%d", 9100+2*i), fmt.Sprintf("10.7.7.2:8091:%d", 9101+2*i)
			var out map[string]string
			if err := ch.Call("integ_overlap", map[string]string{"kind": kind, "xid1": x1, "xid2": x2}, &out); err != nil {
				r.Inconc("integ_overlap: " + err.Error())
				r.Case("", nil)
				continue
			}
			shape := "integ-overlap|" + kind
			feat := map[string]string{"part": "integ-overlap", "kind": kind}
			r.Case(shape, map[string]interface{}{"kind": kind, "observed": out})
			viol := func(clause, detail string) {
				r.Violate(&vc.Violation{Clause: clause, Shape: shape, Features: feat, Detail: detail, Case: map[string]string{"kind": kind, "xid1": x1, "xid2": x2}, History: out})
			}
			switch {
			case out["panic"] != "":
				viol("integ-panic", "integration panicked: "+clipStr(out["panic"], 300))
			case out["first_entry"] != x1 || out["first_exit"] != x1:
				viol("integ-xid-changed", fmt.Sprintf("the handler of the first request saw xid %q on entry and %q on exit, its request carried %q (a second request with %q was served meanwhile)", out["first_entry"], out["first_exit"], x1, x2))
			case out["second_entry"] != x2 || out["second_exit"] != x2:
				viol("integ-xid-changed", fmt.Sprintf("the handler of the second request saw xid %q / %q, its request carried %q", out["second_entry"], out["second_exit"], x2))
			case out["base_after"] != "":
				viol("outer-context-damaged", fmt.Sprintf("the server's shared base context is bound to xid %q after the requests", out["base_after"]))
			}
		}
	}
}

func runC07Integ(r *vc.Run, w *world.World, ch *vc.Child) {
	c07IntegOverlap(r, ch)
	type job struct {
		a   c07IntegArg
		res c07IntegRes
		err error
	}
	var jobs []*job
	n := 0
	add := func(a c07IntegArg) {
		n++
		a.Case = fmt.Sprintf("c07i-%04d", n)
		a.Name = a.Case
		jobs = append(jobs, &job{a: a})
	}
	keys := map[string][]string{
		"grpc":  {"TX_XID", "tx_xid", "Tx_Xid"},
		"gin":   {"TX_XID", "tx_xid", "Tx_Xid"},
		"dubbo": {"SEATA_XID", "seata_xid", "TX_XID", "tx_xid"},
	}
	for _, kind := range []string{"grpc", "gin", "dubbo"} {
		for _, x := range c07Xids(kind) {
			for _, oc := range []string{"nil", "error"} {
				add(c07IntegArg{Kind: kind, Side: "roundtrip", Xid: x, Outcome: oc})
			}
			for _, k := range keys[kind] {
				add(c07IntegArg{Kind: kind, Side: "server", Xid: x, Key: k, Outcome: "nil"})
			}
		}
		for _, oc := range []string{"nil", "error"} {
			add(c07IntegArg{Kind: kind, Side: "roundtrip", RealTx: true, Outcome: oc})
		}
		if kind == "dubbo" {
			for _, x := range c07Xids(kind) {
				add(c07IntegArg{Kind: kind, Side: "roundtrip", Xid: x, Outcome: "nil", Triple: true})
				for _, k := range []string{"seata_xid", "tx_xid"} {
					add(c07IntegArg{Kind: kind, Side: "server", Xid: x, Key: k, Outcome: "nil", Triple: true})
				}
			}
			add(c07IntegArg{Kind: kind, Side: "roundtrip", RealTx: true, Outcome: "nil", Triple: true})
		}
		// a middle service: its outbound carrier already holds what it received from upstream (a different, stale xid)
		if kind != "gin" {
			stales := []map[string]string{{"tx_xid": "10.0.0.9:8091:555"}, {"TX_XID": "10.0.0.9:8091:555", "other": "v"}, {"seata_xid": "10.0.0.9:8091:555", "tx_xid": "10.0.0.9:8091:556"}}
			if kind == "dubbo" {
				stales = append(stales, map[string]string{"SEATA_XID": "10.0.0.9:8091:555"}, map[string]string{"TX_XID": "10.0.0.9:8091:555", "SEATA_XID": "10.0.0.9:8091:557"})
			}
			for _, st := range stales {
				add(c07IntegArg{Kind: kind, Side: "roundtrip", Xid: "127.0.0.1:8091:777", Outcome: "nil", Stale: st})
				add(c07IntegArg{Kind: kind, Side: "roundtrip", RealTx: true, Outcome: "nil", Stale: st})
			}
		}
	}
	var wg sync.WaitGroup
	sem := make(chan struct{}, 16)
	for _, j := range jobs {
		wg.Add(1)
		sem <- struct{}{}
		go func(j *job) {
			defer wg.Done()
			defer func() { <-sem }()
			j.err = ch.Call("integ", j.a, &j.res)
		}(j)
	}
	wg.Wait()
	evs := w.TC.Events()
	for _, j := range jobs {
		a, res := j.a, j.res
		shape := fmt.Sprintf("integ|%s|%s|key=%s|xid=%s|real=%v|callee=%s|stale=%d", a.Kind, a.Side, a.Key, xidClass(a.Xid), a.RealTx, a.Outcome, len(a.Stale))
		if a.Triple {
			shape += "|triple-attachments"
		}
		feat := map[string]string{"kind": a.Kind, "side": a.Side, "key": a.Key, "xid_class": xidClass(a.Xid), "real_tx": fmt.Sprint(a.RealTx)}
		if j.err != nil {
			r.Inconc(a.Case + ": control call failed: " + j.err.Error())
			r.Case("", nil)
			continue
		}
		var hist []map[string]interface{}
		want := a.Xid
		if a.RealTx {
			want = res.CallerXid
		}
		calleeReqs, commits, rollbacks, foreign := 0, 0, 0, 0
		for _, e := range evs {
			if e.Dir != "in" || e.Msg == nil {
				continue
			}
			mine := e.TxName == a.Name || e.TxName == a.Name+"-callee" || (want != "" && e.Xid == want)
			if !mine {
				continue
			}
			hist = append(hist, map[string]interface{}{"seq": e.Seq, "type": e.Type, "tx": e.TxName, "xid": e.Xid})
			if e.TxName == a.Name+"-callee" {
				calleeReqs++
			}
			if e.Xid == want {
				switch e.Msg.Type {
				case wire.TGlobalCommit:
					commits++
				case wire.TGlobalRollback:
					rollbacks++
				}
				if !a.RealTx {
					foreign++
				}
			}
		}
		viol := func(clause, detail string) {
			r.Violate(&vc.Violation{Clause: clause, Shape: shape, Features: feat, Detail: detail, Case: a, History: map[string]interface{}{"result": res, "tc": hist}})
		}
		if res.CalleeReached {
			r.Case(shape, map[string]interface{}{"case": a, "carrier": res.Carrier, "callee_xid": res.CalleeXid, "callee_role": res.CalleeRole})
		} else {
			r.Case("", nil)
		}
		if res.Panic != "" {
			viol("integ-panic", "integration panicked: "+clipStr(res.Panic, 300))
			continue
		}
		if a.RealTx && want == "" {
			viol("integ-no-xid", "caller's global transaction has no xid")
			continue
		}
		if !res.CalleeReached {
			viol("integ-callee-not-reached", fmt.Sprintf("the callee's handler was not reached (http status %d, caller error %q)", res.HTTPStatus, clipStr(res.CallerErr, 200)))
			continue
		}
		if res.CalleeXidCtx != want {
			viol("integ-xid-changed", fmt.Sprintf("xid arrived at the callee as %q, sent %q (carrier %v)", clipStr(res.CalleeXidCtx, 120), clipStr(want, 120), res.Carrier))
			continue
		}
		if !res.CalleeRan || res.CalleeXid != want {
			viol("integ-callee-not-joined", fmt.Sprintf("callee's Required scope ran=%v with xid %q, expected to join %q", res.CalleeRan, clipStr(res.CalleeXid, 120), clipStr(want, 120)))
		}
		if res.CalleeRan && res.CalleeRole != "Participant" {
			viol("integ-callee-role", "callee's role is "+res.CalleeRole+", expected Participant")
		}
		if calleeReqs > 0 {
			viol("integ-callee-ended-tx", fmt.Sprintf("the callee sent %d requests of its own to the coordinator", calleeReqs))
		}
		if a.RealTx {
			if commits != 1 || rollbacks != 0 {
				viol("integ-second-phase", fmt.Sprintf("caller's transaction: %d commit / %d rollback requests, expected exactly one commit by the caller", commits, rollbacks))
			}
		} else if foreign > 0 {
			viol("integ-callee-ended-tx", fmt.Sprintf("%d second-phase requests were sent for the carried xid by a process that merely joined", foreign))
		}
	}
}
