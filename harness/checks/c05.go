package checks

import (
	"bytes"
	"encoding/json"
	"fmt"
	"reflect"
	"sort"
	"strings"
	"time"

	"verif/faketc"
	"verif/vc"
	"verif/wire"
	"verif/world"
)

// C05 — TCC branches are registered before try and dispatched faithfully in phase two.
//
// The client child registers recording TCC actions through the public proxy API; generated parameter values of a
// fixed family of parameter types (tagged / untagged / unexported / ignored fields, nested structs, maps, slices,
// pointers, embedded action contexts by pointer and by value, bare contexts, non-struct values, nil) are passed to
// Prepare inside global transactions. The fake coordinator's frame log, the synchronous marks of the user methods and
// the phase-two responses are compared with a model of the documented behaviour written in this file.

func init() {
	Registry["C05"] = Check{Level: "exploration", Fn: runC05}
}

type c05Param struct {
	Kind string                 `json:"kind"`
	A    int64                  `json:"a"`
	B    string                 `json:"b"`
	C    float64                `json:"c"`
	F    bool                   `json:"f"`
	N    map[string]interface{} `json:"n,omitempty"`
	M    map[string]int         `json:"m,omitempty"`
	L    []int64                `json:"l,omitempty"`
	PI   *int64                 `json:"pi,omitempty"`
	PN   map[string]interface{} `json:"pn,omitempty"`
	I    interface{}            `json:"i,omitempty"`
	Pre  map[string]interface{} `json:"pre,omitempty"`
}

var c05Kinds = []string{"nil", "tagged", "tagged_ptr", "nested", "ctx_ptr", "ctx_ptr_nil", "ctx_val", "bac", "bac_ptr", "bac_ptr_nil", "int", "string", "map", "anon_ab", "anon_fba", "local_1", "local_2"}

var c05SysKeys = map[string]bool{"action-start-time": true, "sys::prepare": true, "sys::commit": true, "sys::rollback": true, "actionName": true, "host-name": true}

// expected user part of the action context for a parameter value (the model)
func (p *c05Param) expected() map[string]interface{} {
	switch p.Kind {
	case "tagged", "tagged_ptr":
		return map[string]interface{}{"a": p.A, "b": p.B, "f": p.F}
	case "nested":
		n := map[string]interface{}{"x": 0, "y": nil}
		if p.N != nil {
			n = p.N
		}
		out := map[string]interface{}{"n": n, "m": p.M, "l": p.L, "pi": nil, "pn": nil, "i": p.I}
		if p.PI != nil {
			out["pi"] = *p.PI
		}
		if p.PN != nil {
			out["pn"] = p.PN
		}
		return out
	case "ctx_ptr", "ctx_ptr_nil":
		return map[string]interface{}{"a": p.A}
	case "ctx_val":
		return map[string]interface{}{"b": p.B}
	case "anon_ab":
		return map[string]interface{}{"a": p.A, "b": p.B}
	case "anon_fba":
		return map[string]interface{}{"f": p.F, "note": p.B, "amount": p.A}
	case "local_1":
		return map[string]interface{}{"amount": p.A, "target": p.B}
	case "local_2":
		return map[string]interface{}{"memo": p.B, "flag": p.F, "account": p.A}
	}
	return map[string]interface{}{}
}

func c05Canon(v interface{}) interface{} {
	b, err := json.Marshal(v)
	if err != nil {
		return fmt.Sprintf("unmarshalable: %v", err)
	}
	var out interface{}
	json.Unmarshal(b, &out)
	return out
}

func c05JSONEq(a, b interface{}) bool { return reflect.DeepEqual(c05Canon(a), c05Canon(b)) }

type c05Step struct {
	Action string   `json:"action"`
	Param  c05Param `json:"param"`
	Try    string   `json:"try"`      // user try outcome
	Reg    string   `json:"register"` // ok | fail | noreply
}

type c05Case struct {
	Name     string            `json:"name"`
	Steps    []c05Step         `json:"steps"`
	Outcome  string            `json:"outcome"`   // nil (commit) | error (rollback)
	PhaseTwo string            `json:"phase_two"` // normal | repeat2 | repeat3 | unknown-resource | empty-appdata | malformed-appdata | non-object-context | both-kinds
	P2Script string            `json:"p2_script"` // ok | err-then-ok | false | panic
	Feat     map[string]string `json:"features"`
}

type c05Call struct {
	Seq       int64           `json:"seq"`
	Phase     string          `json:"phase"`
	Action    string          `json:"action"`
	Xid       string          `json:"xid"`
	BranchID  int64           `json:"branch_id"`
	CtxAction string          `json:"ctx_action_name"`
	Context   json.RawMessage `json:"action_context"`
	Params    string          `json:"params"`
	Outcome   string          `json:"outcome"`
}

func runC05(r *vc.Run, replay string) {
	r.Rule = "cases = global transactions with 1..3 Prepare calls over 3 registered actions x 17 parameter shapes (named, anonymous and function-local struct types that share a name, pointers, nested values, caller-supplied contexts, non-structs) with generated values x try outcome {ok, error, false, panic} x registration {granted, refused, unanswered} x business outcome {commit, rollback} x phase-two sequence {one request, 2-3 repeats, unknown resource, empty / non-JSON / non-object application data, commit followed by rollback} x user phase-two outcome {ok, error then ok, false, panic}; verdicts from the coordinator's frame log, synchronous marks of the user methods and the responses: one TCC BranchRegister (resource = action name, application data == model of the tagged parameters + system keys) before try starts; no try after a failed registration; each phase-two request runs the matching method exactly once with the same xid, branch id and a JSON-equivalent action context; Committed/Rollbacked iff the user method returned no error; unknown resources and unreadable application data run no user code, report no success and do not stop the client; distinct_nontrivial = distinct (parameter kinds, try, registration, outcome, phase-two sequence, script) signatures"
	r.Assumptions = []string{"a request whose user method failed may stay unanswered (the coordinator retries) or carry a retryable-failed status; both count as 'not committed/rollbacked'", "the action context of phase two is compared with the application data the coordinator received at registration (what was captured at prepare)"}
	n := 260
	if r.Tier == "thorough" {
		n = 3000
	}
	if v := devN(); v > 0 {
		n = v
	}
	w, err := world.New(r)
	if err != nil {
		r.Errorf("%v", err)
		return
	}
	defer w.Close()
	ch, err := w.StartClient("c05", r.Tier == "thorough", world.InitArg{}, nil)
	if err != nil {
		r.Errorf("%v", err)
		return
	}
	defer ch.Kill()
	actions := []string{"actA", "act-B.v2", "动作C"}
	if err := ch.Call("tcc_register", actions, nil); err != nil {
		r.Errorf("tcc_register: %v", err)
		return
	}
	rnd := vc.NewRand(r.Seed, "c05")
	noReplyBudget := 1
	if r.Tier == "thorough" {
		noReplyBudget = 12
	}
	for i := 0; i < n; i++ {
		c := c05Gen(rnd, i, actions, &noReplyBudget)
		if !c05Run(r, w, ch, c) {
			return
		}
	}
}

func c05Gen(r *vc.Rand, i int, actions []string, noReply *int) *c05Case {
	c := &c05Case{Name: fmt.Sprintf("t%04d", i), Feat: map[string]string{}}
	ns := 1 + r.Intn(3)
	var kinds []string
	for k := 0; k < ns; k++ {
		p := c05Param{Kind: c05Kinds[r.Intn(len(c05Kinds))]}
		p.A = []int64{0, 1, -7, 1 << 40, 9007199254740993}[r.Intn(5)]
		p.B = []string{"", "x", "it's \"q\"", "名前", "{\"k\":1}"}[r.Intn(5)]
		p.C = 1.5
		p.F = r.Bool()
		if p.Kind == "nested" {
			if r.Bool() {
				p.N = map[string]interface{}{"x": 3, "y": []string{"p", "q"}}
			}
			if r.Bool() {
				p.M = map[string]int{"k1": 1, "k2": -2}
			}
			if r.Bool() {
				p.L = []int64{1, 2, 3}
			}
			if r.Bool() {
				v := int64(77)
				p.PI = &v
			}
			if r.Bool() {
				p.PN = map[string]interface{}{"x": 9, "y": []string{}}
			}
			p.I = []interface{}{nil, "s", 1.25, map[string]interface{}{"deep": []interface{}{1.0, "two"}}}[r.Intn(4)]
		}
		if strings.HasPrefix(p.Kind, "ctx_") || strings.HasPrefix(p.Kind, "bac") {
			if r.Bool() {
				p.Pre = map[string]interface{}{"caller": "value", "a": "shadowed"}
			}
		}
		st := c05Step{Action: actions[r.Intn(len(actions))], Param: p, Try: "ok", Reg: "ok"}
		switch r.Intn(10) {
		case 0:
			st.Try = "err"
		case 1:
			st.Try = "false"
		case 2:
			st.Try = "panic"
		}
		switch r.Intn(12) {
		case 0:
			st.Reg = "fail"
		case 1:
			if *noReply > 0 {
				*noReply--
				st.Reg = "noreply"
			}
		}
		kinds = append(kinds, p.Kind)
		c.Steps = append(c.Steps, st)
	}
	c.Outcome = []string{"nil", "error"}[r.Intn(2)]
	c.PhaseTwo = []string{"normal", "normal", "repeat2", "repeat3", "unknown-resource", "empty-appdata", "malformed-appdata", "non-object-context", "both-kinds"}[r.Intn(9)]
	c.P2Script = []string{"ok", "ok", "err-then-ok", "false", "panic"}[r.Intn(5)]
	sort.Strings(kinds)
	var tries, regs []string
	for _, s := range c.Steps {
		tries = append(tries, s.Try)
		regs = append(regs, s.Reg)
	}
	c.Feat = map[string]string{"param_kinds": strings.Join(kinds, "+"), "try": strings.Join(tries, ","), "register": strings.Join(regs, ","), "outcome": c.Outcome, "phase_two": c.PhaseTwo, "p2_script": c.P2Script}
	return c
}

func c05Run(r *vc.Run, w *world.World, ch *vc.Child, c *c05Case) bool {
	// scripts of the user methods
	script := map[string]interface{}{}
	p2 := map[string][]string{"ok": {"ok"}, "err-then-ok": {"err", "ok"}, "false": {"false"}, "panic": {"panic", "ok"}}[c.P2Script]
	tryOf := map[string]string{}
	for _, s := range c.Steps {
		tryOf[s.Action] = s.Try // the last step of an action decides (the script is per action)
	}
	for a, t := range tryOf {
		script[a] = map[string]interface{}{"try": t, "commit": p2, "rollback": p2}
	}
	// the per-action try script is applied per step instead: re-script before every step is not possible inside one
	// scope, so cases use one try outcome per action
	for i := range c.Steps {
		c.Steps[i].Try = tryOf[c.Steps[i].Action]
	}
	if err := ch.Call("tcc_script", script, nil); err != nil {
		r.Errorf("tcc_script: %v", err)
		return false
	}
	var drain []c05Call
	ch.Call("tcc_calls", nil, &drain)
	// registration behaviour per step (the n-th BranchRegister of this transaction)
	regOf := func(nth int) string {
		if nth-1 < len(c.Steps) {
			return c.Steps[nth-1].Reg
		}
		return "ok"
	}
	w.TC.AddRule(&faketc.Rule{Name: "c05", Match: func(q *faketc.Req) bool { return q.TxName == c.Name && q.Msg.Type == wire.TBranchRegister }, Do: func(q *faketc.Req) bool {
		// the n-th registration corresponds to the n-th Prepare that reached the coordinator; earlier steps that
		// failed end the business function, so the index equals the step index
		switch regOf(q.NthOfKind) {
		case "fail":
			q.ReplyFail("branch register refused by script", 6)
			return true
		case "noreply":
			return true
		}
		return false
	}})
	defer w.TC.ClearRules()
	var steps []gtxStep
	for _, s := range c.Steps {
		steps = append(steps, gtxStep{Op: "tcc", Action: s.Action, Params: s.Param, StopOnErr: true})
	}
	start := w.Clock.Now()
	var res scopeResult
	if err := ch.Call("gtx", &gtxScope{Case: c.Name, Name: c.Name, TimeoutMs: 60000, Outcome: c.Outcome, Label: "gtx", Steps: steps}, &res); err != nil {
		if !ch.Alive() {
			txt, _, _ := ch.PanicInfo()
			r.Violate(&vc.Violation{Clause: "client-crash", Shape: "crash", Features: c.Feat, Detail: "the client process died during phase one: " + clipStr(txt, 500), Case: c})
			return false
		}
		r.Inconc(c.Name + ": " + err.Error())
		r.Case("", nil)
		return true
	}
	xid := res.XidIn
	shape := featShape(c.Feat)
	var calls []c05Call
	ch.Call("tcc_calls", nil, &calls)
	events := w.TC.EventsSince(start)
	var hist []string
	for _, ev := range events {
		if ev.Type == "ping" || strings.Contains(strings.ToLower(ev.Type), "heartbeat") {
			continue
		}
		hist = append(hist, fmt.Sprintf("[%d] tc %s %s id=%d %s", ev.Seq, ev.Dir, ev.Type, ev.ID, clipStr(ev.Text, 300)))
	}
	viol := func(clause, detail string) {
		r.Violate(&vc.Violation{Clause: clause, Shape: shape, Features: c.Feat, Detail: detail, Case: c,
			History: map[string]interface{}{"steps": res.Steps, "returned": res.Returned + " " + res.Err, "user_calls": calls, "coordinator": hist}})
	}
	// ---- phase one ----
	var regs []*faketc.Event
	for _, ev := range events {
		if ev.Dir == "in" && ev.Msg != nil && ev.Msg.Type == wire.TBranchRegister && ev.Msg.S("xid") == xid {
			regs = append(regs, ev)
		}
	}
	var tries []c05Call
	for _, cl := range calls {
		if cl.Phase == "try" {
			tries = append(tries, cl)
		}
	}
	granted := map[int64]*faketc.Branch{}
	for _, b := range w.TC.BranchesOf(xid) {
		granted[b.ID] = b
	}
	ri, ti := 0, 0
	executed := 0
	for si, st := range c.Steps {
		if si >= len(res.Steps) || res.Steps[si].Skipped {
			break
		}
		executed++
		sr := res.Steps[si]
		if ri >= len(regs) {
			if sr.Panic != "" {
				viol("prepare-panicked", fmt.Sprintf("step %d (%s, params %s): Prepare panicked before registering: %s", si, st.Action, st.Param.Kind, clipStr(sr.Panic, 200)))
			} else {
				viol("not-registered", fmt.Sprintf("step %d (%s, params %s): Prepare inside a global transaction sent no BranchRegister (error: %q)", si, st.Action, st.Param.Kind, clipStr(sr.Err, 160)))
			}
			break
		}
		reg := regs[ri]
		ri++
		if reg.Msg.I("branchType") != 1 || reg.Msg.S("resourceId") != st.Action {
			viol("registration-wrong", fmt.Sprintf("step %d: BranchRegister carries branchType=%d resourceId=%q, expected TCC (1) and %q", si, reg.Msg.I("branchType"), reg.Msg.S("resourceId"), st.Action))
		}
		var app map[string]interface{}
		if err := json.Unmarshal([]byte(reg.Msg.S("applicationData")), &app); err != nil {
			viol("application-data-wrong", fmt.Sprintf("step %d: application data %q is not JSON", si, clipStr(reg.Msg.S("applicationData"), 120)))
		} else {
			actx, _ := app["actionContext"].(map[string]interface{})
			user := map[string]interface{}{}
			for k, v := range actx {
				if !c05SysKeys[k] {
					user[k] = v
				}
			}
			if want := st.Param.expected(); !c05JSONEq(user, want) {
				wb, _ := json.Marshal(want)
				ub, _ := json.Marshal(user)
				viol("application-data-wrong", fmt.Sprintf("step %d (params %s): tagged parameters in the application data are %s, the model says %s", si, st.Param.Kind, clipStr(string(ub), 200), clipStr(string(wb), 200)))
			}
		}
		if st.Reg != "ok" {
			// try must not run, Prepare must fail
			if ti < len(tries) && tries[ti].Seq > reg.Seq {
				viol("try-after-failed-registration", fmt.Sprintf("step %d: registration was %s but the user's try ran", si, st.Reg))
			}
			if sr.Err == "" && sr.Panic == "" {
				viol("failed-registration-swallowed", fmt.Sprintf("step %d: registration was %s but Prepare returned no error", si, st.Reg))
			}
			break
		}
		if ti >= len(tries) {
			viol("try-not-run", fmt.Sprintf("step %d: the branch was registered but the user's try never ran (error %q, panic %q)", si, clipStr(sr.Err, 120), clipStr(sr.Panic, 120)))
			break
		}
		try := tries[ti]
		ti++
		if try.Seq < reg.Seq {
			viol("try-before-registration", fmt.Sprintf("step %d: the user's try started at %d, the BranchRegister request reached the coordinator at %d", si, try.Seq, reg.Seq))
		}
		if try.Action != st.Action || try.Xid != xid || granted[try.BranchID] == nil {
			viol("try-context-wrong", fmt.Sprintf("step %d: try of %s saw xid %q branch %d; expected xid %q and one of the granted branch ids", si, try.Action, try.Xid, try.BranchID, xid))
		}
	}
	if len(regs) > ri {
		viol("extra-registration", fmt.Sprintf("%d BranchRegister requests for %d executed Prepare calls", len(regs), executed))
	}
	if len(tries) > ti {
		viol("extra-try", fmt.Sprintf("%d try executions for %d registered Prepare calls", len(tries), ti))
	}
	nontrivial := len(regs) > 0
	// ---- phase two ----
	commit := c.Outcome == "nil" && res.Returned == "nil"
	bs := w.TC.BranchesOf(xid)
	type p2req struct {
		Kind     string
		Branch   int64
		Res      string
		App      string
		Known    bool
		Readable bool
		ReqSeq   int64
		RespSeq  int64
		Status   int64 // -1 none
	}
	var sentReqs []*p2req
	send := func(kind string, b *faketc.Branch, resource, app string, known, readable bool) {
		s := w.TC.WaitSession("", 2*time.Second)
		if s == nil {
			return
		}
		q := &p2req{Kind: kind, Branch: b.ID, Res: resource, App: app, Known: known, Readable: readable, Status: -1}
		q.ReqSeq = w.Clock.Now()
		logOff := ch.LogSize()
		_, rch, err := w.TC.Request(s, faketc.BranchEndReq(kind == "commit", &faketc.Branch{ID: b.ID, Xid: xid, Type: 1, Resource: resource, AppData: app}), 0)
		if err != nil {
			return
		}
		// a request whose manager failed is never answered: the processor logs "branch commit/rollback error" then
		deadline := time.Now().Add(3 * time.Second)
	wait:
		for time.Now().Before(deadline) {
			select {
			case m := <-rch:
				q.Status = m.I("branchStatus")
				break wait
			case <-time.After(5 * time.Millisecond):
			}
			if ch.LogSize() > logOff {
				if l := ch.LogFrom(logOff); strings.Contains(l, "branch rollback error") || strings.Contains(l, "branch commit error") || strings.Contains(l, "panic") {
					select {
					case m := <-rch:
						q.Status = m.I("branchStatus")
					case <-time.After(40 * time.Millisecond):
					}
					break wait
				}
			}
		}
		q.RespSeq = w.Clock.Now()
		sentReqs = append(sentReqs, q)
	}
	kind := "rollback"
	if commit {
		kind = "commit"
	}
	for _, b := range bs {
		switch c.PhaseTwo {
		case "normal":
			send(kind, b, b.Resource, b.AppData, true, true)
		case "repeat2", "repeat3":
			for k := 0; k < int(c.PhaseTwo[6]-'0'); k++ {
				send(kind, b, b.Resource, b.AppData, true, true)
			}
		case "unknown-resource":
			send(kind, b, b.Resource+"-unknown", b.AppData, false, true)
			send(kind, b, b.Resource, b.AppData, true, true)
		case "empty-appdata":
			send(kind, b, b.Resource, "", true, true)
		case "malformed-appdata":
			send(kind, b, b.Resource, "{not json", true, false)
			send(kind, b, b.Resource, b.AppData, true, true)
		case "non-object-context":
			send(kind, b, b.Resource, `{"actionContext":"a string"}`, true, false)
			send(kind, b, b.Resource, b.AppData, true, true)
		case "both-kinds":
			send(kind, b, b.Resource, b.AppData, true, true)
			other := "commit"
			if kind == "commit" {
				other = "rollback"
			}
			send(other, b, b.Resource, b.AppData, true, true)
		}
	}
	var calls2 []c05Call
	ch.Call("tcc_calls", nil, &calls2)
	if !ch.Alive() {
		txt, _, _ := ch.PanicInfo()
		viol("client-crash", "the client process died while handling phase-two requests ("+c.PhaseTwo+"): "+clipStr(txt, 600))
		r.Case(shape, nil)
		return false
	}
	callCount := map[string]int{}
	for _, q := range sentReqs {
		var mine []c05Call
		for _, cl := range calls2 {
			if cl.Phase == q.Kind && cl.Seq > q.ReqSeq && cl.Seq <= q.RespSeq && cl.BranchID == q.Branch && cl.Xid == xid {
				mine = append(mine, cl)
			}
		}
		success := (q.Kind == "commit" && q.Status == 5) || (q.Kind == "rollback" && q.Status == 8)
		tag := fmt.Sprintf("%s of branch %d (resource %q)", q.Kind, q.Branch, q.Res)
		if !q.Known || !q.Readable {
			why := "an unknown resource"
			if q.Known {
				why = "unreadable application data"
			}
			if len(mine) > 0 && !q.Known {
				viol("user-code-for-unknown-resource", fmt.Sprintf("%s: user code ran for %s", tag, why))
			}
			if success && len(mine) == 0 {
				viol("success-without-user-code", fmt.Sprintf("%s with %s was answered with the success status %d although no user method ran", tag, why, q.Status))
			}
			continue
		}
		if len(mine) != 1 {
			viol("phase-two-call-count", fmt.Sprintf("%s: the user's %s ran %d times for one request", tag, q.Kind, len(mine)))
			continue
		}
		cl := mine[0]
		key := fmt.Sprintf("%s|%d", q.Kind, q.Branch)
		callCount[key]++
		if cl.Action != q.Res || cl.CtxAction != q.Res {
			viol("phase-two-wrong-action", fmt.Sprintf("%s was dispatched to action %q (context action name %q)", tag, cl.Action, cl.CtxAction))
		}
		var want interface{} = map[string]interface{}{}
		if q.App != "" {
			var app map[string]interface{}
			json.Unmarshal([]byte(q.App), &app)
			if v, ok := app["actionContext"]; ok {
				want = v
			}
		}
		var got interface{}
		d := json.NewDecoder(bytes.NewReader(cl.Context))
		d.Decode(&got)
		if got == nil {
			got = map[string]interface{}{}
		}
		if !c05JSONEq(got, want) {
			viol("phase-two-context-differs", fmt.Sprintf("%s: the action context seen by the user method is %s, the application data says %s", tag, clipStr(string(cl.Context), 200), clipStr(q.App, 200)))
		}
		userOK := cl.Outcome == "ok" || cl.Outcome == "false"
		if userOK != success {
			viol("status-not-faithful", fmt.Sprintf("%s: the user method returned %q but the reported status is %d (5 = Committed, 8 = Rollbacked, -1 = no answer)", tag, cl.Outcome, q.Status))
		}
	}
	// user code that ran without any request
	for _, cl := range calls2 {
		matched := false
		for _, q := range sentReqs {
			if cl.Phase == q.Kind && cl.Seq > q.ReqSeq && cl.Seq <= q.RespSeq && cl.BranchID == q.Branch {
				matched = true
			}
		}
		if !matched && cl.Phase != "try" {
			viol("unrequested-user-code", fmt.Sprintf("the user's %s of %s ran for xid %q branch %d without a matching request", cl.Phase, cl.Action, cl.Xid, cl.BranchID))
		}
	}
	if nontrivial {
		r.Case(shape, map[string]interface{}{"case": c, "registrations": len(regs), "tries": len(tries), "phase_two_requests": len(sentReqs), "user_phase_two_calls": len(calls2), "coordinator": clipList(hist, 14)})
	} else {
		r.Case("", nil)
	}
	r.Count("branch_registrations", int64(len(regs)))
	r.Count("phase_two_requests", int64(len(sentReqs)))
	return true
}
