package checks

import (
	"bytes"
	"encoding/base64"
	"encoding/json"
	"fmt"
	"math"
	"sort"
	"strings"
	"time"

	"verif/faketc"
	mm "verif/minimysql"
	"verif/wire"
)

// ---- local transactions reconstructed from the DB journal + TC log of one case window ----

type atLocalTx struct {
	Conn      int
	Class     string
	BeginSeq  int64
	EndSeq    int64 // seq (arrival) of COMMIT / ROLLBACK; 0 = still open at the end of the window
	EndOutSeq int64
	Ended     string // COMMIT | ROLLBACK | IMPLICIT | "" (open)
	EndErr    *mm.MyErr
	Stmts     []*mm.JournalEntry // business DML on application tables, in order
	Images    []*mm.JournalEntry // image selects (SELECT / SELECT ... FOR UPDATE on application tables)
	UndoIns   []*mm.JournalEntry // INSERT INTO undo_log entries
	All       []*mm.JournalEntry
	Durable   []mm.RowChange // rows made durable by the end command
	Register  *faketc.Event  // BranchRegister request that arrived inside this transaction (last one)
	RegReply  *faketc.Event
	Reports   []*faketc.Event
}

func isAppTable(t string) bool {
	return t != "" && !strings.EqualFold(t, "undo_log")
}

func stmtIsDML(j *mm.JournalEntry) bool {
	return (j.Kind == "INSERT" || j.Kind == "UPDATE" || j.Kind == "DELETE") && isAppTable(j.Table)
}

// atLocalTxs groups the journal of connections of the given classes into local transactions and attaches the TC
// events of xid that happened inside them.
func atLocalTxs(journal []*mm.JournalEntry, tc []*faketc.Event, xid string, classes map[string]bool) []*atLocalTx {
	open := map[int]*atLocalTx{}
	var out []*atLocalTx
	for _, j := range journal {
		if !classes[j.Class] {
			continue
		}
		cur := open[j.Conn]
		switch j.Kind {
		case "BEGIN":
			if cur != nil {
				cur.EndSeq, cur.EndOutSeq, cur.Ended, cur.Durable = j.Seq, j.SeqOut, "IMPLICIT", j.Committed
				delete(open, j.Conn)
			}
			if j.Err == nil && j.Injected == "" {
				t := &atLocalTx{Conn: j.Conn, Class: j.Class, BeginSeq: j.Seq}
				open[j.Conn] = t
				out = append(out, t)
			}
			continue
		case "COMMIT", "ROLLBACK":
			if cur != nil {
				cur.All = append(cur.All, j)
				cur.EndSeq, cur.EndOutSeq, cur.EndErr = j.Seq, j.SeqOut, j.Err
				if j.Err == nil && j.Injected == "" {
					cur.Ended = j.Kind
					cur.Durable = j.Committed
					delete(open, j.Conn)
				} else if j.Injected == "drop-before" || j.Injected == "drop-after" {
					cur.Ended = "DROPPED"
					if j.Injected == "drop-after" && j.Kind == "COMMIT" {
						cur.Ended = "COMMIT"
						cur.Durable = j.Committed
					}
					delete(open, j.Conn)
				}
			}
			continue
		}
		if cur == nil {
			continue
		}
		cur.All = append(cur.All, j)
		switch {
		case stmtIsDML(j):
			cur.Stmts = append(cur.Stmts, j)
		case (j.Kind == "SELECT" || j.Kind == "SELECT_FOR_UPDATE") && isAppTable(j.Table):
			cur.Images = append(cur.Images, j)
		case j.Kind == "INSERT" && strings.EqualFold(j.Table, "undo_log"):
			cur.UndoIns = append(cur.UndoIns, j)
		}
		if j.Injected == "drop-before" || j.Injected == "drop-after" {
			cur.Ended = "DROPPED"
			cur.EndSeq = j.Seq
			delete(open, j.Conn)
		}
	}
	// attach TC events by sequence window
	reqByID := map[uint32]*faketc.Event{}
	for _, e := range tc {
		if e.Msg == nil {
			continue
		}
		if e.Dir == "in" && e.Msg.S("xid") == xid {
			reqByID[e.ID] = e
		}
		// local transactions whose window contains the event; when several connections are inside a local transaction
		// at that moment, a registration belongs to the one whose statements touched the rows its lock key names
		var cands []*atLocalTx
		for _, t := range out {
			end := t.EndSeq
			if end == 0 {
				end = math.MaxInt64
			}
			if e.Seq >= t.BeginSeq && e.Seq <= end {
				cands = append(cands, t)
			}
		}
		if e.Dir == "in" && e.Msg.Type == wire.TBranchRegister && e.Msg.S("xid") == xid && len(cands) > 1 {
			var named []*atLocalTx
			for _, t := range cands {
				if localTxTouches(t, e.Msg.S("lockKey")) {
					named = append(named, t)
				}
			}
			if len(named) > 0 {
				cands = named
			}
		}
		for _, t := range cands {
			switch {
			case e.Dir == "in" && e.Msg.Type == wire.TBranchRegister && e.Msg.S("xid") == xid:
				t.Register = e
			case e.Dir == "out" && e.Msg.Type == wire.TBranchRegisterResult && t.Register != nil && e.ID == t.Register.ID:
				t.RegReply = e
			}
		}
	}
	return out
}

// localTxTouches: did a statement of this local transaction select a row that the lock key names? (journal keys are
// type-prefixed components separated by NUL; lock keys join the components with '_')
func localTxTouches(t *atLocalTx, lockKey string) bool {
	entries := parseLockKey(lockKey)
	for _, j := range t.Stmts {
		for _, k := range j.Matched {
			var comps []string
			for _, c := range strings.Split(strings.TrimSuffix(k, "\x00"), "\x00") {
				if len(c) > 0 {
					comps = append(comps, strings.ToLower(c[1:]))
				}
			}
			sort.Strings(comps)
			for _, e := range entries {
				if !strings.EqualFold(e.Table, j.Table) {
					continue
				}
				got := make([]string, len(e.PK))
				for i, p := range e.PK {
					got[i] = strings.ToLower(p)
				}
				sort.Strings(got)
				if strings.Join(got, "\x00") == strings.Join(comps, "\x00") {
					return true
				}
			}
		}
	}
	return false
}

// ---- lock keys ----

type lockEntry struct {
	Table string
	PK    []string
	Text  string // the entry's pk text as sent
}

// parseLockKey parses "table:pk1_pk2,pk3_pk4;table2:..." (Seata AT lock key text).
func parseLockKey(s string) []lockEntry {
	var out []lockEntry
	for _, part := range strings.Split(s, ";") {
		part = strings.TrimSpace(part)
		if part == "" {
			continue
		}
		i := strings.Index(part, ":")
		if i < 0 {
			continue
		}
		tbl := strings.ToUpper(strings.Trim(part[:i], "` "))
		for _, pk := range strings.Split(part[i+1:], ",") {
			if pk == "" {
				continue
			}
			out = append(out, lockEntry{Table: tbl, PK: strings.Split(pk, "_"), Text: pk})
		}
	}
	return out
}

// ---- undo log images (independent JSON reading; never uses seata-go's decoder) ----

type imgField struct {
	KeyType string          `json:"keyType"`
	Name    string          `json:"name"`
	Type    int             `json:"type"`
	Value   json.RawMessage `json:"value"`
}

type imgRow struct {
	Fields []imgField `json:"fields"`
}

type imgRecord struct {
	TableName string   `json:"tableName"`
	SQLType   string   `json:"sqlType"`
	Rows      []imgRow `json:"rows"`
}

type imgUndo struct {
	SQLType     string     `json:"sqlType"`
	TableName   string     `json:"tableName"`
	BeforeImage *imgRecord `json:"beforeImage"`
	AfterImage  *imgRecord `json:"afterImage"`
}

type imgBranchUndo struct {
	Xid      string    `json:"xid"`
	BranchID int64     `json:"branchId"`
	Logs     []imgUndo `json:"sqlUndoLogs"`
}

func rollbackInfoOf(j *mm.JournalEntry) []byte {
	if len(j.Args) < 4 {
		return nil
	}
	switch x := j.Args[3].(type) {
	case []byte:
		return x
	case string:
		return []byte(x)
	}
	return nil
}

func parseUndoJSON(b []byte) (*imgBranchUndo, error) {
	var u imgBranchUndo
	d := json.NewDecoder(bytes.NewReader(b))
	d.UseNumber()
	if err := d.Decode(&u); err != nil {
		return nil, err
	}
	return &u, nil
}

// imgValueEquals compares an image field's JSON value with the engine's typed ground-truth value.
func imgValueEquals(raw json.RawMessage, jdbcType int, truth interface{}) (bool, string) {
	s := strings.TrimSpace(string(raw))
	if truth == nil {
		if s == "null" || s == "" {
			return true, ""
		}
		return false, fmt.Sprintf("image has %s, row has NULL", clipStr(s, 60))
	}
	if s == "null" || s == "" {
		return false, fmt.Sprintf("image has null, row has %s", clipStr(mm.TextOf(truth), 60))
	}
	switch t := truth.(type) {
	case int64:
		var n json.Number
		if err := json.Unmarshal(raw, &n); err != nil {
			return false, "image value is not a number: " + clipStr(s, 60)
		}
		if i, err := n.Int64(); err == nil {
			return i == t, fmt.Sprintf("image %d, row %d", i, t)
		}
		f, _ := n.Float64()
		return f == float64(t), fmt.Sprintf("image %v, row %d", f, t)
	case uint64:
		var n json.Number
		if err := json.Unmarshal(raw, &n); err != nil {
			return false, "image value is not a number: " + clipStr(s, 60)
		}
		return n.String() == fmt.Sprint(t), fmt.Sprintf("image %s, row %d", n.String(), t)
	case float64:
		var n json.Number
		if err := json.Unmarshal(raw, &n); err != nil {
			return false, "image value is not a number: " + clipStr(s, 60)
		}
		f, _ := n.Float64()
		if jdbcType == 7 { // REAL: single precision column
			return float32(f) == float32(t), fmt.Sprintf("image %v, row %v", f, t)
		}
		return f == t, fmt.Sprintf("image %v, row %v", f, t)
	case mm.Dec:
		var n json.Number
		if err := json.Unmarshal(raw, &n); err != nil {
			var str string
			if json.Unmarshal(raw, &str) == nil {
				return str == t.String(), fmt.Sprintf("image %q, row %s", str, t.String())
			}
			return false, "image value is not a number: " + clipStr(s, 60)
		}
		f, _ := n.Float64()
		tf, _ := t.R.Float64()
		return f == tf, fmt.Sprintf("image %v, row %s", f, t.String())
	case string:
		var str string
		if err := json.Unmarshal(raw, &str); err != nil {
			return false, "image value is not a string: " + clipStr(s, 60)
		}
		return str == t, fmt.Sprintf("image %q, row %q", clipStr(str, 40), clipStr(t, 40))
	case []byte:
		var str string
		if err := json.Unmarshal(raw, &str); err != nil {
			return false, "image value is not a string: " + clipStr(s, 60)
		}
		if b, err := base64.StdEncoding.DecodeString(str); err == nil && bytes.Equal(b, t) {
			return true, ""
		}
		return str == string(t), fmt.Sprintf("image %q, row %x", clipStr(str, 40), t)
	case time.Time:
		var str string
		if err := json.Unmarshal(raw, &str); err != nil {
			return false, "image value is not a time string: " + clipStr(s, 60)
		}
		pt, err := time.Parse(time.RFC3339Nano, str)
		if err != nil {
			return false, "image time unparsable: " + str
		}
		return pt.Equal(t), fmt.Sprintf("image %s, row %s", str, t.Format(time.RFC3339Nano))
	}
	return false, fmt.Sprintf("unsupported ground-truth type %T", truth)
}

// imgRowKey renders the pk of an image row in key order of table def (values as text).
func imgRowKey(def *mm.Table, r imgRow) (string, bool) {
	vals := map[string]string{}
	for _, f := range r.Fields {
		var v interface{}
		d := json.NewDecoder(bytes.NewReader(f.Value))
		d.UseNumber()
		if d.Decode(&v) != nil {
			continue
		}
		switch x := v.(type) {
		case json.Number:
			vals[strings.ToLower(f.Name)] = x.String()
		case string:
			vals[strings.ToLower(f.Name)] = x
		}
	}
	var parts []string
	for _, p := range def.PK {
		v, ok := vals[strings.ToLower(def.Cols[p].Name)]
		if !ok {
			return "", false
		}
		parts = append(parts, v)
	}
	return strings.Join(parts, "\x00"), true
}

func truthRowKey(def *mm.Table, row []interface{}) string {
	return strings.Join(def.PKValues(row), "\x00")
}

func sortedKeys(m map[string]bool) []string {
	var ks []string
	for k := range m {
		ks = append(ks, k)
	}
	sort.Strings(ks)
	return ks
}
