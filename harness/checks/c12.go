package checks

import (
	"bytes"
	"encoding/hex"
	"fmt"
	"strings"

	"verif/vc"
	"verif/wire"
)

// C12 — wire codec matches the Seata v1 layout and round-trips every message.
//
// Oracle: the independent layout table of package wire. The real CodecManager runs inside a client child; this
// process only compares byte strings and generic messages.

func init() {
	Registry["C12"] = Check{Level: "exploration", Fn: runC12}
}

type c12Case struct {
	m     *wire.Msg
	shape string
	feat  map[string]string
}

func lenClass(n int) string {
	switch {
	case n == 0:
		return "0"
	case n < 128:
		return "<128"
	case n < 256:
		return "<256"
	case n <= 32767:
		return "<=32767"
	case n <= 65535:
		return "<=65535"
	}
	return ">65535"
}

func intClass(v int64, bits int) string {
	switch {
	case v == 0:
		return "0"
	case v < 0:
		if bits == 64 && v == -1<<63 {
			return "min"
		}
		return "neg"
	case bits == 64 && v == 1<<63-1, bits == 32 && v == 1<<31-1, bits == 8 && v == 255:
		return "max"
	case v > 1<<53:
		return ">2^53"
	case bits == 32 && v >= 1<<24:
		return ">=2^24"
	case bits == 32 && v >= 1<<16:
		return ">=2^16"
	case bits == 32 && v >= 1000:
		if v%1000 == 0 {
			return ">=1000,whole-s"
		}
		return ">=1000"
	case v >= 128:
		return ">=128"
	}
	return "small"
}

func mkString(r *vc.Rand, n int, multi bool) string {
	if n == 0 {
		return ""
	}
	var sb strings.Builder
	alpha := "abcdefghijklmnopqrstuvwxyzABCDEFGHIJKLMNOPQRSTUVWXYZ0123456789:;,_-/{}\"' "
	runes := []string{"é", "名", "前", "😀", "ß", "Ж"}
	for sb.Len() < n {
		if multi && r.Intn(4) == 0 {
			s := runes[r.Intn(len(runes))]
			if sb.Len()+len(s) <= n {
				sb.WriteString(s)
				continue
			}
		}
		sb.WriteByte(alpha[r.Intn(len(alpha))])
	}
	return sb.String()
}

var c12Str16Lens = []int{0, 1, 5, 127, 128, 255, 256, 1000, 32767, 32768, 65535}
var c12Str32Lens = []int{0, 1, 5, 127, 128, 255, 256, 1000, 32767, 32768, 65535, 65536, 70001}
var c12MsgLens = []int{0, 1, 5, 127, 128, 255, 256, 300, 1000, 32767, 32768, 40000, 65535, 65536, 70001}
var c12I64 = []int64{0, 1, -1, 7, 127, 128, 255, 256, 1 << 31, 1<<53 + 1, -(1<<53 + 1), 1<<63 - 1, -1 << 63}
var c12I32 = []int64{0, 1, 999, 1000, 60000, 61500, 1 << 30, 1<<31 - 1}

func c12Gen(r *vc.Rand, tier string) []c12Case {
	var out []c12Case
	typical := func(t int16, f wire.Field) interface{} {
		switch f.Kind {
		case wire.U8:
			return int64(3)
		case wire.I16, wire.I32:
			return int64(60000)
		case wire.I64:
			return int64(1<<53 + 1)
		case wire.Bool8, wire.Lock16:
			return true
		case wire.Str16, wire.Str32:
			return "x:1:2"
		}
		return nil
	}
	build := func(t int16, override map[string]interface{}, resultCode int64, msg string) c12Case {
		m := &wire.Msg{Type: t, F: map[string]interface{}{}}
		var sig []string
		feat := map[string]string{"type": wire.Names[t]}
		for _, f := range wire.Layout[t] {
			if f.Kind == wire.Result {
				m.F["resultCode"] = resultCode
				m.F["msg"] = msg
				rc := "success"
				if resultCode == 0 {
					rc = "failed"
				} else if resultCode != 1 {
					rc = "other"
				}
				feat["result"] = rc
				feat["msglen"] = lenClass(len(msg))
				sig = append(sig, "result="+rc+",msg="+lenClass(len(msg)))
				continue
			}
			v, ok := override[f.Name]
			if !ok {
				v = typical(t, f)
			}
			m.F[f.Name] = v
			switch x := v.(type) {
			case string:
				mb := ""
				for i := 0; i < len(x); i++ {
					if x[i] >= 0x80 {
						mb = "+mb"
						break
					}
				}
				sig = append(sig, f.Name+"="+lenClass(len(x))+mb)
			case int64:
				bits := 64
				if f.Kind == wire.U8 {
					bits = 8
				} else if f.Kind == wire.I32 {
					bits = 32
				}
				sig = append(sig, f.Name+"="+intClass(x, bits))
			case bool:
				sig = append(sig, fmt.Sprintf("%s=%v", f.Name, x))
			}
		}
		return c12Case{m: m, shape: wire.Names[t] + "|" + strings.Join(sig, "|"), feat: feat}
	}
	hasResult := func(t int16) bool {
		for _, f := range wire.Layout[t] {
			if f.Kind == wire.Result {
				return true
			}
		}
		return false
	}
	for _, t := range wire.TypeCodes() {
		// one factor at a time: every pool value of every field, other fields typical
		rcs := []int64{1}
		if hasResult(t) {
			rcs = []int64{1, 0}
			// result-code bytes outside the enum: the layout attaches a message to code 0 only
			for v := int64(2); v < 256; v++ {
				if tier == "quick" && v > 4 && v != 127 && v != 128 && v != 255 {
					continue
				}
				out = append(out, build(t, nil, v, ""))
			}
		}
		for _, rc := range rcs {
			msg := ""
			if rc == 0 {
				msg = "boom"
			}
			out = append(out, build(t, nil, rc, msg))
			for _, f := range wire.Layout[t] {
				switch f.Kind {
				case wire.U8:
					for v := 0; v < 256; v++ {
						if tier == "quick" && v > 20 && v < 250 && v%16 != 0 && v != 127 && v != 128 {
							continue
						}
						out = append(out, build(t, map[string]interface{}{f.Name: int64(v)}, rc, msg))
					}
				case wire.I32:
					for _, v := range c12I32 {
						out = append(out, build(t, map[string]interface{}{f.Name: v}, rc, msg))
					}
					// durations across the millisecond range: a dense sweep of small values and seeded values of every magnitude
					for v := int64(1001); v <= 1300; v++ {
						out = append(out, build(t, map[string]interface{}{f.Name: v}, rc, msg))
					}
					for i := 0; i < 400; i++ {
						out = append(out, build(t, map[string]interface{}{f.Name: int64(r.U64() % (1 << uint(1+r.Intn(31))))}, rc, msg))
					}
				case wire.I64:
					for _, v := range c12I64 {
						out = append(out, build(t, map[string]interface{}{f.Name: v}, rc, msg))
					}
				case wire.Bool8, wire.Lock16:
					out = append(out, build(t, map[string]interface{}{f.Name: false}, rc, msg))
				case wire.Str16:
					for _, n := range c12Str16Lens {
						out = append(out, build(t, map[string]interface{}{f.Name: mkString(r, n, false)}, rc, msg))
						if n > 1 {
							out = append(out, build(t, map[string]interface{}{f.Name: mkString(r, n, true)}, rc, msg))
						}
					}
				case wire.Str32:
					for _, n := range c12Str32Lens {
						out = append(out, build(t, map[string]interface{}{f.Name: mkString(r, n, n%2 == 1)}, rc, msg))
					}
				case wire.Result:
					if rc == 0 {
						for _, n := range c12MsgLens {
							out = append(out, build(t, nil, 0, mkString(r, n, false)))
							if n > 1 {
								out = append(out, build(t, nil, 0, mkString(r, n, true)))
							}
						}
					} else {
						// success with a (meaningless) message: must not be written
						out = append(out, build(t, nil, 1, "ignored"))
					}
				}
			}
		}
		// random combinations
		n := 40
		if tier == "thorough" {
			n = 1500
		}
		for i := 0; i < n; i++ {
			ov := map[string]interface{}{}
			for _, f := range wire.Layout[t] {
				switch f.Kind {
				case wire.U8:
					ov[f.Name] = int64(r.Intn(256))
				case wire.I32:
					if r.Bool() {
						ov[f.Name] = c12I32[r.Intn(len(c12I32))]
					} else {
						ov[f.Name] = int64(r.U64() % (1 << uint(1+r.Intn(31))))
					}
				case wire.I64:
					if r.Bool() {
						ov[f.Name] = c12I64[r.Intn(len(c12I64))]
					} else {
						ov[f.Name] = int64(r.U64())
					}
				case wire.Bool8, wire.Lock16:
					ov[f.Name] = r.Bool()
				case wire.Str16:
					ls := c12Str16Lens
					k := ls[r.Intn(len(ls))]
					if k > 1000 && r.Intn(4) != 0 {
						k = r.Intn(600)
					}
					ov[f.Name] = mkString(r, k, r.Bool())
				case wire.Str32:
					ls := c12Str32Lens
					k := ls[r.Intn(len(ls))]
					if k > 1000 && r.Intn(4) != 0 {
						k = r.Intn(600)
					}
					ov[f.Name] = mkString(r, k, r.Bool())
				}
			}
			rc := int64(1)
			msg := ""
			if hasResult(t) && r.Bool() {
				rc = 0
				k := c12MsgLens[r.Intn(len(c12MsgLens))]
				if k > 1000 && r.Intn(3) != 0 {
					k = r.Intn(500)
				}
				msg = mkString(r, k, r.Bool())
			}
			out = append(out, build(t, ov, rc, msg))
		}
	}
	return out
}

type c12Item struct {
	Msg   *wire.TextMsg `json:"msg,omitempty"`
	Bytes string        `json:"bytes,omitempty"`
}
type c12Out struct {
	Bytes string        `json:"bytes,omitempty"`
	Msg   *wire.TextMsg `json:"msg,omitempty"`
	Panic string        `json:"panic,omitempty"`
	Err   string        `json:"err,omitempty"`
}

func runC12(r *vc.Run, replay string) {
	r.Rule = "cases = for each of the 24 message types: every pool value of every field with the other fields typical (string lengths 0..65535/70001, all or sampled byte values for enums, boundary 64-bit ids, result code success/failed with message lengths 0..70001) + seeded random field combinations; each case is encoded by the real CodecManager, compared byte-for-byte with the independent layout table, decoded back by the real codec from both byte strings; distinct_nontrivial = distinct (type, per-field value class) signatures"
	r.Assumptions = []string{"trusted base: harness/wire layout table transcribed from the Seata 1.x Java serializer (io.seata.serializer.seata.protocol.*Codec), not from the Go sources",
		"field values are valid UTF-8; str16 fields are exercised up to 65535 bytes, beyond that only the error message (truncation clause)"}
	bin, err := vc.BuildClient(r.Root, r.Prop, false)
	if err != nil {
		r.Errorf("%v", err)
		return
	}
	ch, err := vc.StartChild(bin, r.RunDir, "c12", nil, nil)
	if err != nil {
		r.Errorf("%v", err)
		return
	}
	defer ch.Kill()

	// registry clause
	var reg []struct {
		Type       int16 `json:"type"`
		Registered bool  `json:"registered"`
		CodecType  int   `json:"codec_type"`
		MsgType    int   `json:"msg_type"`
	}
	if err := ch.Call("codec_registry", nil, &reg); err != nil {
		r.Errorf("codec_registry: %v", err)
		return
	}
	for _, row := range reg {
		name := wire.Names[row.Type]
		feat := map[string]string{"type": name}
		if !row.Registered {
			r.Violate(&vc.Violation{Clause: "registry-missing", Shape: name, Features: feat, Detail: fmt.Sprintf("no codec registered under type code %d (%s)", row.Type, name), Case: row})
		} else if row.CodecType != int(row.Type) {
			r.Violate(&vc.Violation{Clause: "registry-type", Shape: name, Features: feat, Detail: fmt.Sprintf("codec registered under %d reports type %d", row.Type, row.CodecType), Case: row})
		}
		if row.MsgType != int(row.Type) {
			r.Violate(&vc.Violation{Clause: "registry-msgtype", Shape: name, Features: feat, Detail: fmt.Sprintf("message value of %s reports type code %d, table says %d", name, row.MsgType, row.Type), Case: row})
		}
		r.Count("registry_rows", 1)
	}

	cases := c12Gen(vc.NewRand(r.Seed, "c12"), r.Tier)
	const batch = 200
	for lo := 0; lo < len(cases); lo += batch {
		hi := lo + batch
		if hi > len(cases) {
			hi = len(cases)
		}
		// step 1: encode with Go, and decode the table bytes with Go
		var items []c12Item
		for _, c := range cases[lo:hi] {
			t := wire.ToText(c.m)
			items = append(items, c12Item{Msg: &t})
			if tb, err := wire.Encode(c.m); err == nil {
				items = append(items, c12Item{Bytes: hex.EncodeToString(tb)})
			} else {
				items = append(items, c12Item{Bytes: ""})
			}
		}
		var outs []c12Out
		if err := ch.Call("codec_batch", items, &outs); err != nil {
			r.Errorf("codec_batch: %v", err)
			return
		}
		// step 2: decode the Go bytes with Go
		var items2 []c12Item
		for i := range cases[lo:hi] {
			items2 = append(items2, c12Item{Bytes: outs[2*i].Bytes})
		}
		var outs2 []c12Out
		if err := ch.Call("codec_batch", items2, &outs2); err != nil {
			r.Errorf("codec_batch: %v", err)
			return
		}
		for i, c := range cases[lo:hi] {
			c12Judge(r, c, outs[2*i], outs[2*i+1], outs2[i])
		}
	}
	r.Exhaustive = append(r.Exhaustive, "registry rows of all 24 type codes")
}

func c12Judge(r *vc.Run, c c12Case, enc, decTable, decGo c12Out) {
	sample := map[string]interface{}{"shape": c.shape, "go_bytes_prefix": clipHex(enc.Bytes, 48)}
	r.Case(c.shape, sample)
	r.Count("encodes", 1)
	viol := func(clause, detail string) {
		r.Violate(&vc.Violation{Clause: clause, Shape: c.shape, Features: c.feat, Detail: detail,
			Case: map[string]interface{}{"message": wire.ToText(c.m)}, History: map[string]interface{}{"go_bytes": clipHex(enc.Bytes, 200), "go_err": enc.Err, "go_panic": enc.Panic}})
	}
	if enc.Panic != "" {
		viol("encode-panic", "Encode panicked: "+enc.Panic)
		return
	}
	if enc.Err != "" {
		viol("encode-error", enc.Err)
		return
	}
	goBytes, _ := hex.DecodeString(enc.Bytes)
	overlong := len(c.m.S("msg")) > wire.MaxMsg && c.m.I("resultCode") == 0 && hasResultField(c.m.Type)
	tb, terr := wire.Encode(c.m)
	if terr != nil {
		r.Errorf("table cannot encode generated case %s: %v", c.shape, terr)
		return
	}
	if !overlong {
		if !bytes.Equal(goBytes, tb) {
			viol("layout", fmt.Sprintf("encoded body differs from the Seata v1 layout: go=%s (len %d) table=%s (len %d); first difference at byte %d", clipHex(enc.Bytes, 64), len(goBytes), clipHex(hex.EncodeToString(tb), 64), len(tb), firstDiff(goBytes, tb)))
		}
		// Decode(table bytes) == m
		r.Count("decodes", 1)
		if decTable.Panic != "" {
			viol("decode-panic", "Decode(table bytes) panicked: "+decTable.Panic)
		} else if decTable.Err != "" || decTable.Msg == nil {
			viol("decode-table", "Decode(table bytes) failed: "+decTable.Err)
		} else if ok, why := wire.Equal(c.m, wire.FromText(*decTable.Msg)); !ok {
			viol("decode-table", "Decode(v1 layout bytes) != message: "+why)
		}
		// Decode(Encode(m)) == m
		r.Count("decodes", 1)
		if decGo.Panic != "" {
			viol("decode-panic", "Decode(Encode(m)) panicked: "+decGo.Panic)
		} else if decGo.Err != "" || decGo.Msg == nil {
			viol("roundtrip", "Decode(Encode(m)) failed: "+decGo.Err)
		} else if ok, why := wire.Equal(c.m, wire.FromText(*decGo.Msg)); !ok {
			viol("roundtrip", "Decode(Encode(m)) != m: "+why)
		}
		return
	}
	// truncation clause: remaining fields stay decodable, message is a prefix
	r.Count("overlong_msgs", 1)
	wm, n, werr := wire.Decode(goBytes)
	if werr != nil {
		viol("truncate", fmt.Sprintf("over-long message (%d bytes): Go bytes are not decodable by the v1 layout: %v", len(c.m.S("msg")), werr))
	} else {
		if n != len(goBytes) {
			viol("truncate", fmt.Sprintf("over-long message: v1 decode consumed %d of %d bytes", n, len(goBytes)))
		}
		cp := *c.m
		cp.F = map[string]interface{}{}
		for k, v := range c.m.F {
			cp.F[k] = v
		}
		cp.F["msg"] = wm.S("msg")
		if !strings.HasPrefix(c.m.S("msg"), wm.S("msg")) || len(wm.S("msg")) > wire.MaxMsg {
			viol("truncate", fmt.Sprintf("over-long message: decoded msg (%d bytes) is not a <=32767-byte prefix of the original", len(wm.S("msg"))))
		} else if ok, why := wire.Equal(&cp, wm); !ok {
			viol("truncate", "over-long message: other fields changed after truncation: "+why)
		}
	}
	if decGo.Panic != "" {
		viol("decode-panic", "Decode(Encode(m)) with over-long msg panicked: "+decGo.Panic)
	} else if decGo.Msg == nil {
		viol("truncate-roundtrip", "Decode(Encode(m)) with over-long msg failed: "+decGo.Err)
	} else {
		gm := wire.FromText(*decGo.Msg)
		cp := *c.m
		cp.F = map[string]interface{}{}
		for k, v := range c.m.F {
			cp.F[k] = v
		}
		cp.F["msg"] = gm.S("msg")
		if !strings.HasPrefix(c.m.S("msg"), gm.S("msg")) {
			viol("truncate-roundtrip", "over-long message: Go round trip msg is not a prefix of the original")
		} else if ok, why := wire.Equal(&cp, gm); !ok {
			viol("truncate-roundtrip", "over-long message: Go round trip changed other fields: "+why)
		}
	}
}

func hasResultField(t int16) bool {
	for _, f := range wire.Layout[t] {
		if f.Kind == wire.Result {
			return true
		}
	}
	return false
}

func firstDiff(a, b []byte) int {
	for i := 0; i < len(a) && i < len(b); i++ {
		if a[i] != b[i] {
			return i
		}
	}
	if len(a) < len(b) {
		return len(a)
	}
	return len(b)
}

func clipHex(s string, n int) string {
	if len(s) > n {
		return s[:n] + "…"
	}
	return s
}
