package checks

import (
	"sync/atomic"
	"fmt"
	"sort"
	"strings"
	"time"

	"verif/faketc"
	mm "verif/minimysql"
	"verif/vc"
	"verif/wire"
	"verif/world"
)

// atEnv is one (world, db, client child) triple with a fixed undo configuration.
type atEnv struct {
	r      *vc.Run
	w      *world.World
	db     *world.DB
	ch     *vc.Child
	name   string
	cfg    atUndoCfg
	logPos int
	// deliveries that showed no sign of an end for the whole watchdog time
	backstops int32
}

type atUndoCfg struct {
	Serializer string `json:"log_serialization"`
	Compress   string `json:"compress_type"`
	CompressOn bool   `json:"compress_enable"`
	Validation bool   `json:"data_validation"`
	OnlyCare   bool   `json:"only_care_update_columns"`
	Threshold  string `json:"compress_threshold,omitempty"`
	// Loc: time zone of the client's connections (DSN parameter loc); "" = the driver's default, UTC
	Loc string `json:"-"`
}

func (c atUndoCfg) String() string {
	s := fmt.Sprintf("ser=%s|comp=%s|validate=%v|onlycare=%v", c.Serializer, c.Compress, c.Validation, c.OnlyCare)
	if c.Loc != "" {
		s += "|loc=" + c.Loc
	}
	return s
}

type worldT = world.World
type dbT = world.DB

func newATEnv(r *vc.Run, name string, cfg atUndoCfg, race bool, driver string) (*atEnv, error) {
	return newATEnvOpts(r, name, cfg, race, driver, nil)
}

func newATEnvOpts(r *vc.Run, name string, cfg atUndoCfg, race bool, driver string, replace map[string]string) (*atEnv, error) {
	w, err := world.New(r)
	if err != nil {
		return nil, err
	}
	db := w.NewDB("main")
	db.CreateUndoLog()
	if driver == "" {
		driver = "seata-at-mysql"
	}
	extra := ""
	if cfg.Loc != "" {
		// DATE / DATETIME values reach the client as times in this zone (a zone west of UTC: midnight there is the
		// previous calendar day in UTC)
		extra = "interpolateParams=true&parseTime=true&multiStatements=true&loc=" + strings.ReplaceAll(cfg.Loc, "/", "%2F")
	}
	ch, err := w.StartClient(name, race, world.InitArg{Replace: replace, DBs: []world.DBSpec{
		{Name: "at", Driver: driver, DSN: db.DSN("app", extra), MaxOpen: 8, Class: "proxied"},
		{Name: "plain", Driver: "mysql", DSN: db.DSN("foreign", extra), MaxOpen: 4},
	}}, nil)
	if err != nil {
		w.Close()
		return nil, err
	}
	if err := ch.Call("set_undo", cfg, nil); err != nil {
		ch.Kill()
		w.Close()
		return nil, err
	}
	return &atEnv{r: r, w: w, db: db, ch: ch, name: name, cfg: cfg}, nil
}

func (e *atEnv) Close() {
	e.ch.Kill()
	e.w.Close()
}

// install creates the case's tables and loads the initial rows.
func (e *atEnv) install(c *atCase) {
	for _, t := range c.Tables {
		def := *t.Def
		def.Cols = append([]mm.Column{}, t.Def.Cols...)
		e.db.E.CreateTable(&def)
		e.db.E.Load(t.Name, t.Rows)
	}
}

func (e *atEnv) drop(c *atCase) {
	for _, t := range c.Tables {
		e.db.E.DropTable(t.Name)
	}
}

type atSnap map[string]map[string]string // table -> pk key -> rendered row

func (e *atEnv) snap(c *atCase) atSnap {
	s := atSnap{}
	for _, t := range c.Tables {
		s[t.Name] = e.db.E.SnapshotTable(t.Name)
	}
	return s
}

func snapDiff(a, b atSnap) []string {
	var out []string
	for tn, ra := range a {
		rb := b[tn]
		keys := map[string]bool{}
		for k := range ra {
			keys[k] = true
		}
		for k := range rb {
			keys[k] = true
		}
		var ks []string
		for k := range keys {
			ks = append(ks, k)
		}
		sort.Strings(ks)
		for _, k := range ks {
			if ra[k] != rb[k] {
				kk := strings.ReplaceAll(strings.Trim(k, "\x00"), "\x00", ",")
				out = append(out, fmt.Sprintf("%s[%s]: %q -> %q", tn, kk, ra[k], rb[k]))
			}
		}
	}
	return out
}

// undoRows returns the undo_log rows (xid, branch, status) belonging to xid.
func (e *atEnv) undoRows(xid string) []string {
	var out []string
	for _, r := range e.db.E.RowsTyped("undo_log") {
		if mm.TextOf(r[1]) == xid {
			out = append(out, fmt.Sprintf("branch=%s status=%s", mm.TextOf(r[0]), mm.TextOf(r[4])))
		}
	}
	return out
}

type atOutcome struct {
	Res      scopeResult
	CallErr  error
	Xid      string
	Pre      atSnap
	Mid      atSnap // after phase one (global tx function returned)
	Post     atSnap // after phase two
	StartSeq int64
	MidSeq   int64
	Branches []*faketc.Branch
	P2       []*faketc.PhaseTwoResult
	Journal  []*mm.JournalEntry
	TCEvents []*faketc.Event
	UndoMid  []string
	UndoPost []string
}

// runGtx executes the case's program inside one global transaction whose business function ends with outcome.
func (e *atEnv) runGtx(c *atCase, outcome string, extraSteps []gtxStep) *atOutcome {
	o := &atOutcome{}
	e.logMark()
	o.Pre = e.snap(c)
	o.StartSeq = e.w.Clock.Now()
	sc := &gtxScope{Case: c.Name, Name: c.Name, TimeoutMs: 60000, Outcome: outcome, Label: "gtx", Steps: append(c.steps("at"), extraSteps...)}
	done := make(chan struct{})
	go func() {
		o.CallErr = e.ch.Call("gtx", sc, &o.Res)
		close(done)
	}()
	select {
	case <-done:
	case <-time.After(90 * time.Second):
		e.ch.Quit()
		<-done
		if o.CallErr == nil {
			o.CallErr = fmt.Errorf("watchdog: case did not finish within 90 s")
		}
	}
	o.Xid = o.Res.XidIn
	o.Mid = e.snap(c)
	o.MidSeq = e.w.Clock.Now()
	if o.Xid != "" {
		o.Branches = e.w.TC.BranchesOf(o.Xid)
		o.UndoMid = e.undoRows(o.Xid)
	}
	return o
}

// phaseTwo drives the coordinator's second phase and collects the final observations.
func (e *atEnv) phaseTwo(c *atCase, o *atOutcome, commit bool, deliveries int) {
	if o.Xid != "" {
		o.P2 = e.drivePhaseTwo(o.Xid, commit, deliveries)
	}
	o.Post = e.snap(c)
	o.Journal = e.db.E.JournalSince(o.StartSeq)
	o.TCEvents = e.w.TC.EventsSince(o.StartSeq)
	if o.Xid != "" {
		o.UndoPost = e.undoRows(o.Xid)
	}
}

// drivePhaseTwo sends BranchCommit (registration order) / BranchRollback (reverse order) for each branch, one after the
// other like the real TC. A request whose manager fails is never answered by the client; the attempt is considered
// over when the response arrived, or when the raw connection's undo transaction was seen to end (ROLLBACK/COMMIT
// after the request) and no response followed within a grace period. The 20 s cap is only a backstop.
func (e *atEnv) drivePhaseTwo(xid string, commit bool, deliveries int) []*faketc.PhaseTwoResult {
	bs := e.w.TC.BranchesOf(xid)
	if !commit {
		for i, j := 0, len(bs)-1; i < j; i, j = i+1, j-1 {
			bs[i], bs[j] = bs[j], bs[i]
		}
	}
	var out []*faketc.PhaseTwoResult
	for _, b := range bs {
		res := &faketc.PhaseTwoResult{Branch: b}
		for d := 0; d < deliveries; d++ {
			s := e.w.TC.WaitSession(b.Resource, 3*time.Second)
			if s == nil {
				s = e.w.TC.WaitSession("", time.Second)
			}
			if s == nil {
				res.NoSess = true
				break
			}
			res.Attempts++
			res.ReqSeq = e.w.Clock.Now()
			_, ch, err := e.w.TC.Request(s, faketc.BranchEndReq(commit, b), 0)
			if err != nil {
				continue
			}
			res.Resp = e.awaitPhaseTwo(ch, res.ReqSeq)
		}
		out = append(out, res)
	}
	if !commit {
		allOK := true
		for _, r := range out {
			if r.Resp == nil || r.Resp.I("branchStatus") != 8 {
				allOK = false
			}
		}
		if allOK {
			e.w.TC.ReleaseLocks(xid)
		}
	}
	return out
}

func (e *atEnv) awaitPhaseTwo(ch chan *wire.Msg, reqSeq int64) *wire.Msg {
	return e.awaitPhaseTwoFrom(ch, reqSeq, e.ch.LogSize())
}

// awaitPhaseTwoFrom: logOff is the size of the client's log before the request was sent; the processors log
// "branch rollback error" / "branch commit error" when the resource manager failed (such a request gets no answer).
func (e *atEnv) awaitPhaseTwoFrom(ch chan *wire.Msg, reqSeq int64, logOff int64) *wire.Msg {
	// watchdog: 20 s; once three deliveries of this environment stayed without any sign of an end for the full 20 s
	// (a hanging resource manager), later ones are given 3 s - the verdicts are the same, the run stays bounded
	wait := 20 * time.Second
	if atomic.LoadInt32(&e.backstops) >= 3 {
		wait = 3 * time.Second
	}
	deadline := time.Now().Add(wait)
	defer func() {
		if !time.Now().Before(deadline) {
			atomic.AddInt32(&e.backstops, 1)
		}
	}()
	var endedAt time.Time
	grace := 400 * time.Millisecond
	for time.Now().Before(deadline) {
		select {
		case m := <-ch:
			return m
		case <-time.After(10 * time.Millisecond):
		}
		if endedAt.IsZero() && e.ch.LogSize() > logOff {
			if l := e.ch.LogFrom(logOff); strings.Contains(l, "branch rollback error") || strings.Contains(l, "branch commit error") {
				// the processor logs this after the manager returned and sends nothing afterwards
				endedAt = time.Now()
				grace = 50 * time.Millisecond
			}
		}
		if endedAt.IsZero() {
			for _, j := range e.db.E.JournalSince(reqSeq) {
				if (j.Kind == "ROLLBACK" || j.Kind == "COMMIT") && j.Class != "foreign" && j.SeqOut != 0 {
					endedAt = time.Now()
					break
				}
			}
		} else if time.Since(endedAt) > grace {
			return nil
		}
		if !e.ch.Alive() {
			return nil
		}
	}
	return nil
}

// history renders the merged DB journal + TC log of a case window (for replay files and samples).
func (o *atOutcome) history(max int) []string {
	type line struct {
		seq int64
		s   string
	}
	var ls []line
	for _, j := range o.Journal {
		sql := j.SQL
		if len(sql) > 220 {
			sql = sql[:220] + "…"
		}
		s := fmt.Sprintf("[%d] db c%d(%s) %s | %s", j.Seq, j.Conn, j.Class, j.Kind, sql)
		if len(j.Args) > 0 {
			s += fmt.Sprintf(" args=%d", len(j.Args))
			if strings.Contains(j.SQL, "INTO undo_log") && len(j.Args) >= 4 {
				if b, ok := j.Args[3].([]byte); ok && len(b) > 0 && b[0] == '{' {
					s += " rollback_info=" + clipStr(string(b), 1600)
				} else if st, ok := j.Args[3].(string); ok && len(st) > 0 && st[0] == '{' {
					s += " rollback_info=" + clipStr(st, 1600)
				}
			}
		}
		if j.Err != nil {
			s += fmt.Sprintf(" ERR %d %s", j.Err.Code, clipStr(j.Err.Msg, 80))
		}
		if j.Injected != "" {
			s += " INJECTED:" + j.Injected
		}
		if len(j.Changes) > 0 {
			s += fmt.Sprintf(" changed=%d", len(j.Changes))
		}
		if len(j.Committed) > 0 {
			s += fmt.Sprintf(" durable=%d", len(j.Committed))
		}
		if j.ImplicitCommit {
			s += " IMPLICIT-COMMIT"
		}
		ls = append(ls, line{j.Seq, s})
	}
	for _, ev := range o.TCEvents {
		if ev.Type == "ping" || ev.Type == "pong" || ev.Note == "pong" {
			continue
		}
		ls = append(ls, line{ev.Seq, fmt.Sprintf("[%d] tc %s %s id=%d %s %s", ev.Seq, ev.Dir, ev.Type, ev.ID, clipStr(ev.Text, 200), ev.Note)})
	}
	sort.Slice(ls, func(i, j int) bool { return ls[i].seq < ls[j].seq })
	var out []string
	for _, l := range ls {
		out = append(out, l.s)
	}
	if len(out) > max {
		out = append(out[:max], fmt.Sprintf("… %d more events", len(out)-max))
	}
	return out
}

func (o *atOutcome) p2Statuses() []int64 {
	var out []int64
	for _, p := range o.P2 {
		if p.Resp == nil {
			out = append(out, -1)
		} else {
			out = append(out, p.Resp.I("branchStatus"))
		}
	}
	return out
}

// sweep records and kills connections left inside a transaction (case isolation), returns descriptions.
func (e *atEnv) sweep() []string {
	var out []string
	for _, si := range e.db.E.Sessions() {
		if si.InTx && (si.Class == "app" || si.Class == "proxied") {
			out = append(out, fmt.Sprintf("conn %d (%s) idle IN_TRANS with %d row locks", si.ID, si.Class, si.Locks))
			e.db.S.Kill(si.ID)
		}
	}
	return out
}

// logErrors returns the last n error/warn lines of the client's log written since the previous call (triage aid).
func (e *atEnv) logErrors(n int) []string {
	log := e.ch.Log()
	if len(log) < e.logPos {
		e.logPos = 0
	}
	part := log[e.logPos:]
	var out []string
	for _, ln := range strings.Split(part, "\n") {
		l := strings.ToLower(ln)
		if strings.Contains(l, "error") || strings.Contains(l, "warn") || strings.Contains(l, "panic") || strings.Contains(l, "fail") {
			out = append(out, clipStr(ln, 400))
		}
	}
	if len(out) > n {
		out = out[len(out)-n:]
	}
	return out
}

func (e *atEnv) logMark() { e.logPos = len(e.ch.Log()) }
