package checks

import (
	"fmt"
	"sort"
	"strings"
	"sync"
	"time"

	"verif/faketc"
	mm "verif/minimysql"
	"verif/vc"
	"verif/wire"
)

// C03 — global lock keys cover every written row; locking reads consult the coordinator.
//
// Ground truth for "written rows" is the fake database's record of the rows each COMMIT made durable; the lock keys
// are read from the BranchRegister frames in the fake coordinator's log with an independent parser.

func init() {
	Registry["C03"] = Check{Level: "exploration", Fn: runC03}
}

func runC03(r *vc.Run, replay string) {
	r.Rule = "cases = (a) generated DML programs as in C01 (composite and non-integer keys emphasised) committed inside a global transaction; (b) SELECT ... FOR UPDATE inside a global transaction with the coordinator answering lockable / not lockable / failure, in autocommit and explicit-transaction use, every fourth case writing the rows first so that registration and lock query of the same rows meet; key shapes int / varchar / composite / byte-valued; (c) two global transactions whose statements overlap on rows, under scripted orders of their coordinator replies; oracle: every row made durable by a local commit is named (table, pk values) by the lock key of the BranchRegister that preceded that commit, the same row always has the same key text, locking reads return rows only after a lockable answer and release their local locks on conflict, and no row is committed while the coordinator's lock table has it held by another xid; distinct_nontrivial = distinct feature signatures of cases in which a lock key or a lock query was observed"
	r.Assumptions = []string{"lock-key grammar: table:pk[_pk2...][,...];... (table compared case-insensitively, key components as a multiset; a byte-valued key may be spelled as its text or in Go's %v form, but alike everywhere)", "the fake coordinator keeps Seata's lock-table semantics: a key held by another xid refuses the registration"}
	var wg sync.WaitGroup
	wg.Add(3)
	go func() { defer wg.Done(); c03Programs(r) }()
	go func() { defer wg.Done(); c03SelectForUpdate(r) }()
	go func() { defer wg.Done(); c03TwoTx(r) }()
	wg.Wait()
}

func c03Replace() map[string]string {
	return map[string]string{"retry-interval: 30s": "retry-interval: 10ms", "retry-times: 10": "retry-times: 2"}
}

// ---------- (a) lock keys of committed programs ----------

func c03Programs(r *vc.Run) {
	cfg := atUndoCfg{Serializer: "json", Compress: "None", Validation: true, OnlyCare: true}
	env, err := newATEnv(r, "c03-a", cfg, r.Tier == "thorough", "")
	if err != nil {
		r.Errorf("%v", err)
		return
	}
	defer env.Close()
	n := 200
	if r.Tier == "thorough" {
		n = 2500
	}
	if v := devN(); v > 0 {
		n = v
	}
	rnd := vc.NewRand(r.Seed, "c03-a")
	keyText := map[string]string{} // table|pk -> key text, across the whole run
	for i := 0; i < n; i++ {
		kinds := atSafeKinds
		c := c01GenCase(rnd, i, kinds, "k")
		if i%2 == 0 {
			// emphasise composite and non-integer keys
			pk := []string{"composite", "composite3", "varchar", "binary", "varchar_colon", "composite_txt", "int+uq", "varchar+uq", "composite+uq"}[rnd.Intn(9)]
			c.Tables[0] = atGenTable(rnd, c.Tables[0].Name, pk, kinds, 2+rnd.Intn(2), 3+rnd.Intn(4), rnd.Bool())
			// regenerate the program for the new table
			c2 := c01GenCaseForTable(rnd, c.Name, c.Tables[0])
			c = c2
		}
		if i%8 == 7 {
			// a statement that assigns a primary-key column (spelled in another letter case / quoted): if it is accepted,
			// the row it writes under the new key must be covered by the lock key like any other written row
			t := c.Tables[0]
			first := t.Def.Cols[t.Def.PK[0]]
			var nv interface{} = int64(880000 + i)
			if first.T != mm.TInt {
				nv = fmt.Sprintf("Q%04d", i)
			}
			w, wargs := pkWhere(t, t.Rows[rnd.Intn(len(t.Rows))], true)
			col := []string{strings.ToUpper(first.Name), "`" + first.Name + "`", first.Name}[rnd.Intn(3)]
			st := atStmt{Kind: "update", Table: t.Name, SQL: fmt.Sprintf("update %s set %s = ? where %s", t.Name, col, w), Args: append([]tval{tvOf(nv)}, wargs...),
				Feat: map[string]string{"stmt": "update-pk", "params": "true", "rows": "1", "where": "pk-eq"}}
			c.Groups = append(c.Groups, atGroup{Stmts: []atStmt{st}})
			c.fold()
		}
		env.install(c)
		o := env.runGtx(c, "nil", nil)
		if o.CallErr != nil {
			if !env.ch.Alive() {
				c01Crash(r, env, c)
				return
			}
			r.Inconc(c.Name + ": " + o.CallErr.Error())
			r.Case("", nil)
			env.drop(c)
			continue
		}
		o.Journal = env.db.E.JournalSince(o.StartSeq)
		o.TCEvents = env.w.TC.EventsSince(o.StartSeq)
		c03JudgeProgram(r, env, c, o, keyText)
		// end the global transaction at the coordinator (locks released), clean up
		if o.Xid != "" {
			env.w.TC.ReleaseLocks(o.Xid)
		}
		env.sweep()
		env.drop(c)
		if i%50 == 49 {
			env.db.E.Truncate("undo_log")
		}
	}
}

// c01GenCaseForTable generates a program for an existing table (same statement mix as C01).
func c01GenCaseForTable(r *vc.Rand, name string, t *atTable) *atCase {
	c := &atCase{Name: name, Feat: map[string]string{}, Tables: []*atTable{t}}
	c.Feat["pk"] = t.PKKind
	ngroups := 1 + r.Intn(3)
	seq := 0
	var revisit []int
	for g := 0; g < ngroups; g++ {
		grp := atGroup{Explicit: r.Intn(3) == 0}
		ns := 1
		if grp.Explicit {
			ns = 1 + r.Intn(3)
		}
		for k := 0; k < ns; k++ {
			o := atStmtOpts{params: r.Intn(5) != 0, rowsClass: []string{"1", "1", "many", "0"}[r.Intn(4)]}
			switch r.Intn(6) {
			case 0, 1:
				grp.Stmts = append(grp.Stmts, atGenUpdate(r, t, o))
			case 2:
				grp.Stmts = append(grp.Stmts, atGenDelete(r, t, o))
			case 3:
				o.shuffleCols = r.Bool()
				o.mixedArgs = r.Intn(3) == 0
				grp.Stmts = append(grp.Stmts, atGenInsert(r, t, o, 1, &seq))
				if !strings.HasPrefix(t.PKKind, "autoinc") && r.Bool() {
					// the row just inserted is written again by another statement form (same or next local transaction)
					revisit = append(revisit, seq)
				}
			case 4:
				o.shuffleCols = r.Bool()
				o.mixedArgs = r.Intn(3) == 0
				grp.Stmts = append(grp.Stmts, atGenInsert(r, t, o, 2+r.Intn(2), &seq))
			case 5:
				// now and then the update list assigns the very unique-index column a row may be found by (finding C03-K1)
				o.assignUq = t.Uniq >= 0 && r.Intn(4) == 0
				o.nullThenUqHit = t.Uniq >= 0 && !o.assignUq && r.Bool()
				if r.Intn(3) == 0 || o.nullThenUqHit {
					grp.Stmts = append(grp.Stmts, atGenUpsertMulti(r, t, o, &seq))
				} else {
					grp.Stmts = append(grp.Stmts, atGenUpsert(r, t, o, r.Bool(), &seq))
				}
			}
		}
		c.Groups = append(c.Groups, grp)
		for _, sq := range revisit {
			w, wargs := pkWhere(t, atInsertedRow(t, sq), true)
			vc0 := t.valueCols()[0]
			st := atStmt{Kind: "update", Table: t.Name, SQL: fmt.Sprintf("update %s set %s = ? where %s", t.Name, t.Def.Cols[vc0].Name, w),
				Args: append([]tval{tvOf(atColKinds[t.Kinds[vc0]].gen(r))}, wargs...), Feat: map[string]string{"stmt": "update", "params": "true", "rows": "1", "where": "pk-eq", "revisits": "inserted-row"}}
			if r.Bool() {
				st = atStmt{Kind: "delete", Table: t.Name, SQL: fmt.Sprintf("delete from %s where %s", t.Name, w), Args: wargs, Feat: map[string]string{"stmt": "delete", "params": "true", "rows": "1", "where": "pk-eq", "revisits": "inserted-row"}}
			}
			c.Groups = append(c.Groups, atGroup{Stmts: []atStmt{st}})
		}
		revisit = nil
	}
	c.DDL = []string{describeTable(t)}
	c.fold()
	return c
}

func c03JudgeProgram(r *vc.Run, env *atEnv, c *atCase, o *atOutcome, keyText map[string]string) {
	shape := c.shape()
	def := c.Tables[0].Def
	txs := atLocalTxs(o.Journal, o.TCEvents, o.Xid, map[string]bool{"proxied": true, "app": true})
	viol := func(clause, detail string) {
		r.Violate(&vc.Violation{Clause: clause, Shape: shape, Features: c.Feat, Detail: detail, Case: c,
			History: map[string]interface{}{"steps": o.Res.Steps, "events": o.history(150), "client_log_errors": env.logErrors(10)}})
	}
	sawKey := false
	for _, tx := range txs {
		var rows []mm.RowChange
		for _, ch := range tx.Durable {
			if strings.EqualFold(ch.Table, def.Name) {
				rows = append(rows, ch)
			}
		}
		if len(rows) == 0 {
			continue
		}
		if tx.Register == nil {
			viol("commit-without-registration", fmt.Sprintf("a local transaction made %d rows of %s durable inside the global transaction without a BranchRegister between its BEGIN and COMMIT", len(rows), def.Name))
			continue
		}
		if tx.RegReply == nil || tx.RegReply.Msg.I("resultCode") != 1 || tx.RegReply.Seq > tx.EndSeq {
			viol("commit-before-lock-grant", "the local COMMIT arrived before the coordinator's successful BranchRegister reply was sent")
			continue
		}
		sawKey = true
		r.Count("lock_keys_checked", 1)
		entries := parseLockKey(tx.Register.Msg.S("lockKey"))
		for _, ch := range rows {
			row := ch.After
			if row == nil {
				row = ch.Before
			}
			want := def.PKValues(row)
			found := ""
			for _, e := range entries {
				if strings.EqualFold(e.Table, def.Name) && c03KeyNames(def, row, e.PK) {
					found = e.Text
					break
				}
			}
			if found == "" {
				viol("written-row-not-locked", fmt.Sprintf("row %s%v was made durable but is not named by the lock key %q", def.Name, want, clipStr(tx.Register.Msg.S("lockKey"), 300)))
				return
			}
			k := strings.ToUpper(def.Name) + "|" + strings.Join(want, "\x00")
			if prev, ok := keyText[k]; ok && prev != found {
				viol("inconsistent-key-text", fmt.Sprintf("row %s%v was named %q before and %q now", def.Name, want, prev, found))
				return
			}
			keyText[k] = found

		}
	}
	if sawKey {
		r.Case(shape, map[string]interface{}{"case": c, "history": o.history(40)})
	} else {
		r.Case("", nil)
	}
}

// ---------- (b) SELECT ... FOR UPDATE ----------

func c03SelectForUpdate(r *vc.Run) {
	w, db, ch, err := c03Env(r, "c03-b")
	if err != nil {
		r.Errorf("%v", err)
		return
	}
	defer w.Close()
	defer ch.Kill()
	rnd := vc.NewRand(r.Seed, "c03-b")
	n := 60
	if r.Tier == "thorough" {
		n = 600
	}
	if v := devN(); v > 0 {
		n = v
	}
	for i := 0; i < n; i++ {
		pk := []string{"int", "composite", "varchar", "composite3", "binary", "composite_txt", "varchar_colon"}[rnd.Intn(7)]
		t := atGenTable(rnd, fmt.Sprintf("s%04dt", i), pk, atSafeKinds, 2, 3+rnd.Intn(3), false)
		d := *t.Def
		db.E.CreateTable(&d)
		db.E.Load(t.Name, t.Rows)
		mode := []string{"lockable", "conflict", "lockable", "failure"}[rnd.Intn(4)]
		explicit := rnd.Bool()
		many := rnd.Intn(3) == 0
		params := rnd.Intn(4) != 0
		bothForms := i%4 == 3
		if bothForms {
			// one local transaction writes the rows and then reads them with a locking select: registration and lock
			// query of the same rows are both observed
			mode, explicit = "lockable", true
		}
		var where string
		var args []tval
		if many {
			where, args, _ = atGenWhere(rnd, t, atStmtOpts{params: params, rowsClass: "many"})
		} else {
			where, args = pkWhere(t, t.Rows[rnd.Intn(len(t.Rows))], params)
		}
		sql := fmt.Sprintf("select * from %s where %s for update", t.Name, where)
		ordered := many && rnd.Bool()
		if ordered {
			// the last rows in key order only: the rows asked about must be the rows returned, not the first matches
			var ob []string
			for _, p := range t.Def.PK {
				ob = append(ob, t.Def.Cols[p].Name+" desc")
			}
			sql = fmt.Sprintf("select * from %s where %s order by %s limit %d for update", t.Name, where, strings.Join(ob, ", "), 1+rnd.Intn(2))
		}
		name := fmt.Sprintf("c03b-%04d", i)
		feat := map[string]string{"part": "select-for-update", "pk": pk, "tc": mode, "explicit_tx": fmt.Sprint(explicit), "rows": map[bool]string{true: "many", false: "1"}[many], "params": fmt.Sprint(params),
			"literal_string": fmt.Sprint(!params && strings.Contains(where, "'")), "order_by_limit": fmt.Sprint(ordered)}
		shape := featShape(feat)
		// script the coordinator
		rule := &faketc.Rule{Name: name, Match: func(q *faketc.Req) bool {
			return q.TxName == name && q.Msg.Type == wire.TGlobalLockQuery
		}, Do: func(q *faketc.Req) bool {
			switch mode {
			case "failure":
				q.ReplyFail("lock query failed by script", 8)
				return true
			case "conflict":
				// another global transaction holds these rows
				m := wire.New(wire.TGlobalLockQueryResult, "lockable", false)
				m.F["resultCode"], m.F["msg"], m.F["excCode"] = int64(1), "", int64(0)
				q.S.Reply(q.Frame.ID, m)
				return true
			}
			return false
		}}
		w.TC.AddRule(rule)
		var steps []gtxStep
		if explicit {
			steps = append(steps, gtxStep{Op: "begin", DB: "at"})
		}
		preDML := explicit && (bothForms || rnd.Intn(3) == 0)
		if preDML {
			// the same local transaction first writes exactly the rows the locking read will select
			vc0 := t.valueCols()[0]
			steps = append(steps, gtxStep{Op: "exec", DB: "at", SQL: fmt.Sprintf("update %s set %s = %s where %s", t.Name, t.Def.Cols[vc0].Name, t.Def.Cols[vc0].Name, where), Args: args, StopOnErr: true})
		}
		feat["pre_dml_same_rows"] = fmt.Sprint(preDML)
		shape = featShape(feat)
		steps = append(steps, gtxStep{Op: "query", DB: "at", SQL: sql, Args: args, StopOnErr: true})
		if explicit {
			steps = append(steps, gtxStep{Op: "commit"})
		}
		start := w.Clock.Now()
		var out scopeResult
		cerr := ch.Call("gtx", &gtxScope{Case: name, Name: name, TimeoutMs: 60000, Outcome: "nil", Label: "gtx", Steps: steps}, &out)
		w.TC.ClearRules()
		if cerr != nil {
			r.Inconc(name + ": " + cerr.Error())
			r.Case("", nil)
			db.E.DropTable(t.Name)
			continue
		}
		journal := db.E.JournalSince(start)
		evs := w.TC.EventsSince(start)
		c03JudgeSFU(r, shape, feat, name, t, sql, mode, &out, journal, evs)
		if out.XidIn != "" {
			w.TC.ReleaseLocks(out.XidIn)
		}
		for _, si := range db.E.Sessions() {
			if si.InTx && si.Class == "proxied" {
				db.S.Kill(si.ID)
			}
		}
		db.E.DropTable(t.Name)
	}
}

// c03KeyNames: do the components of one lock-key entry name this row? The property fixes neither the order of the
// components nor the spelling of byte-valued keys, so a byte string may appear as its text or in Go's %v rendering;
// what it does demand - one text per row whatever the statement form - is checked where two texts meet.
func c03KeyNames(def *mm.Table, row []interface{}, got []string) bool {
	if len(got) != len(def.PK) {
		return false
	}
	forms := [][]string{nil}
	for _, i := range def.PK {
		alts := []string{(&mm.Table{PK: []int{0}}).PKValues([]interface{}{row[i]})[0]}
		if b, ok := row[i].([]byte); ok {
			alts = append(alts, fmt.Sprintf("%v", b))
		}
		var next [][]string
		for _, f := range forms {
			for _, a := range alts {
				next = append(next, append(append([]string{}, f...), a))
			}
		}
		forms = next
	}
	g := append([]string{}, got...)
	sort.Strings(g)
	for _, f := range forms {
		sort.Strings(f)
		if strings.Join(f, "\x00") == strings.Join(g, "\x00") {
			return true
		}
	}
	return false
}

func featShape(f map[string]string) string {
	var ks []string
	for k := range f {
		ks = append(ks, k)
	}
	sort.Strings(ks)
	var parts []string
	for _, k := range ks {
		parts = append(parts, k+"="+f[k])
	}
	return strings.Join(parts, "|")
}

func c03JudgeSFU(r *vc.Run, shape string, feat map[string]string, name string, t *atTable, sql, mode string, out *scopeResult, journal []*mm.JournalEntry, evs []*faketc.Event) {
	var q *stepResult
	for i := range out.Steps {
		if out.Steps[i].Op == "query" {
			q = &out.Steps[i]
		}
	}
	var hist []string
	for _, j := range journal {
		if j.Class == "proxied" || j.Class == "app" {
			s := fmt.Sprintf("[%d] db c%d %s | %s", j.Seq, j.Conn, j.Kind, clipStr(j.SQL, 160))
			if j.Err != nil {
				s += fmt.Sprintf(" ERR %d", j.Err.Code)
			}
			hist = append(hist, s)
		}
	}
	var lq, lqReply *faketc.Event
	for _, e := range evs {
		if e.Msg == nil {
			continue
		}
		if e.Dir == "in" && e.Msg.Type == wire.TGlobalLockQuery && e.TxName == name {
			lq = e
		}
		if e.Dir == "out" && e.Msg.Type == wire.TGlobalLockQueryResult && lq != nil && e.ID == lq.ID {
			lqReply = e
		}
		if e.TxName == name || (lq != nil && e.ID == lq.ID) {
			hist = append(hist, fmt.Sprintf("[%d] tc %s %s %s", e.Seq, e.Dir, e.Type, clipStr(e.Text, 160)))
		}
	}
	sort.Strings(hist)
	viol := func(clause, detail string) {
		r.Violate(&vc.Violation{Clause: clause, Shape: shape, Features: feat, Detail: detail, Case: map[string]interface{}{"sql": sql, "table": describeTable(t), "tc": mode, "name": name},
			History: map[string]interface{}{"steps": out.Steps, "events": hist}})
	}
	if q == nil {
		r.Case("", nil)
		return
	}
	if lq != nil {
		r.Case(shape, map[string]interface{}{"sql": sql, "tc": mode, "rows_returned": len(q.Rows), "events": hist})
	} else {
		r.Case("", nil)
	}
	rowsReturned := len(q.Rows)
	// the locking select as seen by the database
	var sel *mm.JournalEntry
	for _, j := range journal {
		if j.Kind == "SELECT_FOR_UPDATE" && strings.EqualFold(j.Table, t.Name) && j.Class == "proxied" && j.Err == nil {
			sel = j
		}
	}
	if q.Err == "" && rowsReturned > 0 {
		if lq == nil || lqReply == nil {
			viol("rows-without-lock-query", fmt.Sprintf("%d rows were returned by SELECT ... FOR UPDATE inside a global transaction without a GlobalLockQuery answered by the coordinator", rowsReturned))
			return
		}
		if !lqReply.Msg.B("lockable") || lqReply.Msg.I("resultCode") != 1 {
			viol("rows-despite-conflict", fmt.Sprintf("%d rows were returned although the coordinator answered lockable=%v resultCode=%d", rowsReturned, lqReply.Msg.B("lockable"), lqReply.Msg.I("resultCode")))
			return
		}
		// the query must name every returned row
		if sel != nil {
			queried := map[string]string{}
			entries := parseLockKey(lq.Msg.S("lockKey"))
			for _, mr := range sel.MatchedRows {
				want := t.Def.PKValues(mr)
				ok := false
				r.Count("locked_rows_checked_against_query", 1)
				for _, e := range entries {
					if strings.EqualFold(e.Table, t.Name) && c03KeyNames(t.Def, mr, e.PK) {
						ok = true
						queried[strings.Join(want, "\x00")] = e.Text
					}
				}
				if !ok {
					viol("locked-row-not-queried", fmt.Sprintf("row %v was returned but the GlobalLockQuery key %q does not name it", want, clipStr(lq.Msg.S("lockKey"), 200)))
					return
				}
			}
			// the same transaction also wrote these rows: its registration and its lock query must spell each row alike,
			// or a writer's lock and a reader's question never meet at the coordinator
			for _, e := range evs {
				if e.Msg == nil || e.Dir != "in" || e.Msg.Type != wire.TBranchRegister || e.TxName != name {
					continue
				}
				for _, re := range parseLockKey(e.Msg.S("lockKey")) {
					if !strings.EqualFold(re.Table, t.Name) {
						continue
					}
					for _, mr := range sel.MatchedRows {
						if !c03KeyNames(t.Def, mr, re.PK) {
							continue
						}
						r.Count("key_texts_compared_across_forms", 1)
						if qt := queried[strings.Join(t.Def.PKValues(mr), "\x00")]; qt != re.Text {
							viol("inconsistent-key-text", fmt.Sprintf("row %s%v is registered as %q by the writing statement but asked about as %q by the locking read", t.Name, t.Def.PKValues(mr), re.Text, qt))
							return
						}
					}
				}
			}
		}
		return
	}
	if mode != "lockable" && q.Err == "" && rowsReturned == 0 && sel != nil && len(sel.Matched) > 0 {
		viol("conflict-swallowed", "the coordinator refused the lock but the query returned an empty result without error")
		return
	}
	if q.Err != "" && sel != nil && mode != "lockable" {
		// conflict: the local row locks taken by the locking select must be released before the error return
		released := false
		for _, j := range journal {
			if j.Conn == sel.Conn && j.Seq > sel.Seq && (j.Kind == "ROLLBACK_TO" || j.Kind == "ROLLBACK") && j.Err == nil {
				released = true
			}
		}
		if !released {
			viol("conflict-locks-kept", "the coordinator refused the lock; the query failed but neither ROLLBACK TO SAVEPOINT nor ROLLBACK followed the locking select on that connection")
		}
	}
}

// ---------- (c) two overlapping global transactions ----------

func c03TwoTx(r *vc.Run) {
	w, db, ch, err := c03Env(r, "c03-c")
	if err != nil {
		r.Errorf("%v", err)
		return
	}
	defer w.Close()
	defer ch.Kill()
	db.E.LockWait = 700 * time.Millisecond
	rnd := vc.NewRand(r.Seed, "c03-c")
	n := 24
	if r.Tier == "thorough" {
		n = 200
	}
	orders := []string{"a-first", "a-register-held", "b-after-a-global-end", "a-register-refused"}
	for i := 0; i < n; i++ {
		order := orders[i%len(orders)]
		pk := []string{"int", "composite", "varchar", "varchar_colon"}[rnd.Intn(4)]
		t := atGenTable(rnd, fmt.Sprintf("w%04dt", i), pk, []string{"int", "varchar"}, 2, 4, false)
		d := *t.Def
		db.E.CreateTable(&d)
		db.E.Load(t.Name, t.Rows)
		na, nb := fmt.Sprintf("c03c-%04d-A", i), fmt.Sprintf("c03c-%04d-B", i)
		// A touches rows 0,1 ; B touches rows 1,2 (overlap on row 1)
		mk := func(rows []int) []gtxStep {
			var st []gtxStep
			for _, ri := range rows {
				wsql, wargs := pkWhere(t, t.Rows[ri], true)
				st = append(st, gtxStep{Op: "exec", DB: "at", SQL: fmt.Sprintf("update %s set c0 = ? where %s", t.Name, wsql), Args: append([]tval{tvOf(int64(1000 + i))}, wargs...), StopOnErr: true})
			}
			return st
		}
		feat := map[string]string{"part": "two-tx", "order": order, "pk": pk}
		shape := featShape(feat)
		held := make(chan struct{})
		bArrived := make(chan struct{}, 4)
		var once sync.Once
		w.TC.AddRule(&faketc.Rule{Name: "c03c", Match: func(q *faketc.Req) bool {
			return q.Msg.Type == wire.TBranchRegister && (q.TxName == na || q.TxName == nb)
		}, Do: func(q *faketc.Req) bool {
			switch order {
			case "a-register-held":
				if q.TxName == na && q.NthOfKind == 1 {
					go func() {
						select {
						case <-held:
						case <-time.After(3 * time.Second):
						}
						q.ReplyDefault()
					}()
					return true
				}
			case "a-register-refused":
				if q.TxName == na && q.NthOfKind == 1 {
					q.ReplyFail("refused by script", 6)
					return true
				}
			}
			if q.TxName == nb {
				select {
				case bArrived <- struct{}{}:
				default:
				}
			}
			return false
		}})
		start := w.Clock.Now()
		var ra, rb scopeResult
		var ea, eb error
		var wg sync.WaitGroup
		run := func(name string, steps []gtxStep, res *scopeResult, e *error) {
			defer wg.Done()
			*e = ch.Call("gtx", &gtxScope{Case: name, Name: name, TimeoutMs: 60000, Outcome: "nil", Label: name, Steps: steps}, res)
		}
		wg.Add(1)
		go run(na, mk([]int{0, 1}), &ra, &ea)
		switch order {
		case "a-first":
			wg.Wait()
			wg.Add(1)
			go run(nb, mk([]int{1, 2}), &rb, &eb)
		case "b-after-a-global-end":
			wg.Wait()
			if ra.XidIn != "" {
				w.TC.ReleaseLocks(ra.XidIn) // the coordinator finished A's global transaction
			}
			wg.Add(1)
			go run(nb, mk([]int{1, 2}), &rb, &eb)
		default:
			time.Sleep(30 * time.Millisecond)
			wg.Add(1)
			go run(nb, mk([]int{2, 1}), &rb, &eb)
			go func() {
				time.Sleep(150 * time.Millisecond)
				once.Do(func() { close(held) })
			}()
		}
		wg.Wait()
		once.Do(func() { close(held) })
		w.TC.ClearRules()
		journal := db.E.JournalSince(start)
		evs := w.TC.EventsSince(start)
		if ea != nil || eb != nil {
			r.Inconc(fmt.Sprintf("%s: control call failed: %v %v", na, ea, eb))
			r.Case("", nil)
		} else {
			c03JudgeTwo(r, shape, feat, t, db.ResourceID("app"), w.TC.Locks(), map[string]*scopeResult{na: &ra, nb: &rb}, journal, evs)
		}
		for _, x := range []string{ra.XidIn, rb.XidIn} {
			if x != "" {
				w.TC.ReleaseLocks(x)
			}
		}
		for _, si := range db.E.Sessions() {
			if si.InTx && si.Class == "proxied" {
				db.S.Kill(si.ID)
			}
		}
		db.E.DropTable(t.Name)
		if i%20 == 19 {
			db.E.Truncate("undo_log")
		}
	}
}

func c03JudgeTwo(r *vc.Run, shape string, feat map[string]string, t *atTable, resource string, locks map[string]string, res map[string]*scopeResult, journal []*mm.JournalEntry, evs []*faketc.Event) {
	var hist []string
	for _, j := range journal {
		if j.Class == "proxied" {
			s := fmt.Sprintf("[%d] db c%d %s | %s", j.Seq, j.Conn, j.Kind, clipStr(j.SQL, 140))
			if j.Err != nil {
				s += fmt.Sprintf(" ERR %d", j.Err.Code)
			}
			if len(j.Committed) > 0 {
				s += fmt.Sprintf(" durable=%d", len(j.Committed))
			}
			hist = append(hist, s)
		}
	}
	for _, e := range evs {
		if e.Msg != nil && (e.Msg.Type == wire.TBranchRegister || e.Msg.Type == wire.TBranchRegisterResult || e.Msg.Type == wire.TGlobalBegin) {
			hist = append(hist, fmt.Sprintf("[%d] tc %s %s %s", e.Seq, e.Dir, e.Type, clipStr(e.Text, 200)))
		}
	}
	sort.Strings(hist)
	viol := func(clause, detail string) {
		r.Violate(&vc.Violation{Clause: clause, Shape: shape, Features: feat, Detail: detail, Case: map[string]interface{}{"table": describeTable(t)}, History: map[string]interface{}{"events": hist, "results": res}})
	}
	nontrivial := false
	for name, sr := range res {
		if sr.XidIn == "" {
			continue
		}
		txs := atLocalTxs(journal, evs, sr.XidIn, map[string]bool{"proxied": true})
		// which local transactions belong to this xid: those with a register of this xid inside
		for _, tx := range txs {
			if tx.Register == nil {
				continue
			}
			nontrivial = true
			granted := tx.RegReply != nil && tx.RegReply.Msg.I("resultCode") == 1
			durable := 0
			for _, ch := range tx.Durable {
				if strings.EqualFold(ch.Table, t.Name) {
					durable++
					key := resource + "|" + strings.ToUpper(t.Name) + ":" + strings.Join(t.Def.PKValues(ch.After), "_")
					if owner, held := locks[key]; granted && held && owner != sr.XidIn {
						viol("committed-under-foreign-lock", fmt.Sprintf("%s committed row %s while the coordinator's lock table has it held by %s", name, key, owner))
					}
				}
			}
			if !granted && durable > 0 {
				viol("committed-without-lock", fmt.Sprintf("%s: the coordinator refused the branch registration (%s) but the local transaction made %d rows durable", name, clipStr(tx.RegReply.Text, 120), durable))
			}
			if !granted && sr.Returned == "nil" {
				viol("conflict-swallowed", name+": the coordinator refused the branch registration but the global transaction function returned nil")
			}
		}
	}
	r.Count("two_tx_cases", 1)
	if nontrivial {
		r.Case(shape, map[string]interface{}{"order": feat["order"], "events": hist})
	} else {
		r.Case("", nil)
	}
}

func c03Env(r *vc.Run, name string) (*worldT, *dbT, *vc.Child, error) {
	env, err := newATEnvOpts(r, name, atUndoCfg{Serializer: "json", Compress: "None", Validation: true, OnlyCare: true}, r.Tier == "thorough", "", c03Replace())
	if err != nil {
		return nil, nil, nil, err
	}
	return env.w, env.db, env.ch, nil
}
