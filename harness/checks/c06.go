package checks

import (
	"fmt"
	"strings"
	"sync"
	"sync/atomic"
	"time"

	mm "verif/minimysql"
	"verif/vc"
	"verif/world"
)

// C06 — TCC fence: idempotence, anti-suspension and empty rollback.
//
// The client child runs deliveries of prepare / commit / rollback the way the fence API is meant to be used: one local
// transaction holds fence.WithFence and a business effect (a row appended to an 'effects' table by the callback); it
// is committed iff WithFence returned nil. The monitor reads the fence table and the effects table of the fake
// database after every delivery and compares them with a five-state model and with the consistency invariant
// "effect rows <-> fence status".

func init() {
	Registry["C06"] = Check{Level: "fault_enumeration", Fn: runC06}
}

type c06Delivery struct {
	Phase     string `json:"phase"`
	Xid       string `json:"xid"`
	Branch    int64  `json:"branch"`
	Action    string `json:"action"`
	EffectErr bool   `json:"effect_err,omitempty"`
	Panic     bool   `json:"panic,omitempty"`
}

type c06Result struct {
	Err         string `json:"err,omitempty"`
	CallbackRan bool   `json:"callback_ran"`
	TxEnd       string `json:"tx_end"`
	TxEndErr    string `json:"tx_end_err,omitempty"`
	Panic       string `json:"panic,omitempty"`
	Seq         int64  `json:"seq"`
}

type c06State struct {
	Status  string // none tried committed rollbacked suspended
	Try     int
	Confirm int
	Cancel  int
}

// model: returns (new state, refused)
func c06Step(s c06State, phase string, effectFails bool) (c06State, bool) {
	n := s
	switch phase {
	case "prepare":
		if s.Status != "none" {
			return s, true
		}
		if effectFails {
			return s, true
		}
		n.Status, n.Try = "tried", s.Try+1
	case "commit":
		switch s.Status {
		case "tried":
			if effectFails {
				return s, true
			}
			n.Status, n.Confirm = "committed", s.Confirm+1
		case "committed":
			return s, false
		default:
			return s, true
		}
	case "rollback":
		switch s.Status {
		case "tried":
			if effectFails {
				return s, true
			}
			n.Status, n.Cancel = "rollbacked", s.Cancel+1
		case "none":
			n.Status = "suspended"
		case "rollbacked", "suspended":
			return s, false
		default:
			return s, true
		}
	}
	return n, false
}

type c06Env struct {
	r  *vc.Run
	w  *world.World
	db *world.DB
	ch *vc.Child
}

func newC06Env(r *vc.Run, name string) (*c06Env, error) {
	w, err := world.New(r)
	if err != nil {
		return nil, err
	}
	db := w.NewDB("fence")
	for _, tn := range []string{"tcc_fence_log", "tcc_fence_log_test"} {
		db.E.CreateTable(&mm.Table{Name: tn, Cols: []mm.Column{
			{Name: "xid", T: mm.TChar, Len: 128, ColType: "varchar(128)"},
			{Name: "branch_id", T: mm.TInt, Bits: 64, ColType: "bigint(20)"},
			{Name: "action_name", T: mm.TChar, Len: 64, ColType: "varchar(64)"},
			{Name: "status", T: mm.TInt, Bits: 8, ColType: "tinyint(4)"},
			{Name: "gmt_create", T: mm.TDateTime, Fsp: 3, ColType: "datetime(3)"},
			{Name: "gmt_modified", T: mm.TDateTime, Fsp: 3, ColType: "datetime(3)"},
		}, PK: []int{0, 1}})
	}
	db.E.CreateTable(&mm.Table{Name: "effects", Cols: []mm.Column{
		{Name: "id", T: mm.TInt, Bits: 64, ColType: "bigint(20)", AutoInc: true},
		{Name: "xid", T: mm.TChar, Len: 128, ColType: "varchar(128)"},
		{Name: "branch_id", T: mm.TInt, Bits: 64, ColType: "bigint(20)"},
		{Name: "phase", T: mm.TChar, Len: 16, ColType: "varchar(16)"},
	}, PK: []int{0}})
	ch, err := w.StartClient(name, r.Tier == "thorough", world.InitArg{DBs: []world.DBSpec{{Name: "f", Driver: "mysql", DSN: db.DSN("app", ""), MaxOpen: 6, Class: "fence"}, {Name: "fd", Driver: "seata-fence-mysql", DSN: db.DSN("app", ""), MaxOpen: 6}}}, nil)
	if err != nil {
		w.Close()
		return nil, err
	}
	return &c06Env{r: r, w: w, db: db, ch: ch}, nil
}

func (e *c06Env) Close() { e.ch.Kill(); e.w.Close() }

// observe returns the state of (xid, branch) as stored in the database
func (e *c06Env) observe(xid string, branch int64) c06State {
	s := c06State{Status: "none"}
	for _, tn := range []string{"tcc_fence_log", "tcc_fence_log_test"} {
		for _, row := range e.db.E.RowsTyped(tn) {
			if mm.TextOf(row[0]) == xid && mm.TextOf(row[1]) == fmt.Sprint(branch) {
				s.Status = map[string]string{"1": "tried", "2": "committed", "3": "rollbacked", "4": "suspended"}[mm.TextOf(row[3])]
				if s.Status == "" {
					s.Status = "status-" + mm.TextOf(row[3])
				}
			}
		}
	}
	for _, row := range e.db.E.RowsTyped("effects") {
		if mm.TextOf(row[1]) == xid && mm.TextOf(row[2]) == fmt.Sprint(branch) {
			switch mm.TextOf(row[3]) {
			case "prepare":
				s.Try++
			case "commit":
				s.Confirm++
			case "rollback":
				s.Cancel++
			}
		}
	}
	return s
}

func c06Consistent(s c06State) string {
	wantTry := map[string]int{"none": 0, "suspended": 0, "tried": 1, "committed": 1, "rollbacked": 1}
	if n, ok := wantTry[s.Status]; !ok || n != s.Try {
		return fmt.Sprintf("fence status %s with %d try effects", s.Status, s.Try)
	}
	if (s.Status == "committed") != (s.Confirm == 1) || s.Confirm > 1 {
		return fmt.Sprintf("fence status %s with %d confirm effects", s.Status, s.Confirm)
	}
	if (s.Status == "rollbacked") != (s.Cancel == 1) || s.Cancel > 1 {
		return fmt.Sprintf("fence status %s with %d cancel effects", s.Status, s.Cancel)
	}
	return ""
}

func (e *c06Env) run(ds []c06Delivery, parallel bool) ([]c06Result, error) {
	var out []c06Result
	err := e.ch.Call("fence_run", map[string]interface{}{"db": "f", "deliveries": ds, "parallel": parallel}, &out)
	return out, err
}

func (e *c06Env) journalSince(seq int64) []string {
	var out []string
	for _, j := range e.db.E.JournalSince(seq) {
		s := fmt.Sprintf("[%d] c%d %s | %s args=%v", j.Seq, j.Conn, j.Kind, clipStr(strings.Join(strings.Fields(j.SQL), " "), 130), j.Args)
		if j.Err != nil {
			s += fmt.Sprintf(" ERR %d %s", j.Err.Code, clipStr(j.Err.Msg, 60))
		}
		if j.Injected != "" {
			s += " INJECTED:" + j.Injected
		}
		out = append(out, clipStr(s, 300))
	}
	return out
}

func runC06(r *vc.Run, replay string) {
	r.Rule = "sequences: ALL delivery sequences over {prepare, commit, rollback} of length 1..4 for one branch, again with the business callback failing or panicking at one position, and random interleavings of 2..3 branches sharing the fence table (same xid / same branch id); after every delivery the stored fence status and the effect rows must equal a five-state model (none/tried/committed/rollbacked/suspended) and the returned error must be nil exactly when the model accepts; faults: for 9 base sequences a database failure {error, connection lost before / after execution} at every command index of every step, then a clean redelivery: effects and fence status stay consistent (commit or roll back together), never more than one effect per phase, never confirm and cancel; races: two deliveries of the same branch at once (all pairs) x 12: same invariants, and a delivery whose effect is missing from the outcome must have returned an error; staged: the rollback's locking read, then the whole late try, then the rollback's insert, steered from inside the database; distinct_nontrivial = distinct (stream, sequence, variant) signatures"
	r.Assumptions = []string{"the business effect is written through the same local transaction that WithFence uses and the transaction is committed iff WithFence returned nil (the documented usage)", "a duplicate prepare is refused (error) and applies nothing"}
	var wg sync.WaitGroup
	only := osGetenv("VERIF_DEV_STREAM")
	for name, f := range map[string]func(){"seq": func() { c06Sequences(r) }, "faults": func() { c06Faults(r) }, "races": func() { c06Races(r) }, "staged": func() { c06Staged(r) }, "driver": func() { c06Driver(r) }} {
		if only != "" && only != name {
			continue
		}
		wg.Add(1)
		go func(f func()) { defer wg.Done(); f() }(f)
	}
	wg.Wait()
}

func c06AllSeqs(maxLen int) [][]string {
	var out [][]string
	var rec func(prefix []string)
	rec = func(prefix []string) {
		if len(prefix) > 0 {
			out = append(out, append([]string{}, prefix...))
		}
		if len(prefix) == maxLen {
			return
		}
		for _, p := range []string{"prepare", "commit", "rollback"} {
			rec(append(prefix, p))
		}
	}
	rec(nil)
	return out
}

func c06Short(seq []string) string {
	var b strings.Builder
	for _, p := range seq {
		b.WriteString(strings.ToUpper(p[:1]))
	}
	return b.String()
}

// judgeDelivery compares one sequential delivery with the model; returns the model's next state
func c06Judge(r *vc.Run, e *c06Env, shape string, feat map[string]string, d c06Delivery, res c06Result, before c06State, start int64, cs interface{}) c06State {
	want, refused := c06Step(before, d.Phase, d.EffectErr || d.Panic)
	got := e.observe(d.Xid, d.Branch)
	viol := func(clause, detail string) {
		r.Violate(&vc.Violation{Clause: clause, Shape: shape, Features: feat, Detail: detail, Case: cs,
			History: map[string]interface{}{"delivery": d, "result": res, "state_before": before, "state_after": got, "model_after": want, "journal": e.journalSince(start)}})
	}
	if res.Panic != "" && !d.Panic {
		viol("panic", fmt.Sprintf("%s of branch %d panicked: %s", d.Phase, d.Branch, clipStr(res.Panic, 200)))
	}
	if got != want {
		clause := "state-differs-from-model"
		switch {
		case got.Try > 1 || got.Confirm > 1 || got.Cancel > 1:
			clause = "effect-applied-twice"
		case got.Confirm > 0 && got.Cancel > 0:
			clause = "confirm-and-cancel"
		case before.Status == "none" && d.Phase == "rollback" && got.Cancel > 0:
			clause = "cancel-without-try"
		case before.Status == "suspended" && d.Phase == "prepare" && got.Try > 0:
			clause = "try-after-suspension"
		}
		viol(clause, fmt.Sprintf("after %s (state before: %+v) the database holds %+v, the model says %+v", d.Phase, before, got, want))
	}
	if msg := c06Consistent(got); msg != "" {
		viol("record-and-effect-disagree", msg)
	}
	if refused && res.Err == "" {
		viol("refusal-not-reported", fmt.Sprintf("%s in state %s must be refused but WithFence returned nil", d.Phase, before.Status))
	}
	if !refused && res.Err != "" {
		viol("accepted-delivery-failed", fmt.Sprintf("%s in state %s is legal but WithFence returned %q", d.Phase, before.Status, clipStr(res.Err, 200)))
	}
	return got
}

func c06Sequences(r *vc.Run) {
	e, err := newC06Env(r, "c06-seq")
	if err != nil {
		r.Errorf("%v", err)
		return
	}
	defer e.Close()
	rnd := vc.NewRand(r.Seed, "c06-seq")
	branch := int64(100)
	maxLen := 4
	if r.Tier == "thorough" {
		maxLen = 5
	}
	seqs := c06AllSeqs(maxLen)
	for si, seq := range seqs {
		variants := []string{"plain"}
		if len(seq) >= 2 || r.Tier == "thorough" {
			variants = append(variants, "callback-fails", "callback-panics")
		}
		for _, v := range variants {
			branch++
			xid := fmt.Sprintf("10.0.0.1:8091:%d", 70000+si)
			bad := -1
			if v != "plain" {
				bad = rnd.Intn(len(seq))
			}
			st := c06State{Status: "none"}
			shape := "seq|" + c06Short(seq) + "|" + v
			feat := map[string]string{"stream": "sequences", "sequence": c06Short(seq), "variant": v}
			for k, p := range seq {
				d := c06Delivery{Phase: p, Xid: xid, Branch: branch, Action: "actF", EffectErr: k == bad && v == "callback-fails", Panic: k == bad && v == "callback-panics"}
				start := e.w.Clock.Now()
				res, err := e.run([]c06Delivery{d}, false)
				if err != nil || len(res) != 1 {
					if !e.ch.Alive() {
						txt, _, _ := e.ch.PanicInfo()
						r.Violate(&vc.Violation{Clause: "client-crash", Shape: shape, Features: feat, Detail: "the client process died: " + clipStr(txt, 500)})
						return
					}
					r.Inconc(fmt.Sprintf("%s: %v", shape, err))
					break
				}
				st = c06Judge(r, e, shape, feat, d, res[0], st, start, map[string]interface{}{"sequence": seq, "position": k, "variant": v})
			}
			r.Case(shape, map[string]interface{}{"sequence": seq, "variant": v, "final": st})
		}
	}
	// several branches sharing the table
	n := 40
	if r.Tier == "thorough" {
		n = 400
	}
	for i := 0; i < n; i++ {
		nb := 2 + rnd.Intn(2)
		type br struct {
			xid string
			id  int64
			st  c06State
		}
		var bs []*br
		for k := 0; k < nb; k++ {
			b := &br{xid: fmt.Sprintf("10.0.0.2:8091:%d", 90000+i), id: int64(5000 + i*10 + k), st: c06State{Status: "none"}}
			if k == 1 && rnd.Bool() { // same branch id under another xid
				b.xid, b.id = fmt.Sprintf("10.0.0.3:8091:%d", 90000+i), bs[0].id
			}
			bs = append(bs, b)
		}
		shape := fmt.Sprintf("multi|branches=%d", nb)
		feat := map[string]string{"stream": "multi-branch", "branches": fmt.Sprint(nb)}
		var trace []string
		for k := 0; k < 3+rnd.Intn(5); k++ {
			b := bs[rnd.Intn(len(bs))]
			d := c06Delivery{Phase: []string{"prepare", "commit", "rollback"}[rnd.Intn(3)], Xid: b.xid, Branch: b.id, Action: "actF"}
			trace = append(trace, fmt.Sprintf("%s(%s#%d)", d.Phase, b.xid[len(b.xid)-5:], b.id))
			start := e.w.Clock.Now()
			res, err := e.run([]c06Delivery{d}, false)
			if err != nil || len(res) != 1 {
				r.Inconc(fmt.Sprintf("%s: %v", shape, err))
				break
			}
			b.st = c06Judge(r, e, shape, feat, d, res[0], b.st, start, map[string]interface{}{"trace": trace})
			// the other branches must not move
			for _, o := range bs {
				if o != b {
					if got := e.observe(o.xid, o.id); got != o.st {
						r.Violate(&vc.Violation{Clause: "other-branch-touched", Shape: shape, Features: feat, Detail: fmt.Sprintf("a delivery for %s#%d changed %s#%d from %+v to %+v", b.xid, b.id, o.xid, o.id, o.st, got), Case: trace})
						o.st = got
					}
				}
			}
		}
		r.Case(shape+"|"+fmt.Sprint(len(trace)), map[string]interface{}{"trace": trace})
	}
}

// ---- faults ----

func c06Faults(r *vc.Run) {
	e, err := newC06Env(r, "c06-flt")
	if err != nil {
		r.Errorf("%v", err)
		return
	}
	defer e.Close()
	bases := [][]string{{"prepare"}, {"prepare", "commit"}, {"prepare", "rollback"}, {"rollback"}, {"rollback", "prepare"}, {"prepare", "commit", "commit"}, {"prepare", "rollback", "rollback"}, {"prepare", "commit", "rollback"}, {"rollback", "rollback"}}
	branch := int64(200000)
	run := 0
	for _, seq := range bases {
		for fs := range seq {
			// baseline: how many commands does step fs send?
			branch++
			xid := fmt.Sprintf("10.0.0.9:8091:%d", branch)
			ncmd := 0
			var kinds []string
			for k, p := range seq {
				start := e.w.Clock.Now()
				if _, err := e.run([]c06Delivery{{Phase: p, Xid: xid, Branch: branch, Action: "actF"}}, false); err != nil {
					r.Inconc("faults baseline: " + err.Error())
					return
				}
				if k == fs {
					for _, j := range e.db.E.JournalSince(start) {
						if j.Kind != "SET" {
							ncmd++
							kinds = append(kinds, j.Kind)
						}
					}
				}
			}
			for pos := 0; pos < ncmd; pos++ {
				for _, fk := range []string{"db-error", "drop-before", "drop-after"} {
					run++
					branch++
					if !c06FaultRun(r, e, seq, fs, pos, fk, kinds[pos], branch) {
						return
					}
				}
			}
		}
	}
}

func c06FaultRun(r *vc.Run, e *c06Env, seq []string, fs, pos int, fk, cmdKind string, branch int64) bool {
	xid := fmt.Sprintf("10.0.0.9:8091:%d", branch)
	shape := fmt.Sprintf("faults|%s|step=%d|%s@%s", c06Short(seq), fs, fk, cmdKind)
	feat := map[string]string{"stream": "faults", "sequence": c06Short(seq), "fault": fk, "fault_at": cmdKind, "step": fmt.Sprint(fs)}
	st := c06State{Status: "none"}
	start0 := e.w.Clock.Now()
	viol := func(clause, detail string, extra interface{}) {
		r.Violate(&vc.Violation{Clause: clause, Shape: shape, Features: feat, Detail: detail, Case: map[string]interface{}{"sequence": seq, "fault_step": fs, "fault_command_index": pos, "fault": fk},
			History: map[string]interface{}{"extra": extra, "journal": e.journalSince(start0)}})
	}
	for k, p := range seq {
		d := c06Delivery{Phase: p, Xid: xid, Branch: branch, Action: "actF"}
		if k != fs {
			start := e.w.Clock.Now()
			res, err := e.run([]c06Delivery{d}, false)
			if err != nil || len(res) != 1 {
				r.Inconc(shape + ": " + fmt.Sprint(err))
				return e.ch.Alive()
			}
			st = c06Judge(r, e, shape, feat, d, res[0], st, start, seq)
			continue
		}
		var mu sync.Mutex
		n := -1
		fired := false
		e.db.E.Inject = func(j *mm.JournalEntry) *mm.Action {
			if j.Kind == "SET" {
				return nil
			}
			mu.Lock()
			defer mu.Unlock()
			n++
			if fired || n != pos {
				return nil
			}
			fired = true
			switch fk {
			case "db-error":
				return &mm.Action{Err: &mm.MyErr{Code: 1205, State: "HY000", Msg: "Lock wait timeout exceeded; try restarting transaction"}}
			case "drop-before":
				return &mm.Action{DropBefore: true}
			}
			return &mm.Action{DropAfter: true}
		}
		res, err := e.run([]c06Delivery{d}, false)
		e.db.E.Inject = nil
		if err != nil || len(res) != 1 {
			r.Inconc(shape + ": " + fmt.Sprint(err))
			return e.ch.Alive()
		}
		got := e.observe(xid, branch)
		accepted, _ := c06Step(st, p, false)
		// the faulted delivery either took effect completely or not at all
		if got != st && got != accepted {
			viol("partial-delivery", fmt.Sprintf("after %s with %s at command %d (%s) the database holds %+v: neither the state before (%+v) nor the state after a complete delivery (%+v)", p, fk, pos, cmdKind, got, st, accepted), res[0])
		}
		if msg := c06Consistent(got); msg != "" {
			viol("record-and-effect-disagree", "after the faulted delivery: "+msg, res[0])
		}
		if got == accepted && got != st && res[0].Err == "" && res[0].TxEndErr == "" && fk != "drop-after" {
			// fine: the fault hit a command whose failure does not matter (e.g. closing a statement)
		}
		if got == st && res[0].Err == "" && res[0].TxEndErr == "" && accepted != st {
			viol("failure-swallowed", fmt.Sprintf("%s with %s at command %d (%s) reported success but nothing was stored", p, fk, pos, cmdKind), res[0])
		}
		st = got
		// clean redelivery
		start := e.w.Clock.Now()
		res2, err := e.run([]c06Delivery{d}, false)
		if err != nil || len(res2) != 1 {
			r.Inconc(shape + ": " + fmt.Sprint(err))
			return e.ch.Alive()
		}
		st = c06Judge(r, e, shape, feat, d, res2[0], st, start, seq)
	}
	r.Case(shape, map[string]interface{}{"sequence": seq, "fault_step": fs, "fault_command_index": pos, "fault": fk, "final": st})
	return e.ch.Alive()
}

// ---- races ----

func c06Races(r *vc.Run) {
	e, err := newC06Env(r, "c06-race")
	if err != nil {
		r.Errorf("%v", err)
		return
	}
	defer e.Close()
	reps := 12
	if r.Tier == "thorough" {
		reps = 150
	}
	branch := int64(700000)
	type pair struct {
		prep []string
		a, b string
	}
	pairs := []pair{{nil, "prepare", "prepare"}, {nil, "prepare", "rollback"}, {nil, "rollback", "rollback"}, {[]string{"prepare"}, "commit", "commit"}, {[]string{"prepare"}, "rollback", "rollback"}, {[]string{"prepare"}, "commit", "rollback"}, {[]string{"prepare"}, "prepare", "commit"}, {[]string{"rollback"}, "prepare", "rollback"}}
	for _, p := range pairs {
		for i := 0; i < reps; i++ {
			branch++
			xid := fmt.Sprintf("10.0.0.7:8091:%d", branch)
			st := c06State{Status: "none"}
			shape := fmt.Sprintf("race|after=%s|%s+%s", c06Short(p.prep), p.a, p.b)
			feat := map[string]string{"stream": "races", "prepared_by": c06Short(p.prep), "pair": p.a + "+" + p.b}
			ok := true
			for _, ph := range p.prep {
				res, err := e.run([]c06Delivery{{Phase: ph, Xid: xid, Branch: branch, Action: "actF"}}, false)
				if err != nil || len(res) != 1 {
					ok = false
					break
				}
				st, _ = c06Step(st, ph, false)
			}
			if !ok {
				r.Inconc(shape)
				continue
			}
			start := e.w.Clock.Now()
			res, err := e.run([]c06Delivery{{Phase: p.a, Xid: xid, Branch: branch, Action: "actF"}, {Phase: p.b, Xid: xid, Branch: branch, Action: "actF"}}, true)
			if err != nil {
				if !e.ch.Alive() {
					return
				}
				r.Inconc(shape + ": " + err.Error())
				continue
			}
			got := e.observe(xid, branch)
			// legal outcomes: the two serial orders
			s1, _ := c06Step(st, p.a, false)
			s1, _ = c06Step(s1, p.b, false)
			s2, _ := c06Step(st, p.b, false)
			s2, _ = c06Step(s2, p.a, false)
			r.Case(shape+fmt.Sprintf("|%s", got.Status), map[string]interface{}{"pair": []string{p.a, p.b}, "after": p.prep, "results": res, "state": got})
			viol := func(clause, detail string) {
				r.Violate(&vc.Violation{Clause: clause, Shape: shape, Features: feat, Detail: detail, Case: map[string]interface{}{"prepared_by": p.prep, "pair": []string{p.a, p.b}},
					History: map[string]interface{}{"results": res, "state": got, "serial_outcomes": []c06State{s1, s2}, "journal": e.journalSince(start)}})
			}
			if got.Try > 1 || got.Confirm > 1 || got.Cancel > 1 {
				viol("effect-applied-twice", fmt.Sprintf("two simultaneous deliveries (%s, %s) left %+v", p.a, p.b, got))
			}
			if got.Confirm > 0 && got.Cancel > 0 {
				viol("confirm-and-cancel", fmt.Sprintf("two simultaneous deliveries (%s, %s) left %+v", p.a, p.b, got))
			}
			if msg := c06Consistent(got); msg != "" {
				viol("record-and-effect-disagree", msg)
			}
			c06RaceVerdict(viol, st, p.a, p.b, res, got)
		}
	}
}

// c06RaceVerdict: the state two simultaneous deliveries leave must be the outcome of one of the two serial orders; a
// delivery that lost (lock wait, duplicate key) may instead have been refused - then it must have returned an error,
// because an acknowledged delivery is never repeated by the coordinator.
func c06RaceVerdict(viol func(clause, detail string), st c06State, a, b string, res []c06Result, got c06State) {
	s1, _ := c06Step(st, a, false)
	s1, _ = c06Step(s1, b, false)
	s2, _ := c06Step(st, b, false)
	s2, _ = c06Step(s2, a, false)
	if got == s1 || got == s2 {
		return
	}
	a1, _ := c06Step(st, a, false)
	b1, _ := c06Step(st, b, false)
	refused := func(i int) bool { return len(res) > i && (res[i].Err != "" || res[i].Panic != "") }
	switch {
	case got == a1 && refused(1), got == b1 && refused(0), got == st && refused(0) && refused(1):
		return
	case got == a1 || got == b1 || got == st:
		viol("acknowledged-without-effect", fmt.Sprintf("two simultaneous deliveries (%s, %s) left %+v, the outcome of one of them alone, but the other one was acknowledged too (errors: %q, %q): the coordinator will not repeat it", a, b, got, res[0].Err, res[1].Err))
	default:
		viol("not-serializable", fmt.Sprintf("two simultaneous deliveries (%s, %s) left %+v which no serial order produces", a, b, got))
	}
}

// c06Staged: the interleaving chance rarely produces - a rollback whose locking read found no record, then the whole
// late try (record TRIED + effect, committed), then the rollback's own insert. Steered from inside the database: the
// try's insert waits until the rollback's insert has arrived, the rollback's insert waits until the try's record is
// durable. (The fake database takes no gap locks, like READ COMMITTED.)
func c06Staged(r *vc.Run) {
	e, err := newC06Env(r, "c06-stg")
	if err != nil {
		r.Errorf("%v", err)
		return
	}
	defer e.Close()
	reps := 6
	if r.Tier == "thorough" {
		reps = 40
	}
	branch := int64(760000)
	fenceInsertStatus := func(j *mm.JournalEntry) string {
		if j.Kind != "INSERT" || !strings.Contains(strings.ToLower(j.SQL), "tcc_fence_log") || len(j.Args) < 4 {
			return ""
		}
		return mm.TextOf(j.Args[3])
	}
	for i := 0; i < reps; i++ {
		branch++
		xid := fmt.Sprintf("10.0.0.8:8091:%d", branch)
		st := c06State{Status: "none"}
		shape := "staged|rollback-read, try, rollback-insert"
		feat := map[string]string{"stream": "staged", "pair": "prepare+rollback"}
		suspendArrived := make(chan struct{})
		var once sync.Once
		steered := int32(0)
		e.db.E.Inject = func(j *mm.JournalEntry) *mm.Action {
			switch fenceInsertStatus(j) {
			case "1": // the try's record: not before the rollback has read and found nothing
				select {
				case <-suspendArrived:
				case <-time.After(3 * time.Second):
				}
			case "4": // the rollback's suspension record: not before the try is durable
				once.Do(func() { close(suspendArrived) })
				for t0 := time.Now(); time.Since(t0) < 3*time.Second; time.Sleep(2 * time.Millisecond) {
					if e.observe(xid, branch).Status == "tried" {
						atomic.StoreInt32(&steered, 1)
						break
					}
				}
			}
			return nil
		}
		start := e.w.Clock.Now()
		res, err := e.run([]c06Delivery{{Phase: "prepare", Xid: xid, Branch: branch, Action: "actF"}, {Phase: "rollback", Xid: xid, Branch: branch, Action: "actF"}}, true)
		e.db.E.Inject = nil
		if err != nil {
			if !e.ch.Alive() {
				return
			}
			r.Inconc(shape + ": " + err.Error())
			continue
		}
		got := e.observe(xid, branch)
		if atomic.LoadInt32(&steered) == 0 {
			// the schedule did not come about (e.g. the rollback read after the try): an ordinary race, judged alike
			shape = "staged|not-steered"
		} else {
			r.Count("staged_interleavings_steered", 1)
		}
		r.Case(shape+"|"+got.Status, map[string]interface{}{"results": res, "state": got})
		viol := func(clause, detail string) {
			r.Violate(&vc.Violation{Clause: clause, Shape: shape, Features: feat, Detail: detail, Case: map[string]interface{}{"pair": []string{"prepare", "rollback"}, "steered": atomic.LoadInt32(&steered) == 1},
				History: map[string]interface{}{"results": res, "state": got, "journal": e.journalSince(start)}})
		}
		if got.Try > 1 || got.Cancel > 1 || got.Confirm > 0 {
			viol("effect-applied-twice", fmt.Sprintf("left %+v", got))
		}
		if msg := c06Consistent(got); msg != "" {
			viol("record-and-effect-disagree", msg)
		}
		c06RaceVerdict(viol, st, "prepare", "rollback", res, got)
		// what the coordinator does next: it repeats the rollback until it is acknowledged; then the branch must be
		// rolled back or suspended, never left tried
		if len(res) == 2 && res[1].Err != "" {
			if res2, err := e.run([]c06Delivery{{Phase: "rollback", Xid: xid, Branch: branch, Action: "actF"}}, false); err == nil && len(res2) == 1 && res2[0].Err == "" {
				got = e.observe(xid, branch)
			}
		}
		if len(res) == 2 && got.Status == "tried" && (res[1].Err == "") {
			// already reported above as acknowledged-without-effect
		} else if got.Status == "tried" {
			viol("rollback-never-applied", fmt.Sprintf("after the repeated rollback was acknowledged the branch is still %+v", got))
		}
	}
}

// ---- fence driver (sql.Open("seata-fence-mysql")): record and effect under faults ----

func c06Driver(r *vc.Run) {
	e, err := newC06Env(r, "c06-drv")
	if err != nil {
		r.Errorf("%v", err)
		return
	}
	defer e.Close()
	runD := func(d c06Delivery) (c06Result, error) {
		var out []c06Result
		err := e.ch.Call("fence_driver_run", map[string]interface{}{"db": "fd", "deliveries": []c06Delivery{d}}, &out)
		if err != nil || len(out) != 1 {
			return c06Result{}, fmt.Errorf("fence_driver_run: %v", err)
		}
		return out[0], nil
	}
	bases := [][]string{{"prepare"}, {"prepare", "commit"}, {"prepare", "rollback"}}
	branch := int64(900000)
	for _, seq := range bases {
		fs := len(seq) - 1
		// baseline of the last step: commands of both connections, COMMITs numbered in order
		branch++
		xid := fmt.Sprintf("10.0.0.5:8091:%d", branch)
		var kinds []string
		st := c06State{Status: "none"}
		for k, p := range seq {
			start := e.w.Clock.Now()
			res, err := runD(c06Delivery{Phase: p, Xid: xid, Branch: branch, Action: "actF"})
			if err != nil {
				r.Inconc("driver baseline: " + err.Error())
				return
			}
			want, _ := c06Step(st, p, false)
			got := e.observe(xid, branch)
			if got != want || res.Err != "" || res.TxEndErr != "" {
				r.Violate(&vc.Violation{Clause: "driver-clean-delivery-wrong", Shape: "driver|" + c06Short(seq) + "|clean", Features: map[string]string{"stream": "driver", "sequence": c06Short(seq)},
					Detail: fmt.Sprintf("fault-free %s through the fence driver left %+v (model %+v), result %+v", p, got, want, res), History: map[string]interface{}{"journal": e.journalSince(start)}})
			}
			st = got
			if k == fs {
				nc := 0
				for _, j := range e.db.E.JournalSince(start) {
					if j.Kind == "SET" {
						continue
					}
					kd := j.Kind
					if strings.Contains(strings.ToLower(j.SQL), "tcc_fence_log") {
						kd += "(fence)"
					}
					if j.Kind == "COMMIT" {
						nc++
						kd = fmt.Sprintf("COMMIT#%d", nc)
					}
					kinds = append(kinds, kd)
				}
			}
		}
		r.Case("driver|"+c06Short(seq)+"|clean", map[string]interface{}{"sequence": seq, "commands_of_last_step": kinds})
		for pos, kd := range kinds {
			for _, fk := range []string{"db-error", "drop-before", "drop-after"} {
				branch++
				xid := fmt.Sprintf("10.0.0.5:8091:%d", branch)
				shape := fmt.Sprintf("driver|%s|%s@%s", c06Short(seq), fk, kd)
				feat := map[string]string{"stream": "driver", "sequence": c06Short(seq), "fault": fk, "fault_at": kd, "fault_site": fk + "@" + kd}
				ok := true
				for _, p := range seq[:fs] {
					if _, err := runD(c06Delivery{Phase: p, Xid: xid, Branch: branch, Action: "actF"}); err != nil {
						ok = false
					}
				}
				if !ok {
					r.Inconc(shape)
					continue
				}
				before := e.observe(xid, branch)
				var mu sync.Mutex
				n, fired := -1, false
				start := e.w.Clock.Now()
				e.db.E.Inject = func(j *mm.JournalEntry) *mm.Action {
					if j.Kind == "SET" {
						return nil
					}
					mu.Lock()
					defer mu.Unlock()
					n++
					if fired || n != pos {
						return nil
					}
					fired = true
					switch fk {
					case "db-error":
						return &mm.Action{Err: &mm.MyErr{Code: 1205, State: "HY000", Msg: "Lock wait timeout exceeded; try restarting transaction"}}
					case "drop-before":
						return &mm.Action{DropBefore: true}
					}
					return &mm.Action{DropAfter: true}
				}
				res, err := runD(c06Delivery{Phase: seq[fs], Xid: xid, Branch: branch, Action: "actF"})
				e.db.E.Inject = nil
				// connections left inside a transaction are closed (the pool is small), then the durable state is read
				e.db.S.KillAll(nil)
				if err != nil {
					if !e.ch.Alive() {
						return
					}
					r.Inconc(shape + ": " + err.Error())
					continue
				}
				got := e.observe(xid, branch)
				r.Case(shape, map[string]interface{}{"sequence": seq, "fault": fk, "at": kd, "result": res, "state": got})
				if msg := c06Consistent(got); msg != "" {
					r.Violate(&vc.Violation{Clause: "record-and-effect-disagree", Shape: shape, Features: feat, Detail: fmt.Sprintf("fence driver, %s with %s at command %d (%s): %s (state before %+v)", seq[fs], fk, pos, kd, msg, before),
						Case: map[string]interface{}{"sequence": seq, "fault": fk, "fault_command": kd}, History: map[string]interface{}{"result": res, "state": got, "journal": e.journalSince(start)}})
				}
			}
		}
	}
}
