package checks

import (
	"fmt"
	"math"
	"strconv"
	"strings"
	"sync"
	"time"

	mm "verif/minimysql"
	"verif/vc"
)

// C09 — branch rollback never overwrites a foreign write.
//
// After a branch committed locally, a foreign writer (a plain connection to the fake database) modifies rows the
// branch wrote; then the coordinator's BranchRollback is delivered. The three-way specification is evaluated on
// ground truth only: the rows' content before the branch, after the branch and after the foreign write, all taken
// from the fake database (never from the undo log's own images).

func init() {
	Registry["C09"] = Check{Level: "exploration", Fn: runC09}
}

var c09Foreign = []string{"none", "change-written-column", "change-unwritten-column", "delete-row", "reinsert-same", "reinsert-different", "some-rows", "revert-to-before"}

func runC09(r *vc.Run, replay string) {
	r.Rule = "cases = committed branches (INSERT 1/many rows, UPDATE 1/many rows, DELETE 1/many rows, upsert hit/miss) x foreign modification between local commit and rollback {none, change a written column, change an unwritten column, delete the row, re-insert a deleted key with same / different content, modify some rows of a multi-row statement, revert to the before image} x only-care-update-columns {on, off}, data validation on (off as a control group); oracle = three-way spec on ground truth: a row whose current value differs from both images on the tracked columns must survive untouched, the undo log must stay and the answer must not be Rollbacked; all rows equal to the before image => Rollbacked without a durable write; all rows equal to the after image => restored; distinct_nontrivial = distinct (statement kind, rows, foreign kind, settings) signatures whose branch registered and whose rollback was attempted"
	r.Assumptions = []string{"tracked columns: all columns for INSERT/DELETE or when only-care-update-columns is off; SET list + primary key otherwise", "foreign writes are applied through a separate plain MySQL connection (class 'foreign') and are committed before the rollback is delivered"}
	n := 160
	if r.Tier == "thorough" {
		n = 1500
	}
	if v := devN(); v > 0 {
		n = v
	}
	cfgs := []atUndoCfg{
		{Serializer: "json", Compress: "None", Validation: true, OnlyCare: true},
		{Serializer: "json", Compress: "None", Validation: true, OnlyCare: false, Loc: "America/Bogota"},
		{Serializer: "json", Compress: "None", Validation: false, OnlyCare: true},
	}
	if r.Tier == "thorough" {
		cfgs = append(cfgs, atUndoCfg{Serializer: "protobuf", Compress: "None", Validation: true, OnlyCare: true})
	}
	var wg sync.WaitGroup
	for i, cfg := range cfgs {
		wg.Add(1)
		go func(i int, cfg atUndoCfg) {
			defer wg.Done()
			k := n
			if !cfg.Validation {
				k = n / 4
			}
			c09Batch(r, i, cfg, k)
		}(i, cfg)
	}
	wg.Wait()
}

func c09Batch(r *vc.Run, bi int, cfg atUndoCfg, n int) {
	env, err := newATEnv(r, fmt.Sprintf("c09-%d", bi), cfg, r.Tier == "thorough", "")
	if err != nil {
		r.Errorf("%v", err)
		return
	}
	defer env.Close()
	rnd := vc.NewRand(r.Seed, fmt.Sprintf("c09-%d", bi))
	for i := 0; i < n; i++ {
		pk := []string{"int", "composite", "varchar", "autoinc", "composite_txt"}[rnd.Intn(5)]
		// a third of the tables have nullable columns: the branch leaves NULL behind (or found NULL), the foreign writer
		// puts a value there
		nullable := rnd.Intn(3) == 0
		t := atGenTable(rnd, fmt.Sprintf("f%d_%04dt", bi, i), pk, []string{"int", "bigint", "varchar", "varchar_num", "double", "datetime"}, 3, 4+rnd.Intn(3), nullable)
		c := &atCase{Name: fmt.Sprintf("f%d_%04d", bi, i), Tables: []*atTable{t}, Feat: map[string]string{"pk": pk, "cfg": cfg.String()}}
		seq := 0
		many := rnd.Intn(3) == 0
		if pk == "composite_txt" {
			// several rows with look-alike keys in one statement
			many = rnd.Intn(4) != 0
		}
		rc := "1"
		if many {
			rc = "many"
		}
		o := atStmtOpts{params: true, rowsClass: rc, nullBias: nullable}
		var st atStmt
		switch rnd.Intn(6) {
		case 5:
			st = c09NoopUpdate(rnd, t)
		case 0, 1:
			st = atGenUpdate(rnd, t, o)
		case 2:
			st = atGenDelete(rnd, t, o)
		case 3:
			k := 1
			if many {
				k = 3
			}
			o.shuffleCols = rnd.Bool()
			st = atGenInsert(rnd, t, o, k, &seq)
		default:
			st = atGenUpsert(rnd, t, o, rnd.Bool(), &seq)
		}
		c.Groups = []atGroup{{Stmts: []atStmt{st}}}
		c.DDL = []string{describeTable(t)}
		c.fold()
		foreign := c09Foreign[rnd.Intn(len(c09Foreign))]
		if st.Feat["stmt"] == "update-same-values" {
			foreign = []string{"change-written-column", "change-written-column", "none", "delete-row"}[rnd.Intn(4)]
		}
		if pk == "composite_txt" && many && rnd.Bool() {
			foreign = "some-rows"
		}
		if nullable && rnd.Bool() {
			foreign = "change-written-column"
		}
		near := rnd.Bool()
		c.Feat["nullable"] = fmt.Sprint(nullable)
		c.Feat["foreign"] = foreign
		c.Feat["foreign_value"] = map[bool]string{true: "near", false: "far"}[near]
		c.Feat["stmt"] = st.Feat["stmt"]
		if st.Feat["upsert"] != "" {
			c.Feat["stmt"] = "upsert-" + st.Feat["upsert"]
		}
		env.install(c)
		out := env.runGtx(c, "error", nil)
		if out.CallErr != nil {
			if !env.ch.Alive() {
				c01Crash(r, env, c)
				return
			}
			r.Inconc(c.Name + ": " + out.CallErr.Error())
			r.Case("", nil)
			env.drop(c)
			continue
		}
		// ground truth of the branch: first Before and last After per row
		journal := env.db.E.JournalSince(out.StartSeq)
		pre := map[string][]interface{}{}
		post := map[string][]interface{}{}
		var order []string
		var stmtKind string
		var setCols map[string]bool
		for _, j := range journal {
			if !stmtIsDML(j) || !strings.EqualFold(j.Table, t.Name) || j.Err != nil {
				continue
			}
			stmtKind = j.Kind
			setCols = c09SetCols(t.Def, j.SQL)
			for _, ch := range j.Changes {
				row := ch.Before
				if row == nil {
					row = ch.After
				}
				k := truthRowKey(t.Def, row)
				if _, ok := pre[k]; !ok {
					pre[k] = ch.Before
					order = append(order, k)
				}
				post[k] = ch.After
			}
			if j.Kind == "UPDATE" {
				// rows the statement matched but left as they were (value-preserving update)
				for _, row := range j.MatchedRows {
					k := truthRowKey(t.Def, row)
					if _, ok := pre[k]; !ok {
						pre[k] = row
						post[k] = row
						order = append(order, k)
					}
				}
			}
		}
		applied := c09ApplyForeign(env, t, foreign, order, pre, post, setCols, near)
		c.Feat["foreign_applied"] = applied
		cur := map[string][]interface{}{}
		for _, row := range env.db.E.RowsTyped(t.Name) {
			cur[truthRowKey(t.Def, row)] = row
		}
		beforeRollback := env.snap(c)
		rbSeq := env.w.Clock.Now()
		env.phaseTwo(c, out, false, 1)
		c09Judge(r, env, c, out, stmtKind, setCols, order, pre, post, cur, beforeRollback, rbSeq)
		if out.Xid != "" {
			env.w.TC.ReleaseLocks(out.Xid)
		}
		env.sweep()
		env.drop(c)
		if i%40 == 39 {
			env.db.E.Truncate("undo_log")
		}
	}
}

// c09NoopUpdate: UPDATE that assigns a row the values it already has (before image == after image).
func c09NoopUpdate(r *vc.Rand, t *atTable) atStmt {
	row := t.Rows[r.Intn(len(t.Rows))]
	vcs := t.valueCols()
	ci := vcs[r.Intn(len(vcs))]
	where, wargs := pkWhere(t, row, true)
	return atStmt{Kind: "update", Table: t.Name, SQL: fmt.Sprintf("update %s set %s = ? where %s", t.Name, t.Def.Cols[ci].Name, where), Args: append([]tval{tvOf(row[ci])}, wargs...),
		Feat: map[string]string{"stmt": "update-same-values", "params": "true", "rows": "1", "where": "pk", "set_kinds": t.Kinds[ci]}}
}

// c09SetCols: columns named in the SET list of an UPDATE (lower case); nil for other statements.
func c09SetCols(def *mm.Table, sql string) map[string]bool {
	low := strings.ToLower(sql)
	if !strings.HasPrefix(strings.TrimSpace(low), "update") {
		return nil
	}
	i := strings.Index(low, " set ")
	j := strings.Index(low, " where ")
	if i < 0 || j < i {
		return nil
	}
	out := map[string]bool{}
	for _, part := range strings.Split(low[i+5:j], ",") {
		if k := strings.Index(part, "="); k > 0 {
			out[strings.Trim(strings.TrimSpace(part[:k]), "`")] = true
		}
	}
	return out
}

func c09Exec(env *atEnv, sql string, args ...interface{}) error {
	var targs []tval
	for _, a := range args {
		targs = append(targs, tvOf(a))
	}
	var res scopeResult
	if err := env.ch.Call("gtx", &gtxScope{Name: "foreign", NoGtx: true, Outcome: "nil", Label: "foreign", Steps: []gtxStep{{Op: "exec", DB: "plain", SQL: sql, Args: targs}}}, &res); err != nil {
		return err
	}
	if len(res.Steps) > 0 && res.Steps[0].Err != "" {
		return fmt.Errorf("%s", res.Steps[0].Err)
	}
	return nil
}

// c09ApplyForeign performs the foreign modification and returns what was really applied ("none" when the kind does
// not fit the branch, e.g. re-insert for a branch that deleted nothing).
func c09ApplyForeign(env *atEnv, t *atTable, kind string, order []string, pre, post map[string][]interface{}, setCols map[string]bool, near bool) string {
	if len(order) == 0 || kind == "none" {
		return "none"
	}
	def := t.Def
	where := func(row []interface{}) (string, []interface{}) {
		var conds []string
		var args []interface{}
		for _, p := range def.PK {
			conds = append(conds, def.Cols[p].Name+" = ?")
			args = append(args, row[p])
		}
		return strings.Join(conds, " and "), args
	}
	// a value column that is in the SET list (written) / not in it (unwritten)
	pick := func(written bool) int {
		for _, ci := range t.valueCols() {
			n := strings.ToLower(def.Cols[ci].Name)
			if setCols == nil {
				if written {
					return ci
				}
				continue
			}
			if setCols[n] == written {
				return ci
			}
		}
		return -1
	}
	foreignVal := func(ci int, old interface{}) interface{} {
		if near && old != nil {
			// a value close to what the branch left: equal under a lossy comparison, different in the database
			switch v := old.(type) {
			case int64:
				if v == math.MaxInt64 || (t.Kinds[ci] == "int" && v == math.MaxInt32) {
					return v - 1
				}
				return v + 1
			case float64:
				return math.Nextafter(v, math.Inf(1))
			case string:
				if _, err := strconv.ParseFloat(strings.TrimSpace(v), 64); err == nil && v != "" {
					if strings.ContainsAny(v, ".eExX") {
						return "0" + v
					}
					if len(v) > 17 {
						return v[:len(v)-1] + string('0'+(v[len(v)-1]-'0'+1)%10)
					}
					return v + ".0"
				}
				if strings.ToUpper(v) != v {
					return strings.ToUpper(v)
				}
				return v + " "
			case time.Time:
				return v.Add(time.Second).Format("2006-01-02 15:04:05")
			}
		}
		switch t.Kinds[ci] {
		case "int", "bigint":
			return int64(424242)
		case "double":
			return 4242.5
		case "varchar", "varchar_num":
			return "foreign!"
		case "datetime":
			return "2031-03-03 03:03:03"
		}
		return int64(1)
	}
	changeCol := func(keys []string, ci int) string {
		n := 0
		for _, k := range keys {
			row := post[k]
			if row == nil {
				continue
			}
			w, args := where(row)
			if err := c09Exec(env, fmt.Sprintf("update %s set %s = ? where %s", t.Name, def.Cols[ci].Name, w), append([]interface{}{foreignVal(ci, row[ci])}, args...)...); err == nil {
				n++
			}
		}
		if n == 0 {
			return "none"
		}
		return ""
	}
	switch kind {
	case "change-written-column":
		ci := pick(true)
		if ci < 0 {
			return "none"
		}
		if changeCol(order, ci) == "none" {
			return "none"
		}
		return kind
	case "change-unwritten-column":
		ci := pick(false)
		if ci < 0 || setCols == nil {
			return "none"
		}
		if changeCol(order, ci) == "none" {
			return "none"
		}
		return kind
	case "some-rows":
		if len(order) < 2 {
			return "none"
		}
		ci := pick(true)
		if ci < 0 {
			return "none"
		}
		if changeCol(order[:1], ci) == "none" {
			return "none"
		}
		return kind
	case "delete-row":
		row := post[order[0]]
		if row == nil {
			return "none"
		}
		w, args := where(row)
		if c09Exec(env, fmt.Sprintf("delete from %s where %s", t.Name, w), args...) != nil {
			return "none"
		}
		return kind
	case "reinsert-same", "reinsert-different":
		k := order[0]
		if post[k] != nil || pre[k] == nil {
			return "none" // the branch did not delete this row
		}
		row := append([]interface{}{}, pre[k]...)
		if kind == "reinsert-different" {
			ci := t.valueCols()[0]
			row[ci] = foreignVal(ci, row[ci])
		}
		var cols, ph []string
		var args []interface{}
		for ci, c := range def.Cols {
			cols = append(cols, c.Name)
			ph = append(ph, "?")
			args = append(args, row[ci])
		}
		if c09Exec(env, fmt.Sprintf("insert into %s (%s) values (%s)", t.Name, strings.Join(cols, ", "), strings.Join(ph, ", ")), args...) != nil {
			return "none"
		}
		return kind
	case "revert-to-before":
		for _, k := range order {
			switch {
			case pre[k] == nil && post[k] != nil: // inserted by the branch
				w, args := where(post[k])
				c09Exec(env, fmt.Sprintf("delete from %s where %s", t.Name, w), args...)
			case pre[k] != nil && post[k] == nil: // deleted by the branch
				var cols, ph []string
				var args []interface{}
				for ci, c := range def.Cols {
					cols = append(cols, c.Name)
					ph = append(ph, "?")
					args = append(args, pre[k][ci])
				}
				c09Exec(env, fmt.Sprintf("insert into %s (%s) values (%s)", t.Name, strings.Join(cols, ", "), strings.Join(ph, ", ")), args...)
			default:
				var sets []string
				var args []interface{}
				for _, ci := range t.valueCols() {
					sets = append(sets, def.Cols[ci].Name+" = ?")
					args = append(args, pre[k][ci])
				}
				w, wargs := where(pre[k])
				c09Exec(env, fmt.Sprintf("update %s set %s where %s", t.Name, strings.Join(sets, ", "), w), append(args, wargs...)...)
			}
		}
		return kind
	}
	return "none"
}

func c09Judge(r *vc.Run, env *atEnv, c *atCase, o *atOutcome, stmtKind string, setCols map[string]bool, order []string, pre, post, cur map[string][]interface{}, beforeRollback atSnap, rbSeq int64) {
	shape := featShape(map[string]string{"stmt": c.Feat["stmt"], "rows": c.Feat["rows"], "foreign": c.Feat["foreign_applied"], "foreign_value": c.Feat["foreign_value"], "cfg": c.Feat["cfg"], "pk": c.Feat["pk"]})
	t := c.Tables[0]
	def := t.Def
	st := o.p2Statuses()
	attempted := len(o.Branches) > 0 && len(st) > 0
	if attempted {
		r.Case(shape, map[string]interface{}{"case": c, "foreign": c.Feat["foreign_applied"], "rollback_statuses": st, "history": o.history(50)})
	} else {
		r.Case("", nil)
		return
	}
	viol := func(clause, detail string) {
		r.Violate(&vc.Violation{Clause: clause, Shape: shape, Features: c.Feat, Detail: detail, Case: c,
			History: map[string]interface{}{"rollback_statuses": st, "events": o.history(160), "undo_rows_left": o.UndoPost, "client_log_errors": env.logErrors(12)}})
	}
	validation := strings.Contains(c.Feat["cfg"], "validate=true")
	onlyCare := strings.Contains(c.Feat["cfg"], "onlycare=true")
	tracked := func(ci int) bool {
		if stmtKind != "UPDATE" || !onlyCare || setCols == nil {
			return true
		}
		n := strings.ToLower(def.Cols[ci].Name)
		if setCols[n] {
			return true
		}
		for _, p := range def.PK {
			if p == ci {
				return true
			}
		}
		return false
	}
	eqTracked := func(a, b []interface{}) bool {
		if a == nil || b == nil {
			return a == nil && b == nil
		}
		for ci := range def.Cols {
			if tracked(ci) && mm.RenderRow([]interface{}{a[ci]}) != mm.RenderRow([]interface{}{b[ci]}) {
				return false
			}
		}
		return true
	}
	dirty, atPre, atPost := 0, 0, 0
	var unchangedForeign []string // rows the branch left as they were and someone else changed since
	for _, k := range order {
		switch {
		case eqTracked(pre[k], post[k]) && !eqTracked(cur[k], post[k]):
			unchangedForeign = append(unchangedForeign, k)
		case eqTracked(cur[k], post[k]):
			atPost++
		case eqTracked(cur[k], pre[k]):
			atPre++
		default:
			dirty++
		}
	}
	allRollbacked := true
	for _, s := range st {
		if s != 8 {
			allRollbacked = false
		}
	}
	// durable changes the rollback made to the application table
	var wrote []string
	for _, j := range o.Journal {
		if j.Seq <= rbSeq || j.Class == "foreign" {
			continue
		}
		for _, ch := range j.Committed {
			if strings.EqualFold(ch.Table, t.Name) {
				wrote = append(wrote, truthRowKey(def, firstNonNil(ch.Before, ch.After)))
			}
		}
	}
	undoLeft := 0
	for _, u := range o.UndoPost {
		if strings.HasSuffix(u, "status=0") {
			undoLeft++
		}
	}
	r.Count(fmt.Sprintf("rows dirty=%v atPre=%v atPost=%v unchanged-by-branch+foreign=%v", dirty > 0, atPre > 0, atPost > 0, len(unchangedForeign) > 0), 1)
	if !validation {
		return // control group: overwriting is the configured behaviour
	}
	// A row the branch matched without changing it (before image == after image) has nothing to restore: whatever the
	// answer, a foreign write to it must survive.
	for _, k := range unchangedForeign {
		for _, w := range wrote {
			if w == k {
				viol("foreign-write-overwritten", fmt.Sprintf("row %q was left unchanged by the branch (before image == after image), was changed by someone else afterwards, and the rollback wrote it", strings.ReplaceAll(k, "\x00", ",")))
			}
		}
	}
	switch {
	case dirty > 0:
		if len(wrote) > 0 {
			viol("foreign-write-overwritten", fmt.Sprintf("%d of the branch's rows were changed by someone else (current differs from both images on the tracked columns) but the rollback made durable changes to rows %v", dirty, clipList(renderKeys(wrote), 4)))
		}
		if allRollbacked {
			viol("dirty-answered-rollbacked", fmt.Sprintf("%d of the branch's rows are dirty but the branch was answered Rollbacked", dirty))
		}
		if undoLeft == 0 {
			viol("dirty-undo-log-deleted", "rows are dirty but the undo log of the branch was deleted")
		}
	case atPost == 0 && atPre > 0:
		// everything already equals the before image: success without writing
		if len(wrote) > 0 {
			viol("write-although-already-restored", fmt.Sprintf("every row already equals its before image but the rollback made durable changes to %v", clipList(renderKeys(wrote), 4)))
		}
		if !allRollbacked {
			viol("already-restored-not-rollbacked", fmt.Sprintf("every row already equals its before image but the answer was %v", st))
		}
	case atPre == 0 && atPost > 0:
		// untouched since the branch: must be restored
		if !allRollbacked {
			viol("clean-rollback-refused", fmt.Sprintf("no foreign write touched the tracked columns but the answer was %v", st))
		} else {
			post2 := env.snap(c)
			for _, k := range order {
				var now []interface{}
				for _, row := range env.db.E.RowsTyped(t.Name) {
					if truthRowKey(def, row) == k {
						now = row
					}
				}
				if !eqTracked(now, pre[k]) {
					viol("not-restored", fmt.Sprintf("row %q was answered Rollbacked but its tracked columns do not equal the before image", strings.ReplaceAll(k, "\x00", ",")))
					break
				}
			}
			_ = post2
		}
	}
}

func firstNonNil(a, b []interface{}) []interface{} {
	if a != nil {
		return a
	}
	return b
}

func renderKeys(ks []string) []string {
	var out []string
	for _, k := range ks {
		out = append(out, strings.ReplaceAll(k, "\x00", ","))
	}
	return out
}
