package checks

import (
	"bytes"
	"compress/bzip2"
	"compress/flate"
	"compress/gzip"
	"compress/zlib"
	"encoding/json"
	"fmt"
	"io"
	"strings"
	"sync"

	"github.com/klauspost/compress/zstd"
	"github.com/pierrec/lz4/v4"
	"google.golang.org/protobuf/encoding/protowire"

	mm "verif/minimysql"
	"verif/vc"
)

// C08 — undo-log encoding is lossless under every serializer and compressor setting.
//
// Writer side: the (context, rollback_info) pair the real flush sent to the fake database is decoded by an independent
// reader that only looks at the context (own context parser, own decompressor table, own JSON / protobuf-wire reader)
// and every image value is compared with the ground-truth row versions the fake database recorded.
// Reader side: the real rollback path then has to read the same pair: with data validation on, the decoded after
// image is compared with the current rows by the executors' own equality and the before image is written back, so
// "Rollbacked + tables equal the pre-state" holds exactly when decoding restored the values up to that equality.

func init() {
	Registry["C08"] = Check{Level: "exploration", Fn: runC08}
}

type c08Cell struct {
	Ser, Comp, Thr string
	On             bool
}

func (c c08Cell) String() string {
	return fmt.Sprintf("ser=%s|comp=%s|enable=%v|threshold=%s", c.Ser, c.Comp, c.On, c.Thr)
}

func runC08(r *vc.Run, replay string) {
	r.Rule = "cells = serializer {json, protobuf} x compress type {None, Gzip, Zip, Bzip2, Lz4, Deflate, Zstd, unknown spellings 'gzip', 'Snappy', ''} x threshold {0, 2k, 64k} (+ compression disabled); per cell generated programs over all 17 column kinds (NULL, empty strings, base64/number/JSON look-alikes, full-range 64-bit integers, floats, timestamps, binary) plus large repetitive logs; writer oracle: independent decode of (context, rollback_info) chosen by the context alone == ground-truth row versions; reader oracle: real rollback with validation on answers Rollbacked and restores the pre-state, no panic; distinct_nontrivial = distinct (cell, column kinds, statement kinds) signatures whose undo log was written and read back"
	r.Assumptions = []string{"an undo log the flush refuses to write (error to the caller, nothing committed) is not a lossy encoding and gets no verdict", "protobuf wire layout transcribed from branch_undo_log.proto; values inside Any/BytesValue are JSON"}
	per := 8
	if r.Tier == "thorough" {
		per = 40
	}
	if v := devN(); v > 0 {
		per = v
	}
	var cells []c08Cell
	for _, ser := range []string{"json", "protobuf"} {
		for _, comp := range []string{"None", "Gzip", "Zip", "Bzip2", "Lz4", "Deflate", "Zstd", "gzip", "Snappy", ""} {
			for _, thr := range []string{"0", "2k", "64k"} {
				cells = append(cells, c08Cell{ser, comp, thr, true})
			}
		}
		cells = append(cells, c08Cell{ser, "Gzip", "0", false})
	}
	if f := osGetenv("VERIF_DEV_CELL"); f != "" {
		var keep []c08Cell
		for _, c := range cells {
			if strings.Contains(c.String(), f) {
				keep = append(keep, c)
			}
		}
		cells = keep
	}
	workers := 6
	var wg sync.WaitGroup
	for w := 0; w < workers; w++ {
		wg.Add(1)
		go func(w int) {
			defer wg.Done()
			var mine []c08Cell
			for i, c := range cells {
				if i%workers == w {
					mine = append(mine, c)
				}
			}
			if len(mine) > 0 {
				c08Worker(r, w, mine, per)
			}
		}(w)
	}
	wg.Wait()
}

func c08Worker(r *vc.Run, w int, cells []c08Cell, per int) {
	cfg0 := atUndoCfg{Serializer: cells[0].Ser, Compress: cells[0].Comp, CompressOn: cells[0].On, Threshold: cells[0].Thr, Validation: true, OnlyCare: true}
	env, err := newATEnv(r, fmt.Sprintf("c08-%d", w), cfg0, r.Tier == "thorough", "")
	if err != nil {
		r.Errorf("%v", err)
		return
	}
	defer env.Close()
	idx := 0
	for ci, cell := range cells {
		cfg := atUndoCfg{Serializer: cell.Ser, Compress: cell.Comp, CompressOn: cell.On, Threshold: cell.Thr, Validation: true, OnlyCare: ci%2 == 0}
		if err := env.ch.Call("set_undo", cfg, nil); err != nil {
			r.Errorf("set_undo: %v", err)
			return
		}
		rnd := vc.NewRand(r.Seed, "c08-"+cell.String())
		for i := 0; i < per; i++ {
			idx++
			var c *atCase
			if i <= 1 {
				c = c08TinyCase(rnd, idx, fmt.Sprintf("e%d_", w), i)
			} else if i >= per-2 {
				c = c08BigCase(rnd, idx, fmt.Sprintf("e%d_", w), i == per-1)
			} else {
				c = c01GenCase(rnd, idx, atAllKinds, fmt.Sprintf("e%d_", w))
			}
			c.Feat["cell"] = cell.String()
			c.Feat["ser"] = cell.Ser
			c.Feat["comp"] = cell.Comp
			c.Feat["threshold"] = cell.Thr
			env.install(c)
			o := env.runGtx(c, "error", nil)
			if o.CallErr != nil {
				if !env.ch.Alive() {
					c01Crash(r, env, c)
					return
				}
				r.Inconc(c.Name + ": " + o.CallErr.Error())
				r.Case("", nil)
				env.drop(c)
				continue
			}
			env.phaseTwo(c, o, false, 1)
			c08Judge(r, env, c, o, cell)
			env.sweep()
			env.drop(c)
			if !env.ch.Alive() {
				c01Crash(r, env, c)
				return
			}
		}
		env.db.E.Truncate("undo_log")
	}
}

// c08BigCase: rows with long repetitive text so that the log exceeds every threshold and compresses extremely well.
func c08BigCase(r *vc.Rand, idx int, prefix string, huge bool) *atCase {
	c := &atCase{Name: fmt.Sprintf("%s%04d", prefix, idx), Feat: map[string]string{"big": "true"}}
	t := atGenTable(r, fmt.Sprintf("%s%04dt", prefix, idx), "int", []string{"text", "int"}, 2, 4, false)
	unit := []string{"a", "lorem ipsum ", "0123456789", "{\"k\":1},"}[r.Intn(4)]
	size := []int{3000, 30000}[r.Intn(2)]
	if huge {
		// far above every threshold and compressible by more than 100:1
		unit, size = "a", 120000
	}
	for _, row := range t.Rows {
		for ci, k := range t.Kinds {
			if k == "text" {
				row[ci] = strings.Repeat(unit, size/len(unit))
			}
		}
	}
	c.Tables = []*atTable{t}
	o := atStmtOpts{params: true, rowsClass: "many"}
	st := atGenUpdate(r, t, o)
	if r.Bool() || huge {
		// the huge case always records whole rows (a DELETE), whatever columns an UPDATE would have tracked
		st = atGenDelete(r, t, o)
	}
	c.Groups = []atGroup{{Stmts: []atStmt{st}}}
	c.DDL = []string{describeTable(t)}
	c.fold()
	c.Feat["big"] = fmt.Sprint(size)
	c.Feat["pk"] = "int"
	return c
}

// c08TinyCase: the smallest logs there are (one row of a key-only or two-column table): compression does not pay off.
func c08TinyCase(r *vc.Rand, idx int, prefix string, nv int) *atCase {
	c := &atCase{Name: fmt.Sprintf("%s%04d", prefix, idx), Feat: map[string]string{"big": "tiny"}}
	t := atGenTable(r, fmt.Sprintf("%s%04dt", prefix, idx), "int", []string{"int"}, nv, 3, false)
	c.Tables = []*atTable{t}
	where, wargs := pkWhere(t, t.Rows[0], true)
	st := atStmt{Kind: "delete", Table: t.Name, SQL: fmt.Sprintf("delete from %s where %s", t.Name, where), Args: wargs,
		Feat: map[string]string{"stmt": "delete", "params": "true", "rows": "1", "where": "pk"}}
	c.Groups = []atGroup{{Stmts: []atStmt{st}}}
	c.DDL = []string{describeTable(t)}
	c.fold()
	c.Feat["big"] = "tiny"
	c.Feat["pk"] = "int"
	return c
}

// ---- independent reader ----

func c08ParseContext(b []byte) map[string]string {
	out := map[string]string{}
	for _, kv := range strings.Split(string(b), "&") {
		if i := strings.Index(kv, "="); i > 0 {
			out[kv[:i]] = kv[i+1:]
		}
	}
	return out
}

func c08Decompress(kind string, b []byte) ([]byte, error) {
	switch kind {
	case "Gzip":
		zr, err := gzip.NewReader(bytes.NewReader(b))
		if err != nil {
			return nil, err
		}
		return io.ReadAll(zr)
	case "Zip":
		zr, err := zlib.NewReader(bytes.NewReader(b))
		if err != nil {
			return nil, err
		}
		return io.ReadAll(zr)
	case "Bzip2":
		return io.ReadAll(bzip2.NewReader(bytes.NewReader(b)))
	case "Deflate":
		return io.ReadAll(flate.NewReader(bytes.NewReader(b)))
	case "Zstd":
		d, err := zstd.NewReader(nil)
		if err != nil {
			return nil, err
		}
		defer d.Close()
		return d.DecodeAll(b, nil)
	case "Lz4":
		for size := 64 * 1024; size <= 1<<30; size *= 4 {
			out := make([]byte, size)
			n, err := lz4.UncompressBlock(b, out)
			if err == nil {
				return out[:n], nil
			}
			if size >= 1<<28 {
				return nil, err
			}
		}
	}
	return b, nil // None and every unknown spelling: stored as is
}

func c08PBFields(b []byte, f func(num protowire.Number, typ protowire.Type, v uint64, raw []byte) error) error {
	for len(b) > 0 {
		num, typ, n := protowire.ConsumeTag(b)
		if n < 0 {
			return protowire.ParseError(n)
		}
		b = b[n:]
		switch typ {
		case protowire.VarintType:
			v, n := protowire.ConsumeVarint(b)
			if n < 0 {
				return protowire.ParseError(n)
			}
			b = b[n:]
			if err := f(num, typ, v, nil); err != nil {
				return err
			}
		case protowire.BytesType:
			v, n := protowire.ConsumeBytes(b)
			if n < 0 {
				return protowire.ParseError(n)
			}
			b = b[n:]
			if err := f(num, typ, 0, v); err != nil {
				return err
			}
		default:
			n := protowire.ConsumeFieldValue(num, typ, b)
			if n < 0 {
				return protowire.ParseError(n)
			}
			b = b[n:]
		}
	}
	return nil
}

func c08PBRecord(b []byte) (*imgRecord, error) {
	rec := &imgRecord{}
	err := c08PBFields(b, func(num protowire.Number, typ protowire.Type, v uint64, raw []byte) error {
		switch num {
		case 2:
			rec.TableName = string(raw)
		case 4:
			var row imgRow
			if err := c08PBFields(raw, func(num protowire.Number, typ protowire.Type, v uint64, raw []byte) error {
				if num != 1 {
					return nil
				}
				f := imgField{KeyType: "NULL", Value: json.RawMessage("null")}
				if err := c08PBFields(raw, func(num protowire.Number, typ protowire.Type, v uint64, raw []byte) error {
					switch num {
					case 1:
						if v == 1 {
							f.KeyType = "PRIMARY_KEY"
						}
					case 2:
						f.Name = string(raw)
					case 3:
						f.Type = int(int32(v))
					case 4: // google.protobuf.Any{type_url=1, value=2}; value = BytesValue{value=1}
						return c08PBFields(raw, func(num protowire.Number, typ protowire.Type, v uint64, raw []byte) error {
							if num != 2 {
								return nil
							}
							return c08PBFields(raw, func(num protowire.Number, typ protowire.Type, v uint64, raw []byte) error {
								if num == 1 {
									f.Value = append(json.RawMessage{}, raw...)
								}
								return nil
							})
						})
					}
					return nil
				}); err != nil {
					return err
				}
				row.Fields = append(row.Fields, f)
				return nil
			}); err != nil {
				return err
			}
			rec.Rows = append(rec.Rows, row)
		}
		return nil
	})
	return rec, err
}

func c08ParseUndoPB(b []byte) (*imgBranchUndo, error) {
	u := &imgBranchUndo{}
	err := c08PBFields(b, func(num protowire.Number, typ protowire.Type, v uint64, raw []byte) error {
		switch num {
		case 1:
			u.Xid = string(raw)
		case 2:
			u.BranchID = int64(v)
		case 3:
			var l imgUndo
			if err := c08PBFields(raw, func(num protowire.Number, typ protowire.Type, v uint64, raw []byte) error {
				var err error
				switch num {
				case 1:
					l.SQLType = map[uint64]string{1: "INSERT", 2: "UPDATE", 3: "DELETE"}[v]
				case 2:
					l.TableName = string(raw)
				case 3:
					l.BeforeImage, err = c08PBRecord(raw)
				case 4:
					l.AfterImage, err = c08PBRecord(raw)
				}
				return err
			}); err != nil {
				return err
			}
			u.Logs = append(u.Logs, l)
		}
		return nil
	})
	return u, err
}

// ---- judge ----

func c08Judge(r *vc.Run, env *atEnv, c *atCase, o *atOutcome, cell c08Cell) {
	shape := "cell=" + cell.String() + "|kinds=" + c.Feat["col_kinds"] + "|stmts=" + c.Feat["stmts"] + "|big=" + c.Feat["big"]
	st := o.p2Statuses()
	viol := func(clause, detail string) {
		r.Violate(&vc.Violation{Clause: clause, Shape: shape, Features: c.Feat, Detail: detail, Case: c,
			History: map[string]interface{}{"steps": o.Res.Steps, "returned": o.Res.Returned, "rollback_statuses": st, "events": o.history(160), "undo_rows_left": o.UndoPost, "client_log_errors": env.logErrors(20)}})
	}
	if o.Res.Returned == "panic" {
		viol("panic", "a panic escaped the global transaction: "+clipStr(o.Res.PanicVal, 300))
	}
	txs := atLocalTxs(o.Journal, o.TCEvents, o.Xid, map[string]bool{"proxied": true, "app": true})
	written := 0
	flushRefused := false
	for _, s := range o.Res.Steps {
		if s.Err != "" && (strings.Contains(s.Err, "compress") || strings.Contains(s.Err, "serializ")) {
			flushRefused = true
		}
	}
	for _, tx := range txs {
		if tx.Class != "proxied" || tx.Ended != "COMMIT" || len(tx.UndoIns) == 0 {
			continue
		}
		ins := tx.UndoIns[len(tx.UndoIns)-1]
		if len(ins.Args) < 5 || ins.Err != nil {
			continue
		}
		written++
		var ctxRaw []byte
		switch x := ins.Args[2].(type) {
		case []byte:
			ctxRaw = x
		case string:
			ctxRaw = []byte(x)
		}
		ctx := c08ParseContext(ctxRaw)
		info := rollbackInfoOf(ins)
		r.Count(fmt.Sprintf("written: serializer=%s compressor=%s (configured %s, enable=%v, threshold=%s)", ctx["serializerKey"], ctx["compressorTypeKey"], cell.Comp, cell.On, cell.Thr), 1)
		if ctx["serializerKey"] == "" {
			viol("context-insufficient", fmt.Sprintf("the context %q stored beside the log does not name the serializer", clipStr(string(ctxRaw), 120)))
			continue
		}
		plain, err := c08Decompress(ctx["compressorTypeKey"], info)
		if err != nil {
			viol("context-insufficient", fmt.Sprintf("rollback_info (%d bytes) cannot be decompressed as the context says (%q): %v", len(info), ctx["compressorTypeKey"], err))
			continue
		}
		var u *imgBranchUndo
		switch ctx["serializerKey"] {
		case "json":
			u, err = parseUndoJSON(plain)
		case "protobuf":
			u, err = c08ParseUndoPB(plain)
		default:
			err = fmt.Errorf("unknown serializer %q", ctx["serializerKey"])
		}
		if err != nil {
			viol("context-insufficient", fmt.Sprintf("rollback_info is not readable with the serializer the context names (%s): %v", ctx["serializerKey"], err))
			continue
		}
		// value fidelity of what was written (single-statement local transactions only: row versions are unambiguous)
		if len(tx.Stmts) != 1 || tx.Stmts[0].Err != nil {
			continue
		}
		stmt := tx.Stmts[0]
		var def *mm.Table
		for _, t := range c.Tables {
			if strings.EqualFold(t.Name, stmt.Table) {
				def = t.Def
			}
		}
		if def == nil {
			continue
		}
		pre := map[string][]interface{}{}
		post := map[string][]interface{}{}
		for _, mr := range stmt.MatchedRows {
			pre[truthRowKey(def, mr)] = mr
			post[truthRowKey(def, mr)] = mr
		}
		for _, ch := range stmt.Changes {
			if ch.Before != nil {
				pre[truthRowKey(def, ch.Before)] = ch.Before
				if ch.After == nil {
					delete(post, truthRowKey(def, ch.Before))
				}
			}
			if ch.After != nil {
				post[truthRowKey(def, ch.After)] = ch.After
			}
		}
		check := func(which string, img *imgRecord, truth map[string][]interface{}) {
			if img == nil {
				return
			}
			for _, row := range img.Rows {
				key, ok := imgRowKey(def, row)
				if !ok {
					viol("written-image-wrong", which+" image row lacks its primary-key fields")
					return
				}
				tr, ok := truth[key]
				if !ok {
					continue // which rows belong into an image is C18's business
				}
				for _, f := range row.Fields {
					ci := def.ColIndex(f.Name)
					if ci < 0 {
						continue
					}
					isPK := false
					for _, p := range def.PK {
						if p == ci {
							isPK = true
						}
					}
					if isPK != (f.KeyType == "PRIMARY_KEY" || f.KeyType == "PrimaryKey") {
						viol("written-key-flag-wrong", fmt.Sprintf("%s image column %s: key flag %q but primary key = %v", which, f.Name, f.KeyType, isPK))
						return
					}
					if eq, why := imgValueEquals(f.Value, f.Type, tr[ci]); !eq {
						viol("written-value-wrong", fmt.Sprintf("%s image (%s) row %q column %s: %s", which, ctx["serializerKey"], strings.ReplaceAll(key, "\x00", ","), f.Name, why))
						return
					}
					r.Count("image_values_compared", 1)
				}
			}
		}
		for _, l := range u.Logs {
			check("before", l.BeforeImage, pre)
			check("after", l.AfterImage, post)
		}
	}
	if written == 0 {
		if flushRefused {
			r.Count("flush refused (error to the caller, nothing committed): "+cell.Comp, 1)
		}
		r.Case("", nil)
		return
	}
	r.Case(shape, map[string]interface{}{"case": c, "cell": cell.String(), "rollback_statuses": st, "history": o.history(40)})
	// reader side
	allRollbacked := len(st) > 0
	for _, s := range st {
		if s != 8 {
			allRollbacked = false
		}
	}
	diff := snapDiff(o.Pre, o.Post)
	if !allRollbacked {
		viol("written-log-not-readable", fmt.Sprintf("rollback of a branch whose undo log was written under %s answered %v (8 = Rollbacked, -1 = no answer): %s", cell.String(), st, strings.Join(clipList(env.logErrors(3), 3), " | ")))
	} else if len(diff) > 0 {
		viol("read-values-differ", fmt.Sprintf("rollback answered Rollbacked but %d rows differ from the pre-state: %s", len(diff), strings.Join(clipList(diff, 4), "; ")))
	}
}
