package checks

import (
	"encoding/json"
	"fmt"
	"sort"
	"strings"
	"sync"
	"time"

	"verif/faketc"
	"verif/vc"
	"verif/wire"
	"verif/world"
)

// C19 — only live sessions are chosen; reconnection restores both directions.
//
// Part one drives the real loadbalance.Select in a client child over a registry of monitor-owned sessions with
// generated histories of opening, closing and selecting. Part two cuts the connection between a fully initialised
// client (AT data source + TCC actions) and the fake coordinator at generated points and watches, on the coordinator's
// side, what the client announces on the re-established session and whether both directions work again.

func init() {
	Registry["C19"] = Check{Level: "exploration", Fn: runC19}
}

type c19Action struct {
	Op     string `json:"op"`
	ID     string `json:"id,omitempty"`
	Addr   string `json:"addr,omitempty"`
	Policy string `json:"policy,omitempty"`
	Xid    string `json:"xid,omitempty"`
}

type c19Result struct {
	Chosen string `json:"chosen"`
	Closed bool   `json:"closed"`
	Addr   string `json:"addr"`
	Panic  string `json:"panic,omitempty"`
	Known  bool   `json:"known"`
}

var c19Policies = []string{"RandomLoadBalance", "XID", "RoundRobinLoadBalance", "ConsistentHashLoadBalance", "LeastActiveLoadBalance"}

func runC19(r *vc.Run, replay string) {
	r.Rule = "selection: for each of the five policies (fresh client process per policy and history) histories of 60..200 actions {open a session to one of 4 addresses, close one, close-and-release one, select with an xid that names an open / closed / unknown address or is malformed} over a long-lived registry; after every select: the chosen session is registered and open at that moment, nil only when no session is open, and under XID an xid ip:port:id gets a session connected to ip:port whenever one is open; routing: a client with the XID policy and two coordinators (each puts its address into its xids): every request carrying an xid arrives at the coordinator that began the transaction; reconnection: the connection to the coordinator is cut (graceful close / reset) while idle, with a request in flight, between phase one and phase two of an AT branch, once and three times in a row: within 20 s a new session appears on which the coordinator receives RegisterTM and RegisterRM naming every resource registered before (AT data source, TCC actions), a new global transaction can begin, and the phase-two request for the earlier branch is answered; distinct_nontrivial = distinct (policy, state class, xid class) and (cut point, kind, repetition) signatures"
	r.Assumptions = []string{"sessions of part one are monitor-owned objects implementing IsClosed / RemoteAddr / Close; any other method a policy calls shows up as a panic", "20 s bound for re-establishment (getty's reconnect loop period is a few seconds)"}
	var wg sync.WaitGroup
	only := osGetenv("VERIF_DEV_STREAM")
	if only == "" || only == "select" {
		wg.Add(1)
		go func() { defer wg.Done(); c19Select(r) }()
	}
	if only == "" || only == "reconnect" {
		wg.Add(1)
		go func() { defer wg.Done(); c19Reconnect(r) }()
	}
	if only == "" || only == "routing" {
		wg.Add(1)
		go func() { defer wg.Done(); c19Routing(r) }()
	}
	wg.Wait()
}

// ---------------- routing in a running client (XID policy, two coordinators) ----------------

// c19Routing: a real client configured with the XID policy and two coordinator addresses. Every coordinator puts its
// own address into the xids it hands out, so each request that carries an xid (GlobalCommit / GlobalRollback,
// BranchRegister, BranchReport) must arrive at the coordinator that began that transaction - its session is open all
// the time. This is the selection of part one as the remoting client really calls it.
func c19Routing(r *vc.Run) {
	w, err := world.New(r)
	if err != nil {
		r.Errorf("%v", err)
		return
	}
	defer w.Close()
	tc2, err := faketc.New(w.Clock)
	if err != nil {
		r.Errorf("%v", err)
		return
	}
	defer tc2.Close()
	db := w.NewDB("at")
	db.CreateUndoLog()
	rt := atGenTable(vc.NewRand(r.Seed, "c19-route"), "c19rt", "int", []string{"int"}, 1, 4, false)
	rd := *rt.Def
	db.E.CreateTable(&rd)
	db.E.Load(rt.Name, rt.Rows)
	ch, err := w.StartClient("c19-route", r.Tier == "thorough", world.InitArg{LoadBalance: "XID", Replace: map[string]string{w.TC.Addr: w.TC.Addr + ";" + tc2.Addr},
		DBs: []world.DBSpec{{Name: "at", Driver: "seata-at-mysql", DSN: db.DSN("app", ""), MaxOpen: 4, Class: "proxied"}}}, nil)
	if err != nil {
		r.Errorf("%v", err)
		return
	}
	defer ch.Kill()
	if tc2.WaitSession("", 20*time.Second) == nil || w.TC.WaitSession("", 20*time.Second) == nil {
		r.Inconc("routing: the client did not connect to both coordinators")
		return
	}
	if err := ch.Call("tcc_register", []string{"c19RouteAct"}, nil); err != nil {
		r.Errorf("tcc_register: %v", err)
		return
	}
	time.Sleep(300 * time.Millisecond) // both coordinators have the resource
	n := 40
	if r.Tier == "thorough" {
		n = 300
	}
	tcs := map[string]*faketc.TC{w.TC.Addr: w.TC, tc2.Addr: tc2}
	for i := 0; i < n; i++ {
		name := fmt.Sprintf("c19r-%04d", i)
		outcome := []string{"nil", "error"}[i%2]
		var steps []gtxStep
		switch i % 4 {
		case 1:
			steps = []gtxStep{{Op: "tcc", Action: "c19RouteAct", Params: json.RawMessage(`{"kind":"int","a":1}`)}}
		case 2:
			// an AT branch: BranchRegister and BranchReport carry the xid
			steps = []gtxStep{{Op: "exec", DB: "at", SQL: fmt.Sprintf("update %s set c0 = %d where id = %d", rt.Name, i, 1+i%4)}}
		case 3:
			// a locking read: the GlobalLockQuery carries the xid
			steps = []gtxStep{{Op: "begin", DB: "at"}, {Op: "query", DB: "at", SQL: fmt.Sprintf("select * from %s where id = %d for update", rt.Name, 1+i%4)}, {Op: "commit"}}
		}
		start := w.Clock.Now()
		var res scopeResult
		if err := ch.Call("gtx", &gtxScope{Case: name, Name: name, TimeoutMs: 60000, Outcome: outcome, Label: "route", Steps: steps}, &res); err != nil {
			r.Inconc(name + ": " + err.Error())
			r.Case("", nil)
			continue
		}
		xid := res.XidIn
		home := ""
		for addr := range tcs {
			if strings.HasPrefix(xid, addr+":") {
				home = addr
			}
		}
		var hist []string
		misrouted := 0
		routed := 0
		for addr, tc := range tcs {
			for _, e := range tc.EventsSince(start) {
				if e.Dir != "in" || e.Msg == nil || e.FType == wire.FrameResponse || e.Msg.S("xid") != xid || xid == "" {
					continue
				}
				hist = append(hist, fmt.Sprintf("[%d] coordinator %s received %s %s", e.Seq, addr, e.Type, clipStr(e.Text, 120)))
				routed++
				if home != "" && addr != home {
					misrouted++
				}
			}
		}
		sort.Strings(hist)
		kinds := map[string]bool{}
		for _, h := range hist {
			f := strings.Fields(h)
			if len(f) > 4 {
				kinds[f[4]] = true
			}
		}
		shape := fmt.Sprintf("routing|XID|requests=%s|outcome=%s", strings.Join(sortedKeys(kinds), "+"), outcome)
		if xid == "" || home == "" || routed == 0 {
			r.Case("", nil)
			continue
		}
		r.Case(shape, map[string]interface{}{"xid": xid, "requests": hist})
		r.Count("requests_with_xid_routed", int64(routed))
		// phase two of the finished transaction, so that locks and branches do not pile up
		for addr, tc := range tcs {
			if addr == home {
				tc.DrivePhaseTwo(xid, outcome == "nil" && res.Returned == "nil", 1, 0)
				tc.ReleaseLocks(xid)
			}
		}
		if misrouted > 0 {
			r.Violate(&vc.Violation{Clause: "xid-policy-ignored", Shape: shape, Features: map[string]string{"policy": "XID", "part": "routing"},
				Detail:  fmt.Sprintf("%d of %d requests carrying xid %s went to the other coordinator although the session to %s was open", misrouted, routed, xid, home),
				History: map[string]interface{}{"requests": hist, "returned": res.Returned + " " + res.Err}})
		}
	}
}

// ---------------- selection ----------------

func c19Select(r *vc.Run) {
	histories := 4
	if r.Tier == "thorough" {
		histories = 12
	}
	if v := devN(); v > 0 {
		histories = v
	}
	var wg sync.WaitGroup
	sem := make(chan struct{}, 5)
	for pi, pol := range c19Policies {
		for h := 0; h < histories; h++ {
			wg.Add(1)
			go func(pi, h int, pol string) {
				defer wg.Done()
				sem <- struct{}{}
				defer func() { <-sem }()
				c19SelectHistory(r, pi, h, pol)
			}(pi, h, pol)
		}
	}
	wg.Wait()
}

func c19SelectHistory(r *vc.Run, pi, h int, pol string) {
	w, err := world.New(r)
	if err != nil {
		r.Errorf("%v", err)
		return
	}
	defer w.Close()
	ch, err := w.StartClient(fmt.Sprintf("c19-lb-%d-%d", pi, h), r.Tier == "thorough", world.InitArg{}, nil)
	if err != nil {
		r.Errorf("%v", err)
		return
	}
	defer ch.Kill()
	rnd := vc.NewRand(r.Seed, fmt.Sprintf("c19-%s-%d", pol, h))
	addrs := []string{"10.0.0.1:8091", "10.0.0.2:8091", "10.0.0.3:8092", "10.0.0.3:8091"}
	type sess struct {
		id, addr         string
		open, registered bool
	}
	var all []*sess
	n := 60 + rnd.Intn(141)
	var acts []c19Action
	// the model is evaluated while generating; results are compared afterwards (one call, the registry persists)
	type expect struct {
		idx        int
		openIDs    map[string]bool
		regIDs     map[string]bool
		xid        string
		wantAddr   string // under XID: an open session to this address exists
		stateClass string
		xidClass   string
	}
	var exps []expect
	nid := 0
	for i := 0; i < n; i++ {
		switch k := rnd.Intn(10); {
		case k < 3 || len(all) == 0:
			nid++
			s := &sess{id: fmt.Sprintf("s%d", nid), addr: addrs[rnd.Intn(len(addrs))], open: true, registered: true}
			all = append(all, s)
			acts = append(acts, c19Action{Op: "open", ID: s.id, Addr: s.addr})
		case k == 3:
			s := all[rnd.Intn(len(all))]
			s.open = false
			acts = append(acts, c19Action{Op: "close", ID: s.id})
		case k == 4:
			s := all[rnd.Intn(len(all))]
			s.open, s.registered = false, false
			acts = append(acts, c19Action{Op: "remove", ID: s.id})
		default:
			e := expect{idx: len(acts), openIDs: map[string]bool{}, regIDs: map[string]bool{}}
			openAddrs := map[string]bool{}
			nOpen, nClosedReg := 0, 0
			for _, s := range all {
				if s.registered {
					e.regIDs[s.id] = true
				}
				if s.open && s.registered {
					e.openIDs[s.id] = true
					openAddrs[s.addr] = true
					nOpen++
				} else if s.registered {
					nClosedReg++
				}
			}
			switch rnd.Intn(5) {
			case 0:
				e.xid, e.xidClass = "", "empty"
			case 1:
				e.xid, e.xidClass = "not-an-xid", "malformed"
			case 2:
				e.xid, e.xidClass = "10.9.9.9:1:77", "unknown-address"
			default:
				a := addrs[rnd.Intn(len(addrs))]
				e.xid = fmt.Sprintf("%s:%d", a, 1000+rnd.Intn(9000))
				e.xidClass = "closed-address"
				if openAddrs[a] {
					e.wantAddr = a
					e.xidClass = "open-address"
				}
			}
			e.stateClass = fmt.Sprintf("open=%s|closed-registered=%v", map[bool]string{true: "0", false: ">0"}[nOpen == 0], nClosedReg > 0)
			exps = append(exps, e)
			acts = append(acts, c19Action{Op: "select", Policy: pol, Xid: e.xid})
		}
	}
	var res []c19Result
	if err := ch.Call("lb_run", acts, &res); err != nil || len(res) != len(acts) {
		if !ch.Alive() {
			txt, _, _ := ch.PanicInfo()
			r.Violate(&vc.Violation{Clause: "client-crash", Shape: "select|" + pol, Features: map[string]string{"policy": pol}, Detail: "the client process died during selection: " + clipStr(txt, 500)})
			return
		}
		r.Inconc(fmt.Sprintf("lb_run %s: %v", pol, err))
		return
	}
	for _, e := range exps {
		got := res[e.idx]
		shape := fmt.Sprintf("select|%s|%s|xid=%s", pol, e.stateClass, e.xidClass)
		feat := map[string]string{"part": "selection", "policy": pol, "state": e.stateClass, "xid_class": e.xidClass}
		r.Case(shape, map[string]interface{}{"policy": pol, "xid": e.xid, "open_sessions": len(e.openIDs), "chosen": got})
		viol := func(clause, detail string) {
			lo := e.idx - 12
			if lo < 0 {
				lo = 0
			}
			r.Violate(&vc.Violation{Clause: clause, Shape: shape, Features: feat, Detail: detail, Case: map[string]interface{}{"policy": pol, "action_index": e.idx, "xid": e.xid},
				History: map[string]interface{}{"last_actions": acts[lo : e.idx+1], "results": res[lo : e.idx+1], "open": sortedKeys(e.openIDs)}})
		}
		switch {
		case got.Panic != "":
			viol("select-panicked", fmt.Sprintf("Select(%s, xid %q) panicked: %s", pol, e.xid, clipStr(got.Panic, 200)))
		case got.Chosen == "":
			if len(e.openIDs) > 0 {
				viol("nil-although-open", fmt.Sprintf("Select(%s, xid %q) returned nil although %d sessions are open", pol, e.xid, len(e.openIDs)))
			}
		case !got.Known:
			viol("unknown-session", fmt.Sprintf("Select(%s) returned an object of type %s", pol, got.Chosen))
		case got.Closed || !e.openIDs[got.Chosen]:
			why := "closed"
			if !e.regIDs[got.Chosen] {
				why = "closed and released"
			}
			viol("closed-session-chosen", fmt.Sprintf("Select(%s, xid %q) returned session %s which is %s (%d sessions are open)", pol, e.xid, got.Chosen, why, len(e.openIDs)))
		case pol == "XID" && e.wantAddr != "" && got.Addr != e.wantAddr:
			viol("xid-address-ignored", fmt.Sprintf("XID policy: xid %q names %s, an open session to it exists, but the session to %s was chosen", e.xid, e.wantAddr, got.Addr))
		}
	}
}

// ---------------- reconnection ----------------

func c19Reconnect(r *vc.Run) {
	points := []string{"idle", "in-flight", "between-phases"}
	kinds := []string{"close", "reset"}
	reps := []int{1, 3}
	rounds := 1
	if r.Tier == "thorough" {
		rounds = 6
	}
	rnd := vc.NewRand(r.Seed, "c19-reconnect")
	actions := []string{"rcActA", "rcActB"}
	idx := 0
	var wg sync.WaitGroup
	sem := make(chan struct{}, 6)
	var mu sync.Mutex
	for round := 0; round < rounds; round++ {
		for _, pt := range points {
			for _, kd := range kinds {
				for _, rep := range reps {
					idx++
					wg.Add(1)
					mu.Lock()
					crnd := vc.NewRand(r.Seed, fmt.Sprintf("c19-reconnect-%d-%d", idx, rnd.Intn(1<<30)))
					mu.Unlock()
					go func(idx int, pt, kd string, rep int) {
						defer wg.Done()
						sem <- struct{}{}
						defer func() { <-sem }()
						// every cut works on a client of its own: a cut that is never healed must not spoil the next case
						e, err := newATEnv(r, fmt.Sprintf("c19-rc-%d", idx), atUndoCfg{Serializer: "json", Compress: "None", Validation: true, OnlyCare: true}, r.Tier == "thorough", "")
						if err != nil {
							r.Errorf("%v", err)
							return
						}
						defer e.Close()
						if err := e.ch.Call("tcc_register", actions, nil); err != nil {
							r.Errorf("tcc_register: %v", err)
							return
						}
						want := append([]string{e.db.ResourceID("app")}, actions...)
						c19Cut(r, e, crnd, idx, pt, kd, rep, want)
					}(idx, pt, kd, rep)
				}
			}
		}
	}
	wg.Wait()
}

func c19Cut(r *vc.Run, e *atEnv, rnd *vc.Rand, idx int, point, kind string, rep int, want []string) bool {
	shape := fmt.Sprintf("reconnect|%s|%s|x%d", point, kind, rep)
	feat := map[string]string{"part": "reconnection", "cut_point": point, "cut_kind": kind, "repetitions": fmt.Sprint(rep)}
	start := e.w.Clock.Now()
	c := c01GenCase(rnd, idx, atSafeKinds, "k_")
	c.Groups = c.Groups[:1]
	c.Groups[0] = atGroup{Stmts: []atStmt{atGenInsert(rnd, c.Tables[0], atStmtOpts{params: true, rowsClass: "1"}, 1, new(int))}}
	c.fold()
	e.install(c)
	defer e.drop(c)
	var o *atOutcome
	if point == "between-phases" {
		o = e.runGtx(c, "error", nil)
		if o.CallErr != nil || len(e.w.TC.BranchesOf(o.Xid)) == 0 {
			r.Inconc(shape + ": phase one did not register a branch")
			return e.ch.Alive()
		}
	}
	cut := func() {
		for _, s := range e.w.TC.Sessions() {
			if !s.Closed() {
				s.Kill(kind == "reset")
			}
		}
	}
	var inflight chan error
	if point == "in-flight" {
		// hold the reply to a GlobalBegin, cut while the caller waits
		held := make(chan struct{}, 4)
		e.w.TC.AddRule(&faketc.Rule{Name: "c19-hold", Match: func(q *faketc.Req) bool {
			return q.Msg.Type == wire.TGlobalBegin && strings.HasPrefix(q.TxName, "c19-inflight")
		}, Do: func(q *faketc.Req) bool {
			held <- struct{}{}
			return true // never answered on this session
		}})
		inflight = make(chan error, 1)
		go func() {
			var res scopeResult
			inflight <- e.ch.Call("gtx", &gtxScope{Case: "c19", Name: fmt.Sprintf("c19-inflight-%d", idx), TimeoutMs: 60000, Outcome: "nil", Label: "gtx"}, &res)
		}()
		select {
		case <-held:
		case <-time.After(10 * time.Second):
		}
		e.w.TC.ClearRules()
	}
	var cutSeqs []int64
	for k := 0; k < rep; k++ {
		cutSeqs = append(cutSeqs, e.w.Clock.Now())
		cut()
		if k < rep-1 {
			// wait for the next session before cutting again
			deadline := time.Now().Add(20 * time.Second)
			for time.Now().Before(deadline) && e.w.TC.WaitSession("", 50*time.Millisecond) == nil {
			}
		}
	}
	lastCut := cutSeqs[len(cutSeqs)-1]
	// observe the re-established session
	deadline := time.Now().Add(20 * time.Second)
	gotTM := false
	gotRM := map[string]bool{}
	var newSess *faketc.Session
	for time.Now().Before(deadline) {
		gotTM = false
		gotRM = map[string]bool{}
		for _, ev := range e.w.TC.EventsSince(lastCut) {
			if ev.Dir != "in" || ev.Msg == nil {
				continue
			}
			switch ev.Msg.Type {
			case wire.TRegTM:
				gotTM = true
			case wire.TRegRM:
				for _, rid := range strings.Split(ev.Msg.S("resourceIds"), ",") {
					gotRM[strings.TrimSpace(rid)] = true
				}
			}
		}
		newSess = e.w.TC.WaitSession("", 10*time.Millisecond)
		complete := gotTM && newSess != nil
		for _, w := range want {
			if !gotRM[w] {
				complete = false
			}
		}
		if complete {
			break
		}
		time.Sleep(50 * time.Millisecond)
	}
	var missing []string
	for _, w := range want {
		if !gotRM[w] {
			missing = append(missing, w)
		}
	}
	sort.Strings(missing)
	var hist []string
	for _, ev := range e.w.TC.EventsSince(start) {
		if ev.Type == "ping" || strings.Contains(strings.ToLower(ev.Type), "heartbeat") {
			continue
		}
		hist = append(hist, fmt.Sprintf("[%d] s%d %s %s id=%d %s %s", ev.Seq, ev.Sess, ev.Dir, ev.Type, ev.ID, clipStr(ev.Text, 160), ev.Note))
	}
	if len(hist) > 80 {
		hist = hist[len(hist)-80:]
	}
	r.Case(shape, map[string]interface{}{"cut_point": point, "kind": kind, "repetitions": rep, "register_tm": gotTM, "register_rm": sortedKeys(gotRM), "new_session": newSess != nil})
	viol := func(clause, detail string) {
		r.Violate(&vc.Violation{Clause: clause, Shape: shape, Features: feat, Detail: detail, Case: map[string]interface{}{"cut_point": point, "kind": kind, "repetitions": rep, "cut_at": cutSeqs},
			History: map[string]interface{}{"coordinator": hist, "client_log_errors": e.logErrors(10)}})
	}
	if !e.ch.Alive() {
		txt, _, _ := e.ch.PanicInfo()
		viol("client-crash", "the client process died after the connection was cut: "+clipStr(txt, 500))
		return false
	}
	if newSess == nil {
		// The property speaks about what happens once the connection is re-established. dubbo-getty deliberately stops
		// reconnecting after the peer closed the connection in an orderly way (EOF), and seata-go has no reconnect timer
		// of its own: such a cut is never healed, the case cannot be judged.
		r.Count(fmt.Sprintf("connection never re-established after cut kind=%s point=%s", kind, point), 1)
		r.Inconc(fmt.Sprintf("%s: no new session within 20 s after the cut (precondition of the property not met)", shape))
		return true
	}
	if !gotTM {
		viol("tm-not-announced", "after the reconnect the coordinator received no RegisterTM")
	}
	if len(missing) > 0 {
		viol("rm-not-announced", fmt.Sprintf("after the reconnect the coordinator received RegisterRM for %v; never for %v", sortedKeys(gotRM), missing))
	}
	if inflight != nil {
		select {
		case <-inflight:
		case <-time.After(45 * time.Second):
			viol("in-flight-call-stuck", "the call that was in flight when the connection was cut did not return within 45 s")
		}
	}
	// TM direction: a new global transaction can begin
	c2 := c01GenCase(rnd, idx+5000, atSafeKinds, "k_")
	c2.Groups = c2.Groups[:1]
	c2.Groups[0] = atGroup{Stmts: []atStmt{atGenInsert(rnd, c2.Tables[0], atStmtOpts{params: true, rowsClass: "1"}, 1, new(int))}}
	c2.fold()
	e.install(c2)
	o2 := e.runGtx(c2, "nil", nil)
	if o2.CallErr != nil || o2.Res.Returned != "nil" || o2.Xid == "" {
		viol("begin-fails-after-reconnect", fmt.Sprintf("a new global transaction after the reconnect ended %q (%s)", o2.Res.Returned, clipStr(o2.Res.Err, 200)))
	} else {
		e.phaseTwo(c2, o2, true, 1)
	}
	e.drop(c2)
	// RM direction: phase two for the earlier branch
	if o != nil {
		bs := e.w.TC.BranchesOf(o.Xid)
		e.phaseTwo(c, o, false, 1)
		st := o.p2Statuses()
		ok := len(st) == len(bs) && len(st) > 0
		for _, s := range st {
			if s != 8 {
				ok = false
			}
		}
		if !ok {
			viol("phase-two-unreachable-after-reconnect", fmt.Sprintf("BranchRollback for the branch registered before the cut was answered %v (8 = Rollbacked, -1 = no answer / no session knows the resource)", st))
		} else if d := snapDiff(o.Pre, o.Post); len(d) > 0 {
			viol("phase-two-unreachable-after-reconnect", "the earlier branch was answered Rollbacked but its rows were not restored")
		}
	}
	return true
}
