package checks

import (
	"fmt"
	"regexp"
	"sort"
	"strings"
	"sync"
	"time"

	"verif/faketc"
	mm "verif/minimysql"
	"verif/vc"
	"verif/wire"
	"verif/world"
)

// C17 — XA branches follow the XA protocol; phase two addresses the prepared branch.
//
// Generated statements run through the XA proxy driver inside global transactions against the fake database, which
// implements the MySQL XA state machine (per-connection ACTIVE / IDLE / PREPARED, detach on disconnect). The monitor
// groups the XA commands of the database journal by branch identifier and checks each group against the legal
// sequence, relates identifiers to the coordinator's (xid, branch id) pairs, and relates the outcome of every
// injected failure and of phase two to the committed data.

func init() {
	Registry["C17"] = Check{Level: "fault_enumeration", Fn: runC17}
}

type c17Case struct {
	Name    string            `json:"name"`
	Table   string            `json:"table"`
	DDL     string            `json:"ddl"`
	Groups  []atGroup         `json:"program"`
	Outcome string            `json:"outcome"`      // nil (commit) | error (rollback)
	Fault   string            `json:"fault"`        // none | register-refused | <kind>@<command>
	P2On    string            `json:"phase_two_on"` // holder | other-process
	Version string            `json:"server_version"`
	Feat    map[string]string `json:"features"`
	ts      []*atTable
}

var reXACmd = regexp.MustCompile(`(?is)^XA\s+(START|END|PREPARE|COMMIT|ROLLBACK)\s+'([^']*)'`)

type c17Env struct {
	r    *vc.Run
	w    *world.World
	db   *world.DB
	ch   *vc.Child // runs phase one
	ch2  *vc.Child // never sees phase one
	name string
}

func newC17Env(r *vc.Run, name, version string, second bool) (*c17Env, error) {
	w, err := world.New(r)
	if err != nil {
		return nil, err
	}
	db := w.NewDB("xa")
	db.E.Version = version
	db.CreateUndoLog()
	spec := []world.DBSpec{{Name: "xa", Driver: "seata-xa-mysql", DSN: db.DSN("app", ""), MaxOpen: 6, Class: "proxied"}, {Name: "plain", Driver: "mysql", DSN: db.DSN("foreign", ""), MaxOpen: 2}}
	ch, err := w.StartClient(name, r.Tier == "thorough", world.InitArg{DBs: spec}, nil)
	if err != nil {
		w.Close()
		return nil, err
	}
	e := &c17Env{r: r, w: w, db: db, ch: ch, name: name}
	if second {
		ch2, err := w.StartClient(name+"-b", false, world.InitArg{DBs: spec[:1]}, nil)
		if err != nil {
			ch.Kill()
			w.Close()
			return nil, err
		}
		e.ch2 = ch2
	}
	return e, nil
}

func (e *c17Env) Close() {
	e.ch.Kill()
	if e.ch2 != nil {
		e.ch2.Kill()
	}
	e.w.Close()
}

func runC17(r *vc.Run, replay string) {
	r.Rule = "cases = statements (INSERT / UPDATE / DELETE, bound arguments) through the XA proxy inside a global transaction, in autocommit mode (also 2..3 statements on one dedicated connection, 8.0.32) or in an explicit local transaction with 1..3 statements, 1..2 branches per global transaction, server versions 5.7.36 and 8.0.32, business outcome commit / rollback, phase two on the holding process or on a process that never saw phase one (both versions), and a failure {error, connection lost} injected at XA START, at the business statement, at XA END, at XA PREPARE, or a refused registration; verdicts over the XA commands of the database journal grouped by branch identifier: legal sequence START, statements, END, PREPARE, exactly one successful COMMIT or ROLLBACK; identifier determined by (xid, branch id) and reused by phase two; BranchRegister before XA START; a failure before a successful PREPARE is returned to the caller, ends in a rolled-back branch and is never followed by COMMIT; Committed/Rollbacked answers match the durable data; no branch left dangling; distinct_nontrivial = distinct (mode, statements, fault, outcome, phase-two site, version) signatures with a registered branch"
	r.Assumptions = []string{"a PREPARE that was executed but whose reply was lost is neither 'a failure before a successful prepare' nor a success the client knows of: no verdict on what becomes of that branch", "two branches of one global transaction work on different tables (separate XA branches cannot see each other's row locks)", "branches reported PhaseOne_Failed get no phase-two request (as the coordinator does)", "the fake database implements the MySQL XA state machine: commands out of order fail with XAER_RMFAIL / XAER_NOTA, a disconnect rolls back a branch that is not PREPARED and detaches a PREPARED one", "XA COMMIT / ROLLBACK of a PREPARED branch from another connection is accepted for both versions (the client decides by the version it reads)"}
	n := 600
	if r.Tier == "thorough" {
		n = 1500
	}
	if v := devN(); v > 0 {
		n = v
	}
	var wg sync.WaitGroup
	for bi, ver := range []string{"5.7.36", "8.0.32"} {
		wg.Add(1)
		go func(bi int, ver string) {
			defer wg.Done()
			c17Batch(r, bi, ver, n/2)
		}(bi, ver)
	}
	wg.Wait()
}

func c17Batch(r *vc.Run, bi int, ver string, n int) {
	e, err := newC17Env(r, fmt.Sprintf("c17-%d", bi), ver, true)
	if err != nil {
		r.Errorf("%v", err)
		return
	}
	defer e.Close()
	rnd := vc.NewRand(r.Seed, "c17-"+ver)
	for i := 0; i < n; i++ {
		// every twelfth case and its successor form a pair on one pooled connection: a phase one that fails at XA END /
		// XA PREPARE (rolled back, no phase two), directly followed by a branch whose statement fails
		force := ""
		switch i % 12 {
		case 10:
			force = []string{"db-error@XA_PREPARE", "db-error@XA_END"}[(i/12)%2]
		case 11:
			force = "db-error@DML"
		}
		c := c17Gen(rnd, fmt.Sprintf("x%d_%04d", bi, i), ver, e.ch2 != nil, force)
		if !c17Run(r, e, c) {
			// the client died: restart it so that the remaining cases run
			e.Close()
			e, err = newC17Env(r, fmt.Sprintf("c17-%d-r%d", bi, i), ver, true)
			if err != nil {
				r.Errorf("%v", err)
				return
			}
		}
	}
}

func c17Gen(r *vc.Rand, name, ver string, hasSecond bool, forceFault string) *c17Case {
	c := &c17Case{Name: name, Version: ver, Feat: map[string]string{}}
	seq := 0
	ng := 1
	if r.Intn(4) == 0 {
		ng = 2
	}
	var kinds []string
	mode := "autocommit"
	for g := 0; g < ng; g++ {
		// one table per branch: two branches of one global transaction cannot see each other's row locks
		t := atGenTable(r, fmt.Sprintf("%st%d", name, g), []string{"int", "autoinc", "varchar"}[r.Intn(3)], []string{"int", "varchar", "bigint"}, 2, 4, false)
		c.ts = append(c.ts, t)
		c.DDL += describeTable(t) + "; "
		grp := atGroup{Explicit: r.Intn(3) == 0}
		ns := 1
		if grp.Explicit {
			ns = 1 + r.Intn(3)
			mode = "explicit"
		} else if ver >= "8.0.29" && r.Intn(5) == 0 {
			// a dedicated connection (db.Conn) running several statement-scoped branches one after the other: possible
			// where the server detaches a prepared branch from its session
			grp.Pinned = true
			ns = 2 + r.Intn(2)
			mode = "autocommit-dedicated-conn"
		}
		for k := 0; k < ns; k++ {
			o := atStmtOpts{params: true, rowsClass: []string{"1", "many"}[r.Intn(2)]}
			var st atStmt
			switch r.Intn(3) {
			case 0:
				st = atGenUpdate(r, t, o)
			case 1:
				st = atGenDelete(r, t, o)
			default:
				st = atGenInsert(r, t, o, 1+r.Intn(2), &seq)
			}
			kinds = append(kinds, st.Kind)
			grp.Stmts = append(grp.Stmts, st)
		}
		c.Groups = append(c.Groups, grp)
	}
	c.Outcome = []string{"nil", "error"}[r.Intn(2)]
	c.Fault = "none"
	switch r.Intn(8) {
	case 0:
		c.Fault = "register-refused"
	case 1, 2, 3:
		c.Fault = []string{"db-error", "drop-before", "drop-after"}[r.Intn(3)] + "@" + []string{"XA_START", "DML", "XA_END", "XA_PREPARE"}[r.Intn(4)]
	}
	if forceFault != "" {
		c.Fault = forceFault
	}
	keep := false
	if mode == "autocommit-dedicated-conn" && forceFault == "" && r.Intn(2) == 0 {
		// retry-style code on a dedicated connection: the statement whose branch is refused fails, the business
		// function carries on with the next statement on the same connection
		c.Fault, keep = "register-refused", true
		for i := range c.Groups {
			if c.Groups[i].Pinned {
				c.Groups[i].KeepGoing = true
			}
		}
	}
	c.P2On = "holder"
	// on servers that make the client keep the phase-one connection, a kept connection is only given up after the
	// hold time: fewer such cases, or the small pool of the holder runs dry
	if hasSecond && ((ver >= "8.0.29" && r.Intn(3) == 0) || (ver < "8.0.29" && r.Intn(10) == 0)) {
		c.P2On = "other-process"
	}
	sort.Strings(kinds)
	c.Feat = map[string]string{"mode": mode, "branches": fmt.Sprint(ng), "stmts": strings.Join(kinds, ","), "fault": c.Fault, "outcome": c.Outcome, "phase_two_on": c.P2On, "version": ver}
	if keep {
		c.Feat["after_failure"] = "next-statement"
	}
	return c
}

type c17XA struct {
	ID   string
	Cmds []*mm.JournalEntry // XA commands naming the id, in order
	Verb []string
}

func c17Run(r *vc.Run, e *c17Env, c *c17Case) bool {
	ac := &atCase{Name: c.Name, Tables: c.ts, Groups: c.Groups, Feat: c.Feat}
	snapAll := func() map[string]string {
		out := map[string]string{}
		for _, t := range c.ts {
			for k, v := range e.db.E.SnapshotTable(t.Name) {
				out[t.Name+"/"+k] = v
			}
		}
		return out
	}
	for _, t := range c.ts {
		def := *t.Def
		def.Cols = append([]mm.Column{}, t.Def.Cols...)
		e.db.E.CreateTable(&def)
		e.db.E.Load(t.Name, t.Rows)
		defer e.db.E.DropTable(t.Name)
	}
	pre := snapAll()
	// fault injection
	var mu sync.Mutex
	fired := false
	fk, fat := "", ""
	if i := strings.Index(c.Fault, "@"); i > 0 {
		fk, fat = c.Fault[:i], c.Fault[i+1:]
		e.db.E.Inject = func(j *mm.JournalEntry) *mm.Action {
			if j.Class != "proxied" && j.Class != "app" { // connections the pool opens later carry the login name
				return nil
			}
			kind := j.Kind
			if kind == "OTHER" && strings.HasPrefix(strings.ToUpper(strings.TrimSpace(j.SQL)), "XA ") {
				f := strings.Fields(strings.ToUpper(j.SQL))
				if len(f) >= 2 {
					kind = "XA_" + f[1]
				}
			}
			if kind == "INSERT" || kind == "UPDATE" || kind == "DELETE" {
				kind = "DML"
			}
			mu.Lock()
			defer mu.Unlock()
			if fired || kind != fat {
				return nil
			}
			fired = true
			switch fk {
			case "db-error":
				return &mm.Action{Err: &mm.MyErr{Code: 1205, State: "HY000", Msg: "Lock wait timeout exceeded; try restarting transaction"}}
			case "drop-before":
				return &mm.Action{DropBefore: true}
			}
			return &mm.Action{DropAfter: true}
		}
	}
	if c.Fault == "register-refused" {
		e.w.TC.AddRule(&faketc.Rule{Name: "c17", Match: func(q *faketc.Req) bool { return q.TxName == c.Name && q.Msg.Type == wire.TBranchRegister }, Do: func(q *faketc.Req) bool {
			mu.Lock()
			first := !fired
			fired = true
			mu.Unlock()
			if first {
				q.ReplyFail("branch register refused by script", 6)
				return true
			}
			return false
		}})
	}
	start := e.w.Clock.Now()
	var res scopeResult
	done := make(chan error, 1)
	go func() {
		done <- e.ch.Call("gtx", &gtxScope{Case: c.Name, Name: c.Name, TimeoutMs: 60000, Outcome: c.Outcome, Label: "gtx", Steps: ac.steps("xa")}, &res)
	}()
	var callErr error
	select {
	case callErr = <-done:
	case <-time.After(60 * time.Second):
		e.ch.Quit()
		callErr = fmt.Errorf("watchdog: the case did not finish within 60 s")
	}
	e.db.E.Inject = nil
	e.w.TC.ClearRules()
	shape := featShape(c.Feat)
	mkHist := func() []string {
		var ls []string
		for _, j := range e.db.E.JournalSince(start) {
			if j.Kind == "SET" || j.Kind == "INFOSCHEMA" {
				continue
			}
			s := fmt.Sprintf("[%d] db c%d(%s) %s | %s", j.Seq, j.Conn, j.Class, j.Kind, clipStr(strings.Join(strings.Fields(j.SQL), " "), 150))
			if j.Err != nil {
				s += fmt.Sprintf(" ERR %d %s", j.Err.Code, clipStr(j.Err.Msg, 70))
			}
			if j.Injected != "" {
				s += " INJECTED:" + j.Injected
			}
			if len(j.Committed) > 0 {
				s += fmt.Sprintf(" durable=%d", len(j.Committed))
			}
			ls = append(ls, s)
		}
		for _, ev := range e.w.TC.EventsSince(start) {
			if ev.Type == "ping" || strings.Contains(strings.ToLower(ev.Type), "heartbeat") {
				continue
			}
			ls = append(ls, fmt.Sprintf("[%d] tc %s %s id=%d %s", ev.Seq, ev.Dir, ev.Type, ev.ID, clipStr(ev.Text, 200)))
		}
		sort.Slice(ls, func(i, j int) bool {
			var a, b int64
			fmt.Sscanf(ls[i], "[%d]", &a)
			fmt.Sscanf(ls[j], "[%d]", &b)
			return a < b
		})
		if len(ls) > 120 {
			ls = append(ls[:120], "…")
		}
		return ls
	}
	viol := func(clause, detail string) {
		r.Violate(&vc.Violation{Clause: clause, Shape: shape, Features: c.Feat, Detail: detail, Case: c,
			History: map[string]interface{}{"steps": res.Steps, "returned": res.Returned + " " + res.Err, "events": mkHist(), "xa_branches_left": e.db.E.XABranches()}})
	}
	if callErr != nil {
		if !e.ch.Alive() {
			txt, _, _ := e.ch.PanicInfo()
			viol("client-crash", "the client process died: "+clipStr(txt, 700))
			r.Case(shape, nil)
			return false
		}
		r.Inconc(c.Name + ": " + callErr.Error())
		r.Case("", nil)
		return true
	}
	xid := res.XidIn
	stepErr, stepPanic := "", ""
	for _, s := range res.Steps {
		if s.Err != "" && stepErr == "" {
			stepErr = s.Op + ": " + s.Err
		}
		if s.Panic != "" && stepPanic == "" {
			stepPanic = s.Op + ": " + s.Panic
		}
	}
	if stepPanic != "" || res.Returned == "panic" {
		viol("panic", "a statement through the XA proxy panicked: "+clipStr(stepPanic+" "+res.PanicVal, 300))
	}
	// ---- phase two ----
	bs := e.w.TC.BranchesOf(xid)
	commit := c.Outcome == "nil" && res.Returned == "nil"
	target := e.ch
	if c.P2On == "other-process" && e.ch2 != nil {
		target = e.ch2
	}
	_ = target
	type p2 struct {
		Branch int64
		Status int64
	}
	var p2s []p2
	order := append([]*faketc.Branch{}, bs...)
	if !commit {
		for i, j := 0, len(order)-1; i < j; i, j = i+1, j-1 {
			order[i], order[j] = order[j], order[i]
		}
	}
	for _, b := range order {
		// a branch reported as failed in phase one is dropped by the coordinator without a phase-two request
		failed := false
		for _, st := range b.Reports {
			if st == 3 {
				failed = true
			}
		}
		if failed {
			continue
		}
		// pick the session of the wanted process: sessions are told apart by the application id they registered with
		var sess *faketc.Session
		for _, s := range e.w.TC.Sessions() {
			if s.Closed() {
				continue
			}
			_, resources, _ := e.w.TC.SessionInfo(s.ID)
			has := false
			for _, rr := range resources {
				if rr == b.Resource {
					has = true
				}
			}
			if !has {
				continue
			}
			isHolder := s.ID == b.Sess
			if (c.P2On == "holder") == isHolder {
				sess = s
			}
		}
		if sess == nil {
			sess = e.w.TC.WaitSession(b.Resource, 2*time.Second)
		}
		st := int64(-1)
		// like the coordinator: a request that stays unanswered (the manager failed, e.g. on a pooled connection that
		// is gone) is sent again, three times in all
		for attempt := 0; attempt < 3 && st == -1 && sess != nil; attempt++ {
			_, rch, err := e.w.TC.Request(sess, faketc.BranchEndReq(commit, b), 0)
			if err == nil {
				select {
				case m := <-rch:
					st = m.I("branchStatus")
				case <-time.After(1500 * time.Millisecond):
				}
			}
		}
		p2s = append(p2s, p2{b.ID, st})
	}
	post := snapAll()
	journal := e.db.E.JournalSince(start)
	// ---- group XA commands by identifier ----
	groups := map[string]*c17XA{}
	var ids []string
	for _, j := range journal {
		m := reXACmd.FindStringSubmatch(strings.TrimSpace(j.SQL))
		if m == nil {
			continue
		}
		g := groups[m[2]]
		if g == nil {
			g = &c17XA{ID: m[2]}
			groups[m[2]] = g
			ids = append(ids, m[2])
		}
		g.Cmds = append(g.Cmds, j)
		g.Verb = append(g.Verb, strings.ToUpper(m[1]))
	}
	nontrivial := len(bs) > 0
	if nontrivial {
		r.Case(shape, map[string]interface{}{"case": c, "branches": len(bs), "xa_ids": ids, "phase_two": p2s, "step_error": stepErr, "events": clipList(mkHist(), 40)})
	} else {
		r.Case("", nil)
	}
	r.Count("xa_branches_registered", int64(len(bs)))
	// registration before XA START, identifier <-> (xid, branch)
	regSeq := map[int64]int64{}
	for _, ev := range e.w.TC.EventsSince(start) {
		if ev.Dir == "out" && ev.Msg != nil && ev.Msg.Type == wire.TBranchRegisterResult && ev.Msg.I("branchId") != 0 {
			regSeq[ev.Msg.I("branchId")] = ev.Seq
		}
	}
	idOf := map[int64]string{}
	for _, b := range bs {
		if b.Type != 3 {
			viol("registration-wrong", fmt.Sprintf("branch %d was registered with branch type %d, expected XA (3)", b.ID, b.Type))
		}
		want := fmt.Sprintf("%s-%d", xid, b.ID)
		for _, id := range ids {
			// the identifier has to name this very pair: xid first, branch id last
			if strings.HasPrefix(id, xid) && strings.HasSuffix(id, fmt.Sprint(b.ID)) && !strings.HasSuffix(id, "0"+fmt.Sprint(b.ID)) && len(id) <= len(xid)+len(fmt.Sprint(b.ID))+3 {
				idOf[b.ID] = id
			}
		}
		if id, ok := idOf[b.ID]; ok {
			if id != want {
				r.Count("xa_id_format_differs_from_xid-branch", 1)
			}
			g := groups[id]
			if len(g.Cmds) > 0 && g.Verb[0] == "START" && regSeq[b.ID] > 0 && g.Cmds[0].Seq < regSeq[b.ID] {
				viol("start-before-registration", fmt.Sprintf("XA START '%s' reached the database at %d, the coordinator granted the branch at %d", id, g.Cmds[0].Seq, regSeq[b.ID]))
			}
		}
	}
	for _, id := range ids {
		owner := false
		for _, v := range idOf {
			if v == id {
				owner = true
			}
		}
		if !owner {
			viol("identifier-not-derived", fmt.Sprintf("XA identifier '%s' does not correspond to any (xid, branch id) the coordinator granted for %s", id, xid))
		}
	}
	// legal sequence per identifier
	dangling := e.db.E.XABranches()
	for _, id := range ids {
		g := groups[id]
		state := "none"
		prepared, finished := false, ""
		var trace []string
		for k, j := range g.Cmds {
			v := g.Verb[k]
			okc := j.Err == nil && j.Injected != "error" && j.Injected != "drop-before"
			trace = append(trace, fmt.Sprintf("%s%s", v, map[bool]string{true: "", false: "(failed)"}[okc]))
			if !okc {
				continue
			}
			switch v {
			case "START":
				if state != "none" {
					viol("illegal-xa-sequence", fmt.Sprintf("'%s': XA START in state %s (%v)", id, state, trace))
				}
				state = "active"
			case "END":
				if state != "active" {
					viol("illegal-xa-sequence", fmt.Sprintf("'%s': XA END in state %s (%v)", id, state, trace))
				}
				state = "idle"
			case "PREPARE":
				if state != "idle" {
					viol("illegal-xa-sequence", fmt.Sprintf("'%s': XA PREPARE in state %s (%v)", id, state, trace))
				}
				state, prepared = "prepared", true
			case "COMMIT":
				if state != "prepared" {
					viol("commit-without-prepare", fmt.Sprintf("'%s': XA COMMIT executed in state %s (%v)", id, state, trace))
				}
				if finished != "" {
					viol("finished-twice", fmt.Sprintf("'%s': XA COMMIT after %s (%v)", id, finished, trace))
				}
				state, finished = "done", "COMMIT"
			case "ROLLBACK":
				if finished != "" {
					viol("finished-twice", fmt.Sprintf("'%s': XA ROLLBACK after %s (%v)", id, finished, trace))
				}
				state, finished = "done", "ROLLBACK"
			}
		}
		if st, left := dangling[id]; left && c.Fault != "drop-after@XA_PREPARE" {
			viol("branch-left-dangling", fmt.Sprintf("'%s' is still %s in the database after phase two (%v)", id, st, trace))
		}
		_ = prepared
	}
	// every business statement of the global transaction runs inside a branch: none makes its rows durable by itself
	for _, j := range journal {
		if (j.Class == "proxied" || j.Class == "app") && stmtIsDML(j) && j.Err == nil && len(j.Committed) > 0 {
			viol("statement-outside-branch", fmt.Sprintf("a statement of the global transaction was committed by itself, outside any XA branch (no phase two can reach it): %s", clipStr(j.SQL, 160)))
			break
		}
	}
	// outcome vs data
	changed := false
	for k, v := range post {
		if pre[k] != v {
			changed = true
		}
	}
	for k := range pre {
		if _, ok := post[k]; !ok {
			changed = true
		}
	}
	allOK := len(p2s) > 0
	for _, p := range p2s {
		if (commit && p.Status != 5) || (!commit && p.Status != 8) {
			allOK = false
		}
	}
	if c.Fault != "none" {
		r.Count(fmt.Sprintf("fault %s fired=%v caller_error=%v", c.Fault, fired, stepErr != "" || stepPanic != ""), 1)
	}
	faulted := c.Fault != "none" && fired
	if faulted && c.Fault != "register-refused" && strings.HasSuffix(c.Fault, "XA_PREPARE") && strings.HasPrefix(c.Fault, "drop-after") {
		faulted = false // the PREPARE was executed; only its reply was lost: either outcome is legal
	}
	if faulted {
		if stepErr == "" && stepPanic == "" {
			viol("failure-swallowed", fmt.Sprintf("%s hit the branch before a successful prepare but every statement returned success to the caller", c.Fault))
		}
		for _, id := range ids {
			for k, j := range groups[id].Cmds {
				if groups[id].Verb[k] == "COMMIT" && j.Err == nil && len(j.Committed) > 0 {
					// committed data of a branch that failed before prepare
					if !groups[id].hasSuccessful("PREPARE") {
						viol("commit-without-prepare", fmt.Sprintf("'%s' was committed although %s hit it before a successful prepare", id, c.Fault))
					}
				}
			}
		}
	}
	if !commit && changed && allOK {
		viol("rollbacked-but-durable", fmt.Sprintf("every BranchRollback was answered Rollbacked but the table differs from its state before the global transaction"))
	}
	if commit && !faulted && len(bs) > 0 && allOK && !changed {
		// every statement may have matched nothing; only flag when statements changed rows in phase one
		rows := 0
		for _, j := range journal {
			if stmtIsDML(j) && j.Err == nil {
				rows += len(j.Changes)
			}
		}
		if rows > 0 {
			viol("committed-but-not-durable", fmt.Sprintf("every BranchCommit was answered Committed but none of the %d changed rows is durable", rows))
		}
	}
	if !faulted && len(bs) > 0 && !allOK && c.Fault == "none" {
		viol("phase-two-failed", fmt.Sprintf("fault-free branch: phase two (%s, on %s) was answered %v (5 = Committed, 8 = Rollbacked, -1 = none)", map[bool]string{true: "commit", false: "rollback"}[commit], c.P2On, p2s))
	}
	if c.Fault == "none" && stepErr != "" {
		viol("fault-free-statement-failed", "without any fault a statement through the XA proxy failed: "+clipStr(stepErr, 240))
	}
	// housekeeping: whatever is left must not leak into the next case
	for id := range e.db.E.XABranches() {
		e.db.E.DropXABranch(id)
	}
	return e.ch.Alive()
}

func (g *c17XA) hasSuccessful(verb string) bool {
	for k, j := range g.Cmds {
		if g.Verb[k] == verb && j.Err == nil && j.Injected != "error" && j.Injected != "drop-before" {
			return true
		}
	}
	return false
}
