package checks

import (
	"fmt"
	"sort"
	"strings"
	"sync"
	"time"

	"verif/faketc"
	"verif/vc"
	"verif/wire"
	"verif/world"
)

// C15 — every coordinator phase-two request gets one correctly addressed, truthful reply.
//
// A scripted recording resource manager is registered (public rm API) for one branch type per batch, next to the
// real managers of the other types. The fake TC delivers a mixed stream of BranchCommit/BranchRollback requests
// concurrently on one session; responses are matched by message id in the TC's frame log.

func init() {
	Registry["C15"] = Check{Level: "exploration", Fn: runC15}
}

type c15Req struct {
	Idx         int    `json:"idx"`
	Commit      bool   `json:"commit"`
	Type        int    `json:"branch_type"`
	Xid         string `json:"xid"`
	Branch      int64  `json:"branch_id"`
	Resource    string `json:"resource_id"`
	AppData     string `json:"app_data"`
	Scripted    bool   `json:"scripted"`
	Status      int    `json:"script_status"`
	Err         string `json:"script_err,omitempty"`
	Hold        bool   `json:"hold,omitempty"`
	Panic       bool   `json:"panic,omitempty"`
	Retry       bool   `json:"retried_after_failure,omitempty"`
	RetryStatus int    `json:"retry_status,omitempty"`
	ForceID     uint32 `json:"same_id_as_pending_client_request,omitempty"`
	// the request carries exactly this message id (boundary values of the 32-bit id: 0, 2^31-1, 2^31, 2^32-1)
	Exact   bool   `json:"exact_id,omitempty"`
	ExactID uint32 `json:"exact_id_value,omitempty"`
	id      uint32
	retryID uint32
	retryCh chan *wire.Msg
	sentSeq int64
	ch      chan *wire.Msg
}

type c15Call struct {
	Seq        int64  `json:"seq"`
	Kind       string `json:"kind"`
	Xid        string `json:"xid"`
	BranchID   int64  `json:"branch_id"`
	ResourceID string `json:"resource_id"`
	AppData    string `json:"app_data"`
	BranchType int    `json:"branch_type"`
	Status     int    `json:"status"`
	Err        string `json:"err,omitempty"`
	Scripted   bool   `json:"scripted"`
}

func runC15(r *vc.Run, replay string) {
	r.Rule = "cases = phase-two requests: streams of 60-500 BranchCommit/BranchRollback requests mixing a scripted branch type (statuses 0..10, with/without error, held, panicking) with AT/TCC/XA requests for unknown resources and an unregistered branch type, delivered concurrently on one session, with holds that invert completion order; one batch per scripted branch type (SAGA slot, AT, TCC, XA overridden), each followed by 12 requests whose message ids equal the ids of client requests still waiting for their answers; a stream of requests that alternate between two managers of different branch types which know the same resource id; oracle = per message id: number of responses, response type, xid, branch id, status vs. what the manager returned, routing (recorded manager calls), independence from held requests; distinct_nontrivial = distinct (branch type, kind, manager outcome, response count) signatures of requests that were delivered"
	r.Assumptions = []string{"the scripted manager is registered through the public rm.GetRmCacheInstance().RegisterResourceManager API and overrides the real manager of its branch type in that child",
		"a request whose manager fails may stay unanswered (the coordinator retries); only a success status is forbidden then"}
	types := []int{2, 0, 1, 3}
	var wg sync.WaitGroup
	for _, t := range types {
		wg.Add(1)
		go func(t int) {
			defer wg.Done()
			c15Batch(r, t)
		}(t)
	}
	wg.Add(1)
	go func() { defer wg.Done(); c15Shared(r) }()
	wg.Wait()
}

// c15Shared: two managers of different branch types that both know the same resource id (one database opened through
// the AT and the XA driver has one resource id for both). Requests for that resource alternate between the two
// types; each must reach the manager of its own type and be answered with that manager's status.
func c15Shared(r *vc.Run) {
	w, err := world.New(r)
	if err != nil {
		r.Errorf("world: %v", err)
		return
	}
	defer w.Close()
	ch, err := w.StartClient("c15-shared", true, world.InitArg{}, []string{"GORACE=halt_on_error=0"})
	if err != nil {
		r.Errorf("%v", err)
		return
	}
	defer ch.Kill()
	types := []int{0, 3} // AT and XA slots, both overridden by scripted managers
	const res = "jdbc:shared-resource"
	n := 24
	if r.Tier == "thorough" {
		n = 120
	}
	type req struct {
		typ    int
		branch int64
		commit bool
		status int
		id     uint32
		ch     chan *wire.Msg
		xid    string
	}
	var reqs []*req
	entries := map[int][]map[string]interface{}{}
	for i := 0; i < n; i++ {
		t := types[(i/2+i)%2] // A B B A A B B A ...: both "first seen" orders and changes of type occur
		q := &req{typ: t, branch: int64(8800000 + i), commit: i%3 != 0, xid: fmt.Sprintf("10.9.9.9:8091:%d", 600+i/4)}
		q.status = 8
		if q.commit {
			q.status = 5
		}
		if t == 3 {
			// the second manager answers with the retryable-failure statuses, so that a reply shows whose it is
			q.status = 9
			if q.commit {
				q.status = 6
			}
		}
		entries[t] = append(entries[t], map[string]interface{}{"branch_id": q.branch, "status": q.status})
		reqs = append(reqs, q)
	}
	for _, t := range types {
		if err := ch.Call("rm_script", map[string]interface{}{"branch_type": t, "entries": entries[t], "resources": []string{res}}, nil); err != nil {
			r.Errorf("rm_script: %v", err)
			return
		}
	}
	s := w.TC.WaitSession("", 10*time.Second)
	if s == nil {
		r.Errorf("no session")
		return
	}
	start := w.Clock.Now()
	for _, q := range reqs {
		mt := int16(wire.TBranchRollback)
		if q.commit {
			mt = wire.TBranchCommit
		}
		m := wire.New(mt, "xid", q.xid, "branchId", q.branch, "branchType", q.typ, "resourceId", res, "applicationData", "")
		id, c, err := w.TC.Request(s, m, 0)
		if err != nil {
			continue
		}
		q.id, q.ch = id, c
		select { // sequential: the order in which the types are first seen is part of the case
		case rm := <-c:
			if rm != nil {
				c <- rm
			}
		case <-time.After(10 * time.Second):
		}
	}
	calls := map[int][]c15Call{}
	for _, t := range types {
		var cs []c15Call
		if err := ch.Call("rm_calls", map[string]interface{}{"branch_type": t}, &cs); err != nil {
			r.Inconc("rm_calls: " + err.Error())
			return
		}
		for _, c := range cs {
			if c.Seq > start {
				calls[t] = append(calls[t], c)
			}
		}
	}
	resp := map[uint32][]*faketc.Event{}
	for _, e := range w.TC.EventsSince(start) {
		if e.Dir == "in" && e.FType == wire.FrameResponse {
			resp[e.ID] = append(resp[e.ID], e)
		}
	}
	for i, q := range reqs {
		kind := map[bool]string{true: "commit", false: "rollback"}[q.commit]
		prev := "first"
		if i > 0 {
			prev = map[bool]string{true: "same-type-before", false: "other-type-before"}[reqs[i-1].typ == q.typ]
		}
		shape := fmt.Sprintf("shared-resource|type=%s|%s|%s", c15TypeName[q.typ], kind, prev)
		feat := map[string]string{"stream": "shared-resource", "type": c15TypeName[q.typ], "kind": kind}
		if q.ch == nil {
			r.Case("", nil)
			continue
		}
		var own, other []c15Call
		for _, t := range types {
			for _, c := range calls[t] {
				if c.BranchID == q.branch {
					if t == q.typ {
						own = append(own, c)
					} else {
						other = append(other, c)
					}
				}
			}
		}
		rs := resp[q.id]
		r.Case(shape, map[string]interface{}{"branch": q.branch, "responses": len(rs), "own_manager_calls": len(own), "other_manager_calls": len(other)})
		viol := func(clause, detail string) {
			r.Violate(&vc.Violation{Clause: clause, Shape: shape, Features: feat, Detail: detail, Case: map[string]interface{}{"request_index": i, "branch": q.branch, "type": q.typ, "resource": res},
				History: map[string]interface{}{"own_manager_calls": own, "other_manager_calls": other}})
		}
		if len(other) > 0 || len(own) != 1 {
			viol("misrouted", fmt.Sprintf("a %s request of branch type %s for a resource id that the %s manager knows too reached its own manager %d times and the other one %d times", kind, c15TypeName[q.typ], c15TypeName[types[0]+types[1]-q.typ], len(own), len(other)))
			continue
		}
		if len(rs) != 1 {
			viol("missing-response", fmt.Sprintf("%d responses for message id %d", len(rs), q.id))
			continue
		}
		if got := rs[0].Msg; got == nil || got.I("branchStatus") != int64(q.status) || got.I("branchId") != q.branch || got.S("xid") != q.xid {
			viol("wrong-status", fmt.Sprintf("the response is %s, the manager of type %s returned status %d for this branch", rs[0].Text, c15TypeName[q.typ], q.status))
		}
	}
}

var c15TypeName = map[int]string{0: "AT", 1: "TCC", 2: "SAGA", 3: "XA", 9: "unregistered"}

func c15Batch(r *vc.Run, stype int) {
	w, err := world.New(r)
	if err != nil {
		r.Errorf("world: %v", err)
		return
	}
	defer w.Close()
	ch, err := w.StartClient(fmt.Sprintf("c15-t%d", stype), true, world.InitArg{}, []string{"GORACE=halt_on_error=0"})
	if err != nil {
		r.Errorf("%v", err)
		return
	}
	defer ch.Kill()
	rnd := vc.NewRand(r.Seed, fmt.Sprintf("c15-%d", stype))
	streams := []int{60, 200}
	if r.Tier == "thorough" {
		streams = []int{60, 200, 500, 500}
	}
	base := int64(stype+1) * 1000000
	for si, n := range streams {
		var reqs []*c15Req
		for i := 0; i < n; i++ {
			q := &c15Req{Idx: i, Commit: rnd.Bool(), Xid: fmt.Sprintf("10.1.%d.%d:8091:%d", stype, si, 5000+rnd.Intn(40)), Branch: base + int64(si)*10000 + int64(i)}
			k := rnd.Intn(100)
			switch {
			case k < 62:
				q.Type, q.Scripted = stype, true
				q.Resource = fmt.Sprintf("res-%d", rnd.Intn(3))
				q.AppData = fmt.Sprintf(`{"i":%d}`, i)
				q.Status = []int{5, 8, 6, 9, 7, 10, 0, 2, 5, 8}[rnd.Intn(10)]
				if rnd.Intn(4) == 0 {
					q.Err = fmt.Sprintf("scripted failure %d", i)
					if rnd.Bool() {
						q.Status = []int{5, 8}[rnd.Intn(2)] // a manager that fails while naming a success status
					}
				}
				if q.Err != "" && rnd.Bool() {
					// the coordinator retries a failed branch (new message id); the manager then succeeds
					q.Retry = true
					q.RetryStatus = 8
					if q.Commit {
						q.RetryStatus = 5
					}
				}
				if rnd.Intn(9) == 0 {
					q.Hold = true
				}
				if rnd.Intn(40) == 0 {
					q.Panic = true
				}
			case k < 95:
				// real managers, unknown resources / branches
				others := []int{0, 1, 3}
				q.Type = others[rnd.Intn(3)]
				if q.Type == stype {
					q.Type = (stype + 1) % 4
					if q.Type == 2 {
						q.Type = 3
					}
				}
				q.Resource = "no-such-resource"
				q.Branch = 9000000 + int64(rnd.Intn(5)) // few ids, shared between requests
				if rnd.Intn(3) == 0 {
					q.AppData = "{not json"
				}
			default:
				q.Type = 9
				q.Resource = "r"
			}
			if q.Type == stype && !q.Scripted {
				q.Type = 9
			}
			reqs = append(reqs, q)
		}
		// boundary values of the message id on plain scripted requests
		exact := []uint32{0, 0x7fffffff, 0x80000000, 0xffffffff}
		for _, q := range reqs {
			if len(exact) == 0 {
				break
			}
			if q.Scripted && q.Type == stype && q.Err == "" && !q.Hold && !q.Panic && !q.Retry && q.ForceID == 0 {
				q.Exact, q.ExactID = true, exact[0]
				exact = exact[1:]
			}
		}
		c15Stream(r, w, ch, stype, si, reqs)
		if !ch.Alive() {
			break
		}
	}
	if ch.Alive() {
		c15Collide(r, w, ch, stype, rnd, base)
	}
	if txt, inSeata, found := ch.PanicInfo(); found {
		if inSeata {
			r.Violate(&vc.Violation{Clause: "client-crash", Shape: fmt.Sprintf("stype=%s", c15TypeName[stype]), Features: map[string]string{"stype": c15TypeName[stype]}, Detail: "client process died from a panic inside seata-go: " + clipStr(txt, 1500)})
		} else if !strings.Contains(txt, "verif: scripted manager panic") {
			r.Errorf("client child crashed outside seata-go: %s", clipStr(txt, 1500))
		} else {
			r.Violate(&vc.Violation{Clause: "client-crash", Shape: fmt.Sprintf("stype=%s|manager-panic", c15TypeName[stype]), Features: map[string]string{"stype": c15TypeName[stype], "cause": "manager-panic"}, Detail: "a panicking resource manager took the whole client process down: " + clipStr(txt, 1200)})
		}
	}
	r.Count("race_reports_in_child_log(owned by C20)", int64(strings.Count(ch.Log(), "WARNING: DATA RACE")))
}

// c15Collide: phase-two requests whose message ids equal the ids of client requests that are still waiting for their
// answers. The coordinator numbers its requests independently of the client, so such coincidences are ordinary; each
// of these requests must still be routed to its manager and answered exactly once.
func c15Collide(r *vc.Run, w *world.World, ch *vc.Child, stype int, rnd *vc.Rand, base int64) {
	prefix := fmt.Sprintf("c15collide-%d/", stype)
	n := 12
	var mu sync.Mutex
	var held []*faketc.Req
	w.TC.AddRule(&faketc.Rule{Name: "c15-collide", Match: func(q *faketc.Req) bool {
		return q.Msg.Type == wire.TGlobalBegin && strings.HasPrefix(q.TxName, prefix)
	}, Do: func(q *faketc.Req) bool {
		mu.Lock()
		held = append(held, q)
		mu.Unlock()
		return true
	}})
	var names []string
	for i := 0; i < n; i++ {
		names = append(names, fmt.Sprintf("%s%03d", prefix, i))
	}
	type callRes struct {
		Name string `json:"name"`
		Xid  string `json:"xid"`
		Err  string `json:"err"`
		Type string `json:"type"`
	}
	var callers []callRes
	done := make(chan error, 1)
	go func() { done <- ch.Call("rpc_burst", map[string]interface{}{"case": prefix, "names": names}, &callers) }()
	arrived := false
	for t0 := time.Now(); time.Since(t0) < 30*time.Second; time.Sleep(5 * time.Millisecond) {
		mu.Lock()
		k := len(held)
		mu.Unlock()
		if k >= n {
			arrived = true
			break
		}
	}
	mu.Lock()
	hs := append([]*faketc.Req{}, held...)
	mu.Unlock()
	if !arrived {
		r.Inconc(fmt.Sprintf("c15 collide stype=%d: only %d of %d client requests reached the coordinator", stype, len(hs), n))
	}
	var reqs []*c15Req
	for i, h := range hs {
		commit := rnd.Bool()
		st := 8
		if commit {
			st = 5
		}
		reqs = append(reqs, &c15Req{Idx: i, Commit: commit, Xid: fmt.Sprintf("10.1.%d.99:8091:%d", stype, 7000+i), Branch: base + 900000 + int64(i), Type: stype, Scripted: true,
			Resource: "res-0", AppData: fmt.Sprintf(`{"c":%d}`, i), Status: st, ForceID: h.Frame.ID})
	}
	if len(reqs) > 0 {
		c15Stream(r, w, ch, stype, 99, reqs)
		r.Count("phase_two_requests_with_id_of_pending_client_request", int64(len(reqs)))
	}
	// now answer the client's own requests
	for _, h := range hs {
		m := wire.New(wire.TGlobalBeginResult, "xid", fmt.Sprintf("%s#%d", h.Msg.S("transactionName"), h.Frame.ID))
		m.F["resultCode"], m.F["msg"], m.F["excCode"] = int64(wire.ResultSuccess), "", int64(0)
		h.S.Reply(h.Frame.ID, m)
	}
	select {
	case <-done:
	case <-time.After(40 * time.Second):
		r.Inconc(fmt.Sprintf("c15 collide stype=%d: the client's own callers did not return", stype))
	}
	w.TC.ClearRules()
}

func c15Stream(r *vc.Run, w *world.World, ch *vc.Child, stype, si int, reqs []*c15Req) {
	// script the manager
	var entries []map[string]interface{}
	for _, q := range reqs {
		if q.Scripted {
			e := map[string]interface{}{"branch_id": q.Branch, "status": q.Status, "err": q.Err, "hold": q.Hold, "panic": q.Panic}
			if q.Retry {
				e["then"] = map[string]interface{}{"status": q.RetryStatus}
			}
			entries = append(entries, e)
		}
	}
	if err := ch.Call("rm_script", map[string]interface{}{"branch_type": stype, "entries": entries}, nil); err != nil {
		r.Errorf("rm_script: %v", err)
		return
	}
	s := w.TC.WaitSession("", 10*time.Second)
	if s == nil {
		r.Errorf("no session")
		return
	}
	startSeq := w.Clock.Now()
	var wg sync.WaitGroup
	for _, q := range reqs {
		wg.Add(1)
		go func(q *c15Req) {
			defer wg.Done()
			t := int16(wire.TBranchRollback)
			if q.Commit {
				t = wire.TBranchCommit
			}
			m := wire.New(t, "xid", q.Xid, "branchId", q.Branch, "branchType", q.Type, "resourceId", q.Resource, "applicationData", q.AppData)
			var id uint32
			var c chan *wire.Msg
			var err error
			if q.Exact {
				id, c, err = w.TC.RequestExact(s, m, q.ExactID)
			} else {
				id, c, err = w.TC.Request(s, m, q.ForceID)
			}
			if err == nil {
				q.id, q.ch = id, c
			}
		}(q)
	}
	wg.Wait()
	// wait for every response that must come without any hold being released
	deadline := time.Now().Add(40 * time.Second)
	pendingBlocked := 0
	for _, q := range reqs {
		if q.ch == nil || !q.Scripted || q.Err != "" || q.Panic || q.Hold {
			continue
		}
		select {
		case m := <-q.ch:
			if m != nil {
				q.ch <- m
			}
		case <-time.After(time.Until(deadline)):
			pendingBlocked++
		}
	}
	releaseSeq := w.Clock.Next()
	var held []int64
	for i := len(reqs) - 1; i >= 0; i-- {
		if reqs[i].Hold && reqs[i].Scripted {
			held = append(held, reqs[i].Branch)
		}
	}
	ch.Call("rm_release", map[string]interface{}{"branch_type": stype, "branches": held}, nil)
	deadline2 := time.Now().Add(30 * time.Second)
	for _, q := range reqs {
		if q.ch == nil || !q.Scripted || q.Err != "" || q.Panic {
			continue
		}
		select {
		case m := <-q.ch:
			if m != nil {
				q.ch <- m
			}
		case <-time.After(time.Until(deadline2)):
		}
	}
	// retries of branches whose first attempt failed: same xid / branch, new message id, the manager now succeeds
	for _, q := range reqs {
		if !q.Retry || q.ch == nil || q.Panic {
			continue
		}
		t := int16(wire.TBranchRollback)
		if q.Commit {
			t = wire.TBranchCommit
		}
		m := wire.New(t, "xid", q.Xid, "branchId", q.Branch, "branchType", q.Type, "resourceId", q.Resource, "applicationData", q.AppData)
		if id, c, err := w.TC.Request(s, m, 0); err == nil {
			q.retryID, q.retryCh = id, c
		}
	}
	deadline3 := time.Now().Add(30 * time.Second)
	for _, q := range reqs {
		if q.retryCh == nil {
			continue
		}
		select {
		case m := <-q.retryCh:
			if m != nil {
				q.retryCh <- m
			}
		case <-time.After(time.Until(deadline3)):
		}
	}
	time.Sleep(400 * time.Millisecond) // settle: lets duplicate / unexpected extra responses show up in the log
	var calls []c15Call
	if ch.Alive() {
		if err := ch.Call("rm_calls", map[string]interface{}{"branch_type": stype}, &calls); err != nil {
			r.Inconc("rm_calls: " + err.Error())
		}
	}
	// responses by message id
	resp := map[uint32][]*faketc.Event{}
	for _, e := range w.TC.EventsSince(startSeq) {
		if e.Dir == "in" && e.FType == wire.FrameResponse {
			resp[e.ID] = append(resp[e.ID], e)
		}
	}
	// the manager's record is cumulative over the batch: keep this stream's calls
	var mine []c15Call
	for _, c := range calls {
		if c.Seq > startSeq {
			mine = append(mine, c)
		}
	}
	calls = mine
	callsBy := map[int64][]c15Call{}
	for _, c := range calls {
		callsBy[c.BranchID] = append(callsBy[c.BranchID], c)
	}
	for _, q := range reqs {
		kind := "rollback"
		if q.Commit {
			kind = "commit"
		}
		outcome := "real-manager"
		if q.Scripted {
			switch {
			case q.Panic:
				outcome = "panic"
			case q.Err != "":
				outcome = "error"
			default:
				outcome = fmt.Sprintf("status%d", q.Status)
			}
			if q.Hold {
				outcome += "+held"
			}
		}
		if q.ForceID != 0 {
			outcome += "+id-of-pending-client-request"
		}
		if q.Exact {
			outcome += fmt.Sprintf("+message-id=%#x", q.ExactID)
		}
		rs := resp[q.id]
		shape := fmt.Sprintf("stype=%s|type=%s|%s|%s|responses=%d", c15TypeName[stype], c15TypeName[q.Type], kind, outcome, len(rs))
		feat := map[string]string{"stype": c15TypeName[stype], "type": c15TypeName[q.Type], "kind": kind, "outcome": outcome}
		var hist []map[string]interface{}
		for _, e := range rs {
			hist = append(hist, map[string]interface{}{"seq": e.Seq, "type": e.Type, "msg": e.Text, "note": e.Note})
		}
		if q.ch == nil {
			r.Case("", nil)
			continue
		}
		r.Case(shape, map[string]interface{}{"request": q, "message_id": q.id, "responses": hist, "manager_calls": callsBy[q.Branch]})
		viol := func(clause, detail string) {
			r.Violate(&vc.Violation{Clause: clause, Shape: shape, Features: feat, Detail: detail, Case: q,
				History: map[string]interface{}{"message_id": q.id, "responses": hist, "manager_calls": callsBy[q.Branch], "release_seq": releaseSeq}})
		}
		if len(rs) > 1 {
			viol("duplicate-response", fmt.Sprintf("%d responses carry message id %d", len(rs), q.id))
		}
		wantType := int16(wire.TBranchRollbackResult)
		if q.Commit {
			wantType = wire.TBranchCommitResult
		}
		for _, e := range rs {
			if e.Msg == nil {
				viol("undecodable-response", "response body not decodable by the v1 layout: "+e.Note)
				continue
			}
			if e.Msg.Type != wantType {
				viol("misaddressed", fmt.Sprintf("response type %s for a %s request", e.Type, kind))
			}
			if e.Msg.S("xid") != q.Xid || e.Msg.I("branchId") != q.Branch {
				viol("misaddressed", fmt.Sprintf("response carries xid=%q branch=%d, request had xid=%q branch=%d", e.Msg.S("xid"), e.Msg.I("branchId"), q.Xid, q.Branch))
			}
		}
		if !q.Scripted {
			if q.Type == 9 && len(rs) > 0 {
				viol("misrouted", fmt.Sprintf("a request of a branch type no manager is registered for was answered (%s): some other type's manager must have handled it", rs[0].Text))
			}
			continue
		}
		if q.retryCh != nil {
			rr := resp[q.retryID]
			ncalls := len(callsBy[q.Branch])
			if ncalls != 2 {
				viol("retry-not-routed", fmt.Sprintf("the retry (message id %d) of a branch whose first attempt failed: manager saw %d call(s) for the branch, expected 2", q.retryID, ncalls))
			} else if len(rr) != 1 {
				viol("retry-unanswered", fmt.Sprintf("the retry (message id %d) was handled successfully by the manager but got %d responses", q.retryID, len(rr)))
			} else if rr[0].Msg == nil || rr[0].Msg.I("branchStatus") != int64(q.RetryStatus) || rr[0].Msg.S("xid") != q.Xid || rr[0].Msg.I("branchId") != q.Branch {
				viol("retry-wrong-response", fmt.Sprintf("the retry's response is %s, expected status %d for this xid/branch", rr[0].Text, q.RetryStatus))
			}
		}
		cs := callsBy[q.Branch]
		if len(cs) == 0 {
			viol("misrouted", fmt.Sprintf("request of branch type %s never reached the manager registered for that type", c15TypeName[q.Type]))
			continue
		}
		if len(cs) > 1 && q.retryCh == nil {
			viol("duplicate-call", fmt.Sprintf("manager invoked %d times for one request", len(cs)))
		}
		c := cs[0]
		if c.Kind != kind || c.Xid != q.Xid || c.ResourceID != q.Resource || c.AppData != q.AppData {
			viol("wrong-arguments", fmt.Sprintf("manager got (%s xid=%q resource=%q data=%q), request was (%s xid=%q resource=%q data=%q)", c.Kind, c.Xid, c.ResourceID, c.AppData, kind, q.Xid, q.Resource, q.AppData))
		}
		if q.Err != "" || q.Panic {
			for _, e := range rs {
				if e.Msg != nil && (e.Msg.I("branchStatus") == 5 || e.Msg.I("branchStatus") == 8) {
					viol("success-on-failure", fmt.Sprintf("manager failed (%s) but a response with success status %d was sent", outcome, e.Msg.I("branchStatus")))
				}
			}
			continue
		}
		if len(rs) == 0 {
			viol("missing-response", fmt.Sprintf("manager returned status %d without error but no response with message id %d reached the coordinator", q.Status, q.id))
			continue
		}
		if got := rs[0].Msg; got != nil && got.I("branchStatus") != int64(q.Status) {
			viol("wrong-status", fmt.Sprintf("manager returned status %d, response says %d", q.Status, got.I("branchStatus")))
		}
		if !q.Hold && rs[0].Seq > releaseSeq && pendingBlocked > 0 {
			viol("blocked-by-unrelated", fmt.Sprintf("response arrived only after unrelated held requests were released (response seq %d > release seq %d)", rs[0].Seq, releaseSeq))
		}
	}
	// routing: calls that reached the scripted manager but belong to no scripted request
	known := map[int64]bool{}
	for _, q := range reqs {
		if q.Scripted {
			known[q.Branch] = true
		}
	}
	var strays []c15Call
	for _, c := range calls {
		if !known[c.BranchID] {
			strays = append(strays, c)
		}
	}
	sort.Slice(strays, func(i, j int) bool { return strays[i].Seq < strays[j].Seq })
	if len(strays) > 0 {
		r.Violate(&vc.Violation{Clause: "misrouted", Shape: fmt.Sprintf("stype=%s|stray", c15TypeName[stype]), Features: map[string]string{"stype": c15TypeName[stype]},
			Detail: fmt.Sprintf("%d requests of other branch types were routed to the manager of type %s, e.g. %+v", len(strays), c15TypeName[stype], strays[0])})
	}
}
