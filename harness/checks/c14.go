package checks

import (
	"fmt"
	"os"
	"path/filepath"
	"strconv"
	"strings"
	"sync"
	"time"

	"verif/faketc"
	"verif/vc"
	"verif/wire"
	"verif/world"
)

// C14 — concurrent requests are answered by their own responses; stragglers do no harm.
//
// N callers run the real SendSyncRequest concurrently in a client child (race detector on). The fake TC answers
// each GlobalBegin with xid = "<transaction name>#<frame id>", so a response identifies the request it answers;
// scripts permute, delay, duplicate, drop replies, inject unsolicited responses and phase-two requests whose ids
// collide with in-flight client ids, and reset the connection. Quiescence is logical (all callers returned and a
// final request/response round trip on the same session completed).

func init() {
	Registry["C14"] = Check{Level: "exploration", Fn: runC14}
}

type c14Call struct {
	Name  string `json:"name"`
	Xid   string `json:"xid,omitempty"`
	Err   string `json:"err,omitempty"`
	Panic string `json:"panic,omitempty"`
	Type  string `json:"type,omitempty"`
	Ms    int64  `json:"ms"`
}

type c14State struct {
	Pending []int32  `json:"pending_futures"`
	Merged  int      `json:"merged_pending"`
	Open    int      `json:"sessions_open"`
	Closed  int      `json:"sessions_closed"`
	Counter int32    `json:"session_counter"`
	Gor     int      `json:"goroutines"`
	Parked  int      `json:"parked_in_delivery"`
	Samples []string `json:"parked_samples"`
}

type c14Held struct {
	q *faketc.Req
}

type c14Scenario struct {
	name    string
	n       int
	script  string // reverse | random | dup-seq | dup-race | drop | unsolicited | collide | collide-wfail | write-fail | hold | late | rst
	dropMod int
	holdMs  int
	failMod int // write-fail: the write of every failMod-th caller's request fails
}

type c14Ctl struct {
	mu     sync.Mutex
	cond   *sync.Cond
	held   map[string][]*faketc.Req // scenario -> requests in arrival order
	byName map[string]uint32        // name -> frame id of its request
	active map[string]*c14Scenario
}

func c14Reply(q *faketc.Req) *wire.Msg {
	m := wire.New(wire.TGlobalBeginResult, "xid", fmt.Sprintf("%s#%d", q.Msg.S("transactionName"), q.Frame.ID))
	m.F["resultCode"] = int64(wire.ResultSuccess)
	m.F["msg"] = ""
	m.F["excCode"] = int64(0)
	return m
}

func runC14(r *vc.Run, replay string) {
	r.Rule = "cases = one per (scenario, caller): N in {2,8,64,512} concurrent SendSyncRequest callers under reply scripts {reverse, random permutation, sequential duplicates, back-to-back duplicates, drops (20 s timeout), unsolicited responses for unknown ids, phase-two requests with ids colliding with in-flight client ids (also with the answers to them failing at the package write), requests whose own package write fails, replies held across several heart-beats, reply after the caller's timeout (thorough), connection reset with requests pending, and - on a client with two coordinator sessions - one session reset while requests are pending on the other}; each reply carries '<name>#<frame id>' so the response a caller got identifies the request it answers; after each scenario: pending futures, goroutines parked in response delivery, and a fresh request; distinct_nontrivial = distinct (script, N class, caller outcome) among callers whose request reached the TC"
	r.Assumptions = []string{"the client child is built with -race; a race report whose accessing stacks all lie in the message-future code (GettyRemoting / GettyRemotingClient / message future) is a violation here, every other report is owned by C20 and only counted",
		"quiescence is logical: all callers returned and a final round trip on the same session completed"}
	if os.Getenv("VERIF_C14_ONLY") == "storm" {
		c14Storm(r)
		return
	}
	w, err := world.New(r)
	if err != nil {
		r.Errorf("world: %v", err)
		return
	}
	defer w.Close()
	ch, err := w.StartClient("c14", true, world.InitArg{}, []string{"GORACE=halt_on_error=0 log_path=" + filepath.Join(r.RunDir, "race-c14")})
	if err != nil {
		r.Errorf("%v", err)
		return
	}
	defer ch.Kill()
	stormDone := make(chan struct{})
	go func() {
		defer close(stormDone)
		c14Storm(r)
	}()
	ctl := &c14Ctl{held: map[string][]*faketc.Req{}, byName: map[string]uint32{}, active: map[string]*c14Scenario{}}
	ctl.cond = sync.NewCond(&ctl.mu)
	w.TC.AddRule(&faketc.Rule{Name: "c14", Match: func(q *faketc.Req) bool {
		return q.Msg.Type == wire.TGlobalBegin && strings.HasPrefix(q.TxName, "c14-")
	}, Do: func(q *faketc.Req) bool {
		sc := strings.SplitN(q.TxName, "/", 2)[0]
		ctl.mu.Lock()
		defer ctl.mu.Unlock()
		ctl.byName[q.TxName] = q.Frame.ID
		if ctl.active[sc] == nil {
			return false
		}
		ctl.held[sc] = append(ctl.held[sc], q)
		ctl.cond.Broadcast()
		return true
	}})
	// the default begin reply for non-held c14 names (fresh probes) also carries name#id
	w.TC.AddRule(&faketc.Rule{Name: "c14-probe", Match: func(q *faketc.Req) bool {
		return q.Msg.Type == wire.TGlobalBegin && strings.HasPrefix(q.TxName, "c14probe-")
	}, Do: func(q *faketc.Req) bool {
		ctl.mu.Lock()
		ctl.byName[q.TxName] = q.Frame.ID
		ctl.mu.Unlock()
		q.S.Reply(q.Frame.ID, c14Reply(q))
		return true
	}})

	rnd := vc.NewRand(r.Seed, "c14")
	var scenarios []*c14Scenario
	add := func(script string, n int) {
		scenarios = append(scenarios, &c14Scenario{name: fmt.Sprintf("c14-%02d-%s", len(scenarios), script), n: n, script: script, dropMod: 3, holdMs: 3600, failMod: 3})
	}
	// first, while message ids are still small: replies held across several heart-beats (heart-beat ids count from 1 too)
	add("hold", 16)
	for _, n := range []int{2, 8, 64, 512} {
		add("reverse", n)
		add("random", n)
	}
	add("dup-seq", 8)
	add("dup-seq", 64)
	add("dup-race", 8)
	add("dup-race", 64)
	add("dup-race", 256)
	add("dup-race", 256)
	add("unsolicited", 8)
	add("collide", 8)
	add("collide", 64)
	add("collide-wfail", 8)
	add("collide-wfail", 64)
	add("write-fail", 9)
	add("write-fail", 64)
	if r.Tier == "thorough" {
		add("dup-race", 512)
		add("collide", 512)
		add("hold", 64)
		add("late", 8)
	}
	// scenarios that wait for the 20 s timeout run concurrently with the rest; the reset comes last
	dropSc := &c14Scenario{name: "c14-90-drop", n: 16, script: "drop", dropMod: 3}
	var bg sync.WaitGroup
	bg.Add(1)
	go func() {
		defer bg.Done()
		c14Run(r, w, ch, ctl, dropSc, rnd)
	}()
	var lateSc *c14Scenario
	for _, sc := range scenarios {
		if sc.script == "late" {
			lateSc = sc
			bg.Add(1)
			go func(sc *c14Scenario) {
				defer bg.Done()
				c14Run(r, w, ch, ctl, sc, vc.NewRand(r.Seed, "c14-late"))
			}(sc)
			continue
		}
		c14Run(r, w, ch, ctl, sc, rnd)
		c14Quiesce(r, ch, ctl, sc.name, false)
		if !ch.Alive() {
			break
		}
	}
	_ = lateSc
	bg.Wait()
	c14Quiesce(r, ch, ctl, "after-drop", true)
	if ch.Alive() {
		rst := &c14Scenario{name: "c14-99-rst", n: 8, script: "rst"}
		c14Run(r, w, ch, ctl, rst, rnd)
		c14Quiesce(r, ch, ctl, "after-rst", true)
	}
	if ch.Alive() {
		c14Stale(r, w, ch, ctl)
	}
	<-stormDone
	c14TwoSessions(r, w)
	if txt, inSeata, found := ch.PanicInfo(); found {
		if inSeata {
			r.Violate(&vc.Violation{Clause: "client-crash", Shape: "c14", Detail: "client process died from a panic inside seata-go: " + clipStr(txt, 1500)})
		} else {
			r.Errorf("client child crashed outside seata-go: %s", clipStr(txt, 1500))
		}
	}
	// race reports: those in which every accessing stack enters through the response-delivery code belong to this
	// property (two replies for one id writing the future a caller reads is "a duplicate that was not discarded");
	// all others are owned by C20 and only counted
	other := 0
	for _, rc := range c20ParseRaces(r.RunDir, "race-c14") {
		mine := rc.AccessInSeata
		for _, site := range strings.Split(rc.Sig, " <-> ") {
			if !strings.HasPrefix(site, "pkg/remoting/getty.(*GettyRemoting).") && !strings.HasPrefix(site, "pkg/remoting/getty.(*GettyRemotingClient).") && !strings.HasPrefix(site, "pkg/protocol/message.") {
				mine = false
			}
		}
		if !mine {
			other += rc.Count
			continue
		}
		r.Violate(&vc.Violation{Clause: "race-on-future", Shape: "race|" + rc.Sig, Features: map[string]string{"sites": rc.Sig},
			Detail:  fmt.Sprintf("the race detector reported %d unsynchronised accesses to a message future (%s): a reply was stored into a future that another reply or its caller was using", rc.Count, rc.Sig),
			History: map[string]interface{}{"report": rc.Text}})
	}
	r.Count("race_reports_elsewhere(owned by C20)", int64(other))
}

func c14Names(sc *c14Scenario) []string {
	var names []string
	for i := 0; i < sc.n; i++ {
		names = append(names, fmt.Sprintf("%s/%04d", sc.name, i))
	}
	return names
}

func c14Run(r *vc.Run, w *world.World, ch *vc.Child, ctl *c14Ctl, sc *c14Scenario, rnd *vc.Rand) {
	names := c14Names(sc)
	ctl.mu.Lock()
	ctl.active[sc.name] = sc
	ctl.mu.Unlock()
	var calls []c14Call
	var callErr error
	done := make(chan struct{})
	writeFails := map[string]bool{}
	expectHeld := sc.n
	if sc.script == "write-fail" {
		var fn []string
		for i, nm := range names {
			if i%sc.failMod == 0 {
				writeFails[nm] = true
				fn = append(fn, nm)
			}
		}
		expectHeld = sc.n - len(fn)
		ch.Call("rpc_write_fault", map[string]interface{}{"request_names": fn}, nil)
	}
	go func() {
		callErr = ch.Call("rpc_burst", map[string]interface{}{"case": sc.name, "names": names}, &calls)
		close(done)
	}()
	// wait until all N requests are held (logical barrier), with a generous wall-clock backstop
	arrived := make(chan struct{})
	go func() {
		ctl.mu.Lock()
		for len(ctl.held[sc.name]) < expectHeld {
			ctl.cond.Wait()
		}
		ctl.mu.Unlock()
		close(arrived)
	}()
	select {
	case <-arrived:
	case <-done:
	case <-time.After(60 * time.Second):
		r.Inconc(sc.name + ": not all requests reached the TC within 60 s")
		ctl.mu.Lock()
		ctl.cond.Broadcast()
		ctl.mu.Unlock()
	}
	ctl.mu.Lock()
	held := append([]*faketc.Req{}, ctl.held[sc.name]...)
	ctl.mu.Unlock()
	order := make([]int, len(held))
	for i := range order {
		order[i] = i
	}
	dropped := map[string]bool{}
	collided := 0
	switch sc.script {
	case "reverse", "dup-seq", "dup-race", "unsolicited", "collide", "collide-wfail", "write-fail", "hold", "late", "rst":
		for i, j := 0, len(order)-1; i < j; i, j = i+1, j-1 {
			order[i], order[j] = order[j], order[i]
		}
	case "random", "drop":
		order = rnd.Perm(len(held))
	}
	switch sc.script {
	case "hold":
		time.Sleep(time.Duration(sc.holdMs) * time.Millisecond) // several heart-beats pass while the requests are in flight
	case "late":
		time.Sleep(23 * time.Second) // the callers have given up
	case "unsolicited":
		if len(held) > 0 {
			s := held[0].S
			for k := 0; k < 20; k++ {
				m := wire.New(wire.TGlobalBeginResult, "xid", "unsolicited")
				m.F["resultCode"] = int64(1)
				s.Reply(uint32(900000+k), m)
			}
		}
	case "collide", "collide-wfail":
		// phase-two requests whose message ids equal the ids of the in-flight client requests; in the second variant the
		// client's answers to them fail at the package write (an un-awaited message that cannot be sent must not touch
		// the bookkeeping of the awaited request with the same number)
		if sc.script == "collide-wfail" {
			var ids []int32
			for _, q := range held {
				ids = append(ids, int32(q.Frame.ID))
			}
			ch.Call("rpc_write_fault", map[string]interface{}{"response_ids": ids}, nil)
		}
		for _, q := range held {
			m := wire.New(wire.TBranchCommit, "xid", "127.0.0.1:1:1", "branchId", 1, "branchType", 0, "resourceId", "no-such-resource", "applicationData", "")
			_, chResp, err := w.TC.Request(q.S, m, q.Frame.ID)
			if err == nil {
				collided++
				go func() {
					select {
					case <-chResp:
					case <-time.After(5 * time.Second):
					}
				}()
			}
		}
		time.Sleep(300 * time.Millisecond)
		if sc.script == "collide-wfail" {
			var st struct {
				Injected int `json:"injected"`
			}
			ch.Call("rpc_write_fault", map[string]interface{}{}, &st)
			r.Count("answers_to_colliding_requests_failed_at_write", int64(st.Injected))
			if st.Injected == 0 {
				r.Inconc(sc.name + ": no write failure was injected")
			}
		}
	case "rst":
		if len(held) > 0 {
			held[0].S.Kill(true)
		}
	}
	if sc.script != "rst" {
		for k, i := range order {
			q := held[i]
			if sc.script == "drop" && k%sc.dropMod == 0 {
				dropped[q.TxName] = true
				continue
			}
			m := c14Reply(q)
			switch sc.script {
			case "dup-seq":
				q.S.Reply(q.Frame.ID, m)
				q.S.Reply(q.Frame.ID, m)
			case "dup-race":
				body, _ := wire.Encode(m)
				raw := wire.EncodeFrame(&wire.Frame{Version: 1, Type: wire.FrameResponse, Codec: 1, ID: q.Frame.ID, Body: body})
				// 2..17 copies of the reply in one write: the client's task pool works on them at the same time
				copies := 2 + (k*5+i)%16
				var burst []byte
				for n := 0; n < copies; n++ {
					burst = append(burst, raw...)
				}
				q.S.WriteRaw(burst)
			default:
				q.S.Reply(q.Frame.ID, m)
			}
		}
	}
	select {
	case <-done:
	case <-time.After(90 * time.Second):
		r.Violate(&vc.Violation{Clause: "caller-blocked", Shape: sc.script, Features: map[string]string{"script": sc.script}, Detail: sc.name + ": callers did not return within 90 s (timeout is 20 s)"})
		ch.Quit()
		return
	}
	ctl.mu.Lock()
	delete(ctl.active, sc.name)
	ctl.mu.Unlock()
	if sc.script == "write-fail" {
		var st struct {
			Injected int `json:"injected"`
		}
		ch.Call("rpc_write_fault", map[string]interface{}{}, &st)
		r.Count("requests_failed_at_write", int64(st.Injected))
	}
	if callErr != nil {
		r.Inconc(sc.name + ": control call failed: " + callErr.Error())
		return
	}
	ncls := "n<=8"
	if sc.n > 8 {
		ncls = "n<=64"
	}
	if sc.n > 64 {
		ncls = "n>64"
	}
	for _, c := range calls {
		ctl.mu.Lock()
		id, reached := ctl.byName[c.Name]
		ctl.mu.Unlock()
		outcome := "own-response"
		switch {
		case c.Panic != "":
			outcome = "panic"
		case c.Err != "":
			outcome = "error"
		}
		shape := fmt.Sprintf("%s|%s|%s", sc.script, ncls, outcome)
		feat := map[string]string{"script": sc.script, "n": ncls}
		if reached {
			r.Case(shape, map[string]interface{}{"scenario": sc.name, "caller": c, "frame_id": id, "script": sc.script, "n": sc.n})
		} else {
			r.Case("", nil)
		}
		viol := func(clause, detail string) {
			r.Violate(&vc.Violation{Clause: clause, Shape: shape, Features: feat, Detail: detail, Case: map[string]interface{}{"scenario": sc.name, "script": sc.script, "n": sc.n, "caller": c.Name},
				History: map[string]interface{}{"caller": c, "request_frame_id": id, "colliding_phase_two_requests": collided}})
		}
		if c.Panic != "" {
			viol("caller-panic", "SendSyncRequest panicked: "+clipStr(c.Panic, 300))
			continue
		}
		if writeFails[c.Name] {
			r.Case(fmt.Sprintf("%s|%s|write-failed:%s", sc.script, ncls, outcome), map[string]interface{}{"scenario": sc.name, "caller": c})
			if c.Err == "" {
				viol("write-failure-swallowed", fmt.Sprintf("the request of caller %s could not be written, yet the caller got %q instead of an error", c.Name, c.Xid))
			} else if c.Ms > 5000 {
				viol("write-failure-swallowed", fmt.Sprintf("the request of caller %s could not be written; the caller was told only after %d ms (%s)", c.Name, c.Ms, clipStr(c.Err, 100)))
			}
			continue
		}
		expectErr := dropped[c.Name] || sc.script == "rst" || sc.script == "late"
		if c.Err == "" {
			want := fmt.Sprintf("%s#%d", c.Name, id)
			if c.Xid != want {
				viol("foreign-response", fmt.Sprintf("caller %s received %q, its own response is %q", c.Name, c.Xid, want))
			} else if dropped[c.Name] || sc.script == "late" {
				viol("foreign-response", fmt.Sprintf("caller %s got a response although none was sent in time", c.Name))
			}
			continue
		}
		if !expectErr {
			viol("lost-response", fmt.Sprintf("caller %s got error %q after %d ms although its response was sent", c.Name, clipStr(c.Err, 160), c.Ms))
		} else if i := strings.Index(c.Err, "#"); i >= 0 && false {
			_ = strconv.Itoa
		}
	}
}

// c14TwoSessions: a client with two coordinator sessions (the address is listed twice). Requests are in flight on
// both; those on session A are answered, then A is reset; once the client has noticed (it reconnects), the requests
// on the healthy session B are answered. Every caller must get its own response: losing one connection must not
// take the answers of requests that travel on another one.
func c14TwoSessions(r *vc.Run, w *world.World) {
	ch, err := w.StartClient("c14-two", true, world.InitArg{Replace: map[string]string{w.TC.Addr: w.TC.Addr + ";" + w.TC.Addr}}, []string{"GORACE=halt_on_error=0"})
	if err != nil {
		r.Errorf("%v", err)
		return
	}
	defer ch.Kill()
	var mu sync.Mutex
	held := map[string][]*faketc.Req{}
	ids := map[string]uint32{}
	w.TC.AddRule(&faketc.Rule{Name: "c14two", Match: func(q *faketc.Req) bool {
		return q.Msg.Type == wire.TGlobalBegin && strings.HasPrefix(q.TxName, "c14two-")
	}, Do: func(q *faketc.Req) bool {
		mu.Lock()
		defer mu.Unlock()
		rd := strings.SplitN(q.TxName, "/", 2)[0]
		held[rd] = append(held[rd], q)
		ids[q.TxName] = q.Frame.ID
		return true
	}})
	rounds := 4
	if r.Tier == "thorough" {
		rounds = 16
	}
	n := 12
	for k := 0; k < rounds; k++ {
		rd := fmt.Sprintf("c14two-%02d", k)
		var names []string
		for i := 0; i < n; i++ {
			names = append(names, fmt.Sprintf("%s/%03d", rd, i))
		}
		var calls []c14Call
		done := make(chan error, 1)
		go func() { done <- ch.Call("rpc_burst", map[string]interface{}{"case": rd, "names": names}, &calls) }()
		for t0 := time.Now(); time.Since(t0) < 30*time.Second; time.Sleep(5 * time.Millisecond) {
			mu.Lock()
			got := len(held[rd])
			mu.Unlock()
			if got >= n {
				break
			}
		}
		mu.Lock()
		hs := append([]*faketc.Req{}, held[rd]...)
		mu.Unlock()
		var a *faketc.Session
		onA, onB := 0, 0
		if len(hs) > 0 {
			a = hs[0].S
		}
		for _, q := range hs {
			if q.S == a {
				onA++
			} else {
				onB++
			}
		}
		steered := len(hs) == n && onA > 0 && onB > 0
		if steered {
			for _, q := range hs {
				if q.S == a {
					q.S.Reply(q.Frame.ID, c14Reply(q))
				}
			}
			time.Sleep(150 * time.Millisecond) // the answered callers return
			mark := w.Clock.Now()
			a.Kill(true)
			// the client has noticed the loss when it comes back with a new connection
			for t0 := time.Now(); time.Since(t0) < 8*time.Second; time.Sleep(10 * time.Millisecond) {
				reopened := false
				for _, e := range w.TC.EventsSince(mark) {
					if e.Dir == "open" {
						reopened = true
					}
				}
				if reopened {
					break
				}
			}
			time.Sleep(100 * time.Millisecond)
		}
		for _, q := range hs {
			if !steered || q.S != a {
				q.S.Reply(q.Frame.ID, c14Reply(q))
			}
		}
		select {
		case err := <-done:
			if err != nil {
				r.Inconc(rd + ": " + err.Error())
				continue
			}
		case <-time.After(60 * time.Second):
			r.Violate(&vc.Violation{Clause: "caller-blocked", Shape: "two-sessions", Features: map[string]string{"script": "two-sessions"}, Detail: rd + ": callers did not return within 60 s"})
			return
		}
		if !steered {
			r.Inconc(fmt.Sprintf("%s: requests not spread over two sessions (%d held, %d / %d)", rd, len(hs), onA, onB))
			for range calls {
				r.Case("", nil)
			}
			continue
		}
		r.Count("two_session_rounds_steered", 1)
		sessOf := map[string]string{}
		for _, q := range hs {
			sessOf[q.TxName] = map[bool]string{true: "closed-session(answered before the close)", false: "healthy-session"}[q.S == a]
		}
		for _, c := range calls {
			mu.Lock()
			id := ids[c.Name]
			mu.Unlock()
			outcome := "own-response"
			if c.Err != "" || c.Panic != "" {
				outcome = "error"
			}
			shape := fmt.Sprintf("two-sessions|%s|%s", sessOf[c.Name], outcome)
			feat := map[string]string{"script": "two-sessions", "on": sessOf[c.Name]}
			r.Case(shape, map[string]interface{}{"round": rd, "caller": c, "frame_id": id})
			want := fmt.Sprintf("%s#%d", c.Name, id)
			switch {
			case c.Panic != "":
				r.Violate(&vc.Violation{Clause: "caller-panic", Shape: shape, Features: feat, Detail: "SendSyncRequest panicked: " + clipStr(c.Panic, 300), History: c})
			case c.Err != "":
				r.Violate(&vc.Violation{Clause: "lost-response", Shape: shape, Features: feat, Detail: fmt.Sprintf("caller %s (%s) got error %q although its response was sent on a live connection; another session of the client had been reset meanwhile", c.Name, sessOf[c.Name], clipStr(c.Err, 200)), History: c})
			case c.Xid != want:
				r.Violate(&vc.Violation{Clause: "foreign-response", Shape: shape, Features: feat, Detail: fmt.Sprintf("caller %s received %q, its own response is %q", c.Name, c.Xid, want), History: c})
			}
		}
	}
}

// c14Quiesce: a fresh request completes, nothing is parked in response delivery, no bookkeeping is left.
func c14Quiesce(r *vc.Run, ch *vc.Child, ctl *c14Ctl, after string, strict bool) {
	if !ch.Alive() {
		return
	}
	probe := fmt.Sprintf("c14probe-%s", after)
	var calls []c14Call
	done := make(chan error, 1)
	go func() { done <- ch.Call("rpc_burst", map[string]interface{}{"names": []string{probe}}, &calls) }()
	feat := map[string]string{"script": "quiesce", "after": after}
	select {
	case err := <-done:
		if err != nil {
			r.Inconc("probe after " + after + ": " + err.Error())
			return
		}
	case <-time.After(70 * time.Second):
		r.Violate(&vc.Violation{Clause: "fresh-request-blocked", Shape: "quiesce", Features: feat, Detail: "a fresh request after " + after + " did not return within 70 s"})
		return
	}
	if len(calls) == 1 {
		c := calls[0]
		ctl.mu.Lock()
		id := ctl.byName[probe]
		ctl.mu.Unlock()
		if c.Err != "" || c.Xid != fmt.Sprintf("%s#%d", probe, id) {
			r.Violate(&vc.Violation{Clause: "fresh-request-failed", Shape: "quiesce|" + after, Features: feat, Detail: fmt.Sprintf("a fresh request after %s did not complete with its own response: xid=%q err=%q", after, c.Xid, clipStr(c.Err, 200)), History: c})
		}
	}
	var st c14State
	if err := ch.Call("rpc_state", nil, &st); err != nil {
		r.Inconc("rpc_state after " + after + ": " + err.Error())
		return
	}
	r.Case("quiesce|"+after, map[string]interface{}{"after": after, "state": map[string]interface{}{"pending_futures": st.Pending, "parked": st.Parked, "goroutines": st.Gor}})
	if st.Parked > 0 {
		sample := ""
		if len(st.Samples) > 0 {
			sample = st.Samples[0]
		}
		r.Violate(&vc.Violation{Clause: "delivery-blocked", Shape: "quiesce|" + after, Features: feat, Detail: fmt.Sprintf("%d goroutines are parked in response delivery (channel send) after %s: %s", st.Parked, after, clipStr(sample, 600)), History: st})
	}
	if strict && len(st.Pending) > 0 {
		r.Violate(&vc.Violation{Clause: "bookkeeping-left", Shape: "quiesce|" + after, Features: feat, Detail: fmt.Sprintf("%d message futures are still registered after every caller returned (%s): ids %v", len(st.Pending), after, clipI32(st.Pending, 20)), History: st})
	}
	if !strict && len(st.Pending) > 0 {
		// the concurrent drop scenario legitimately has requests in flight; judged strictly at the end
		r.Count("pending_futures_seen_mid_run", int64(len(st.Pending)))
	}
}

// c14Stale: requests refused because their session has already gone. A session-open listener (public API) keeps the
// send function of each session; the coordinator resets the sessions one after the other, the client reconnects, and
// the kept functions are then used, those of the lost sessions included. Such a request is abandoned at once: it
// must leave no future behind.
func c14Stale(r *vc.Run, w *world.World, ch *vc.Child, ctl *c14Ctl) {
	if err := ch.Call("rpc_listen", nil, nil); err != nil {
		r.Inconc("rpc_listen: " + err.Error())
		return
	}
	for round := 0; round < 3; round++ {
		for _, s := range w.TC.Sessions() {
			if !s.Closed() {
				s.Kill(true)
			}
		}
		// the client reconnects; requests made while it has no session may fail, none is made here
		if w.TC.WaitSession("", 20*time.Second) == nil || !ch.Alive() {
			r.Inconc(fmt.Sprintf("stale sends: the client did not reconnect after reset %d", round))
			return
		}
		time.Sleep(300 * time.Millisecond)
	}
	var before c14State
	if err := ch.Call("rpc_state", nil, &before); err != nil {
		r.Inconc("rpc_state before the stale sends: " + err.Error())
		return
	}
	var calls []c14Call
	if err := ch.Call("rpc_send_stale", map[string]interface{}{"times": 3}, &calls); err != nil {
		r.Inconc("rpc_send_stale: " + err.Error())
		return
	}
	refused, accepted := 0, 0
	for _, c := range calls {
		feat := map[string]string{"script": "stale-send"}
		switch {
		case c.Panic != "":
			r.Case("stale-send|panic", c)
			r.Violate(&vc.Violation{Clause: "caller-panic", Shape: "stale-send|panic", Features: feat, Detail: "sending on a session that has gone panicked: " + clipStr(c.Panic, 300), Case: c})
		case c.Err != "":
			refused++
			r.Case("stale-send|refused", c)
		default:
			accepted++
			r.Case("stale-send|written", c)
		}
	}
	r.Count("stale_sends_refused", int64(refused))
	r.Count("stale_sends_written", int64(accepted))
	if refused == 0 {
		r.Inconc("stale sends: no request was refused for a closed session (the listener saw no session that was lost)")
		return
	}
	c14Quiesce(r, ch, ctl, "stale-sends", false)
	var after c14State
	if err := ch.Call("rpc_state", nil, &after); err != nil {
		r.Inconc("rpc_state after the stale sends: " + err.Error())
		return
	}
	was := map[int32]bool{}
	for _, id := range before.Pending {
		was[id] = true
	}
	var left []int32
	for _, id := range after.Pending {
		if !was[id] {
			left = append(left, id)
		}
	}
	r.Case("stale-send|bookkeeping", map[string]interface{}{"pending_before": before.Pending, "pending_after": after.Pending})
	// a written one-way request keeps its future until it is answered or timed out (20 s): at most one each
	if len(left) > accepted {
		r.Violate(&vc.Violation{Clause: "bookkeeping-left", Shape: "stale-send", Features: map[string]string{"script": "stale-send"},
			Detail:  fmt.Sprintf("%d requests were refused because their session had gone and %d were written; afterwards %d new message futures are registered, more than the written requests can account for: ids %v", refused, accepted, len(left), clipI32(left, 20)),
			History: map[string]interface{}{"sends": calls, "before": before, "after": after}})
	}
}

func clipI32(x []int32, n int) []int32 {
	if len(x) > n {
		return x[:n]
	}
	return x
}

// c14Storm: schedule perturbation. A second client child restricted to one OS thread for Go code (GOMAXPROCS=1, race
// detector on) fires waves of concurrent requests that the TC answers immediately, so that replies race with the
// senders' own bookkeeping. Every caller must still receive its own response.
func c14Storm(r *vc.Run) {
	w, err := world.New(r)
	if err != nil {
		r.Errorf("world: %v", err)
		return
	}
	defer w.Close()
	env := []string{"GORACE=halt_on_error=0", "GOMAXPROCS=1", "VERIF_QUIET=1"}
	// strace as a delay injector at an existing suspension point: the return of every write(2) is held back 1.5 ms
	// after the bytes left, so the coordinator's reply can be processed before the sending goroutine continues
	ch, err := w.StartClient("c14-storm", true, world.InitArg{}, append(append([]string{}, env...), "VERIF_WRAP=strace -f -qq -o /dev/null -e trace=write -e inject=write:delay_exit=1500"))
	r.Extra["storm_write_delay_injection"] = "strace delay_exit=1500us on write(2)"
	if err != nil {
		r.Extra["storm_write_delay_injection"] = "unavailable (" + clipStr(err.Error(), 120) + "); storm ran without injected delays"
		ch, err = w.StartClient("c14-storm", true, world.InitArg{}, env)
		if err != nil {
			r.Errorf("%v", err)
			return
		}
	}
	defer ch.Kill()
	var mu sync.Mutex
	ids := map[string]uint32{}
	w.TC.AddRule(&faketc.Rule{Name: "c14-storm", Match: func(q *faketc.Req) bool {
		return q.Msg.Type == wire.TGlobalBegin && strings.HasPrefix(q.TxName, "c14storm-")
	}, Do: func(q *faketc.Req) bool {
		mu.Lock()
		ids[q.TxName] = q.Frame.ID
		mu.Unlock()
		q.S.Reply(q.Frame.ID, c14Reply(q))
		return true
	}})
	waves, per := 6, 400
	if r.Tier == "thorough" {
		waves = 30
	}
	for wv := 0; wv < waves; wv++ {
		var names []string
		for i := 0; i < per; i++ {
			names = append(names, fmt.Sprintf("c14storm-%02d/%04d", wv, i))
		}
		var calls []c14Call
		done := make(chan error, 1)
		go func() { done <- ch.Call("rpc_burst", map[string]interface{}{"names": names}, &calls) }()
		select {
		case err := <-done:
			if err != nil {
				r.Inconc("storm wave: " + err.Error())
				return
			}
			if os.Getenv("VERIF_VERBOSE") != "" {
				fmt.Printf("  storm wave %d done at %.1fs\n", wv, time.Since(r.Start).Seconds())
			}
		case <-time.After(120 * time.Second):
			r.Violate(&vc.Violation{Clause: "caller-blocked", Shape: "storm", Features: map[string]string{"script": "storm"}, Detail: "storm wave did not return within 120 s"})
			return
		}
		for _, c := range calls {
			mu.Lock()
			id, reached := ids[c.Name]
			mu.Unlock()
			outcome := "own-response"
			if c.Err != "" {
				outcome = "error"
			}
			shape := "storm|n>64|" + outcome
			if reached {
				r.Case(shape, map[string]interface{}{"scenario": "storm", "caller": c, "frame_id": id})
			} else {
				r.Case("", nil)
			}
			feat := map[string]string{"script": "storm", "n": "n>64"}
			if c.Panic != "" {
				r.Violate(&vc.Violation{Clause: "caller-panic", Shape: shape, Features: feat, Detail: "SendSyncRequest panicked: " + clipStr(c.Panic, 300), Case: c})
				continue
			}
			want := fmt.Sprintf("%s#%d", c.Name, id)
			if c.Err != "" && reached {
				r.Violate(&vc.Violation{Clause: "lost-response", Shape: shape, Features: feat, Detail: fmt.Sprintf("caller %s got error %q after %d ms although the coordinator answered its request at once", c.Name, clipStr(c.Err, 160), c.Ms), Case: c})
			} else if c.Err == "" && c.Xid != want {
				r.Violate(&vc.Violation{Clause: "foreign-response", Shape: shape, Features: feat, Detail: fmt.Sprintf("caller %s received %q, its own response is %q", c.Name, c.Xid, want), Case: c})
			}
		}
	}
}
