package checks

import (
	"fmt"
	"strings"
	"sync"
	"time"

	"verif/faketc"
	mm "verif/minimysql"
	"verif/vc"
	"verif/wire"
)

// C02 — AT phase one is atomic and ordered against the coordinator.
//
// Fault enumeration: every small DML program is first run fault-free to record its journal of database commands and
// coordinator requests; then it is re-run once per (position, fault kind): a database error, a dropped connection
// before or after the command, a refused / failed / unanswered branch registration, a failing branch report.
// Invariants are evaluated on the merged journal + coordinator log of each run.

func init() {
	Registry["C02"] = Check{Level: "fault_enumeration", Fn: runC02}
}

type c02Fault struct {
	Kind  string `json:"kind"`  // none | db-error | drop-before | drop-after | register-conflict | register-fail | register-fail-nocode | register-noreply | report-fail
	Pos   int    `json:"pos"`   // index into the baseline command list of the proxied connection (db faults)
	Code  int    `json:"code"`  // MySQL error number for db-error
	Times int    `json:"times"` // report-fail: how many reports are refused
	What  string `json:"at"`    // baseline command kind at Pos
}

func (f c02Fault) String() string {
	switch f.Kind {
	case "db-error":
		return fmt.Sprintf("db-error(%d)@%d:%s", f.Code, f.Pos, f.What)
	case "drop-before", "drop-after":
		return fmt.Sprintf("%s@%d:%s", f.Kind, f.Pos, f.What)
	case "report-fail":
		return fmt.Sprintf("report-fail x%d after %s@%d", f.Times, f.What, f.Pos)
	}
	return f.Kind
}

func c02Programs(r *vc.Rand, tier string) []*atCase {
	var out []*atCase
	pks := []string{"int", "composite", "autoinc", "varchar"}
	n := 0
	mk := func(pk string, explicit bool, gen func(t *atTable, seq *int) []atStmt) {
		n++
		name := fmt.Sprintf("p%03d", n)
		t := atGenTable(r, name+"t", pk, atSafeKinds, 2, 4, false)
		c := &atCase{Name: name, Feat: map[string]string{"pk": pk}, Tables: []*atTable{t}}
		seq := 0
		c.Groups = []atGroup{{Explicit: explicit, Stmts: gen(t, &seq)}}
		c.DDL = []string{describeTable(t)}
		c.fold()
		out = append(out, c)
	}
	one := atStmtOpts{params: true, rowsClass: "1"}
	many := atStmtOpts{params: true, rowsClass: "many"}
	gens := []func(t *atTable, seq *int) []atStmt{
		func(t *atTable, seq *int) []atStmt { return []atStmt{atGenUpdate(r, t, one)} },
		func(t *atTable, seq *int) []atStmt { return []atStmt{atGenUpdate(r, t, many)} },
		func(t *atTable, seq *int) []atStmt { return []atStmt{atGenDelete(r, t, one)} },
		func(t *atTable, seq *int) []atStmt { return []atStmt{atGenInsert(r, t, one, 1, seq)} },
		func(t *atTable, seq *int) []atStmt { return []atStmt{atGenInsert(r, t, one, 3, seq)} },
		func(t *atTable, seq *int) []atStmt { return []atStmt{atGenUpsert(r, t, one, true, seq)} },
		func(t *atTable, seq *int) []atStmt {
			return []atStmt{atGenUpdate(r, t, one), atGenInsert(r, t, one, 1, seq), atGenDelete(r, t, one)}
		},
	}
	// retry-style code on one pinned connection: statement 1 may fail, statement 2 runs on the same connection
	for pi, pk := range pks {
		if tier != "thorough" && pi%2 == 1 {
			continue
		}
		mk(pk, false, func(t *atTable, seq *int) []atStmt {
			return []atStmt{atGenUpdate(r, t, one), atGenUpdate(r, t, many)}
		})
		last := out[len(out)-1]
		last.Groups[0].Pinned, last.Groups[0].KeepGoing = true, true
		last.Feat["pinned_retry"] = "true"
	}
	for gi, g := range gens {
		for pi, pk := range pks {
			if tier != "thorough" && (gi+pi)%3 != 0 {
				continue
			}
			explicit := (gi+pi)%2 == 1 || gi == 6
			mk(pk, explicit, g)
			if tier == "thorough" {
				mk(pk, !explicit && gi != 6, g)
			}
		}
	}
	return out
}

func runC02(r *vc.Run, replay string) {
	r.Rule = "cases = (program, fault) pairs: small DML programs (UPDATE 1/many rows, DELETE, INSERT 1/many rows, upsert, 3-statement explicit transaction; int/composite/auto-increment/varchar keys; autocommit and explicit-transaction use) are run fault-free to record the baseline journal, then once per position k of that journal with a database error (1205/1213), a connection dropped before / after the k-th command, and with the coordinator refusing the registration (lock conflict, failure result, no reply) or refusing 1..6 branch reports after a failed phase one; oracle: register-reply < undo insert < COMMIT on the same connection with the granted branch id, business rows durable iff undo row durable, error returned and nothing durable on failure, PhaseOne_Failed reported for a registered branch, no pooled connection left idle inside a transaction; distinct_nontrivial = distinct (program shape, fault kind, command kind at the fault) signatures whose fault was actually delivered; crash points: the client process is SIGKILLed just before / right after every command position of 2 (thorough: 10) programs: business rows durable only together with their undo log and only after a granted registration"
	r.Assumptions = []string{"fault positions are those of the fault-free baseline journal of the same program (re-run on a fresh table)", "client crash points: the client process is SIGKILLed just before / right after every command position of 2 (thorough: 10) programs, each crash in a client of its own"}
	rnd := vc.NewRand(r.Seed, "c02")
	progs := c02Programs(rnd, r.Tier)
	// split programs over parallel environments; the 20 s no-reply cases get an environment of their own
	nenv := 4
	var wg sync.WaitGroup
	for e := 0; e < nenv; e++ {
		var mine []*atCase
		for i, p := range progs {
			if i%nenv == e {
				mine = append(mine, p)
			}
		}
		wg.Add(1)
		go func(e int, ps []*atCase) {
			defer wg.Done()
			c02Batch(r, e, ps, false)
		}(e, mine)
	}
	wg.Add(1)
	go func() {
		defer wg.Done()
		k := 2
		if r.Tier == "thorough" {
			k = 6
		}
		if len(progs) < k {
			k = len(progs)
		}
		c02Batch(r, 9, progs[:k], true)
	}()
	wg.Add(1)
	go func() {
		defer wg.Done()
		k := 2
		if r.Tier == "thorough" {
			k = 10
		}
		if len(progs) < k {
			k = len(progs)
		}
		c02Crashes(r, progs[len(progs)-k:])
	}()
	wg.Wait()
	r.Exhaustive = append(r.Exhaustive, "every command position of each program's baseline journal x {error, drop-before, drop-after}")
}

// c02Crashes: the client process is killed (SIGKILL) at every command position of a program, once just before the
// command reaches the database and once right after the database received it. Each crash needs a client of its own.
func c02Crashes(r *vc.Run, progs []*atCase) {
	cfg := atUndoCfg{Serializer: "json", Compress: "None", Validation: true, OnlyCare: true}
	for pi, p := range progs {
		// baseline: number of client commands
		env, err := newATEnv(r, fmt.Sprintf("c02-crash-%d-base", pi), cfg, false, "")
		if err != nil {
			r.Errorf("%v", err)
			return
		}
		c := c02Clone(p, fmt.Sprintf("%s_kb", p.Name))
		env.install(c)
		o := env.runGtx(c, "nil", nil)
		ncmd := 0
		var kinds []string
		if o.CallErr == nil {
			for _, j := range env.db.E.JournalSince(o.StartSeq) {
				if (j.Class == "proxied" || j.Class == "app") && j.Kind != "SET" {
					ncmd++
					kinds = append(kinds, j.Kind)
				}
			}
		}
		env.Close()
		var wg sync.WaitGroup
		sem := make(chan struct{}, 6)
		for pos := 0; pos < ncmd; pos++ {
			for _, when := range []string{"before", "after"} {
				wg.Add(1)
				go func(pos int, when string) {
					defer wg.Done()
					sem <- struct{}{}
					defer func() { <-sem }()
					c02CrashRun(r, cfg, p, pi, pos, when, kinds[pos])
				}(pos, when)
			}
		}
		wg.Wait()
	}
}

func c02CrashRun(r *vc.Run, cfg atUndoCfg, p *atCase, pi, pos int, when, kind string) {
	env, err := newATEnv(r, fmt.Sprintf("c02-crash-%d-%d-%s", pi, pos, when), cfg, false, "")
	if err != nil {
		r.Errorf("%v", err)
		return
	}
	defer env.Close()
	c := c02Clone(p, fmt.Sprintf("%s_k%d%s", p.Name, pos, when[:1]))
	env.install(c)
	pre := env.snap(c)
	var mu sync.Mutex
	n, fired := -1, false
	env.db.E.Inject = func(j *mm.JournalEntry) *mm.Action {
		if (j.Class != "proxied" && j.Class != "app") || j.Kind == "SET" {
			return nil
		}
		mu.Lock()
		defer mu.Unlock()
		n++
		if fired || n != pos {
			return nil
		}
		fired = true
		env.ch.Kill() // SIGKILL: the process is gone while this command is at the database's door
		if when == "before" {
			return &mm.Action{DropBefore: true}
		}
		return nil // the database had received the command: it executes it, the reply goes nowhere
	}
	start := env.w.Clock.Now()
	env.runGtx(c, "nil", nil) // the call is lost with the process
	env.db.E.Inject = nil
	time.Sleep(100 * time.Millisecond) // the database notices the closed connections and rolls open transactions back
	env.db.S.KillAll(nil)
	time.Sleep(20 * time.Millisecond)
	post := env.snap(c)
	journal := env.db.E.JournalSince(start)
	shape := fmt.Sprintf("crash|%s|%s@%s", c.Feat["stmts"], when, kind)
	feat := map[string]string{"fault": "client-killed-" + when, "fault_at": kind}
	for k, v := range c.Feat {
		feat[k] = v
	}
	mu.Lock()
	f := fired
	mu.Unlock()
	if !f {
		r.Case("", nil)
		return
	}
	o := &atOutcome{Journal: journal, TCEvents: env.w.TC.EventsSince(start)}
	r.Case(shape, map[string]interface{}{"case": c, "killed": when + " command " + fmt.Sprint(pos) + " (" + kind + ")", "history": o.history(40)})
	r.Count("client killed "+when+" a command", 1)
	viol := func(clause, detail string) {
		r.Violate(&vc.Violation{Clause: clause, Shape: shape, Features: feat, Detail: detail, Case: c, History: map[string]interface{}{"events": o.history(120)}})
	}
	xid := ""
	for _, g := range env.w.TC.GlobalsByName(c.Name) {
		xid = g.Xid
	}
	for _, ltx := range atLocalTxs(journal, o.TCEvents, xid, map[string]bool{"proxied": true, "app": true}) {
		app, undo := 0, 0
		for _, ch := range ltx.Durable {
			if strings.EqualFold(ch.Table, "undo_log") {
				undo++
			} else {
				app++
			}
		}
		if app > 0 && undo == 0 {
			viol("durable-without-undo-log", fmt.Sprintf("the client was killed %s command %d (%s); a local transaction made %d business row changes durable without an undo log row", when, pos, kind, app))
		}
		if app > 0 && (ltx.RegReply == nil || ltx.RegReply.Seq > ltx.EndSeq) {
			viol("commit-before-registration", fmt.Sprintf("the client was killed %s command %d (%s); business rows became durable in a local transaction whose branch registration was not granted before the COMMIT", when, pos, kind))
		}
	}
	// whatever is durable must be explained by committed local transactions: rows changed outside them
	if d := snapDiff(pre, post); len(d) > 0 {
		explained := false
		for _, j := range journal {
			if len(j.Committed) > 0 {
				explained = true
			}
		}
		if !explained {
			viol("durable-without-commit", fmt.Sprintf("rows differ after the crash although no COMMIT made anything durable: %s", strings.Join(clipList(d, 3), "; ")))
		}
	}
}

func c02Batch(r *vc.Run, e int, progs []*atCase, noReplyOnly bool) {
	cfg := atUndoCfg{Serializer: "json", Compress: "None", Validation: true, OnlyCare: true}
	env, err := newATEnv(r, fmt.Sprintf("c02-%d", e), cfg, r.Tier == "thorough", "")
	if err != nil {
		r.Errorf("%v", err)
		return
	}
	defer env.Close()
	run := 0
	for _, p := range progs {
		// baseline
		run++
		base := c02Run(r, env, p, run, c02Fault{Kind: "none"})
		if base == nil {
			return
		}
		var cmds []*mm.JournalEntry
		for _, j := range base.Journal {
			if (j.Class == "proxied" || j.Class == "app") && j.Kind != "SET" {
				cmds = append(cmds, j)
			}
		}
		var faults []c02Fault
		if noReplyOnly {
			faults = append(faults, c02Fault{Kind: "register-noreply"})
		} else {
			for k, j := range cmds {
				faults = append(faults, c02Fault{Kind: "db-error", Pos: k, Code: []int{1205, 1213}[k%2], What: j.Kind})
				faults = append(faults, c02Fault{Kind: "drop-before", Pos: k, What: j.Kind})
				faults = append(faults, c02Fault{Kind: "drop-after", Pos: k, What: j.Kind})
			}
			// refusals: lock conflict, a coded failure, and a failed result that carries no transaction-exception code
			// (what the coordinator answers when the registration fails with something else than a TransactionException)
			faults = append(faults, c02Fault{Kind: "register-conflict"}, c02Fault{Kind: "register-fail"}, c02Fault{Kind: "register-fail-nocode"})
			// report failing: combine with a failure at the undo insert / commit (a registered branch that then fails)
			for k, j := range cmds {
				if (j.Kind == "INSERT" && strings.EqualFold(j.Table, "undo_log")) || j.Kind == "COMMIT" {
					for _, times := range []int{1, 3, 5, 6} {
						faults = append(faults, c02Fault{Kind: "report-fail", Pos: k, Times: times, What: j.Kind, Code: 1205})
					}
				}
			}
		}
		for _, f := range faults {
			run++
			if c02Run(r, env, p, run, f) == nil {
				return
			}
		}
	}
}

// c02Run executes program p (on a fresh copy of its table) under fault f and judges the run.
func c02Run(r *vc.Run, env *atEnv, p *atCase, run int, f c02Fault) *atOutcome {
	// fresh table name per run so that the metadata cache and leftovers of earlier runs cannot interfere
	c := c02Clone(p, fmt.Sprintf("%s_e%s_%d", p.Name, env.name[len(env.name)-1:], run))
	env.install(c)
	defer env.drop(c)
	delivered := false
	var mu sync.Mutex
	npos := -1
	reportsRefused := 0
	env.db.E.Inject = func(j *mm.JournalEntry) *mm.Action {
		if (j.Class != "proxied" && j.Class != "app") || strings.HasPrefix(strings.ToUpper(strings.TrimSpace(j.SQL)), "SET ") {
			return nil
		}
		mu.Lock()
		defer mu.Unlock()
		npos++
		if delivered || npos != f.Pos {
			return nil
		}
		switch f.Kind {
		case "db-error", "report-fail":
			delivered = true
			msg := "Lock wait timeout exceeded; try restarting transaction"
			if f.Code == 1213 {
				msg = "Deadlock found when trying to get lock; try restarting transaction"
			}
			return &mm.Action{Err: &mm.MyErr{Code: uint16(f.Code), State: "HY000", Msg: msg}}
		case "drop-before":
			delivered = true
			return &mm.Action{DropBefore: true}
		case "drop-after":
			delivered = true
			return &mm.Action{DropAfter: true}
		}
		return nil
	}
	defer func() { env.db.E.Inject = nil }()
	env.w.TC.AddRule(&faketc.Rule{Name: "c02", Match: func(q *faketc.Req) bool { return q.TxName == c.Name }, Do: func(q *faketc.Req) bool {
		switch q.Msg.Type {
		case wire.TBranchRegister:
			switch f.Kind {
			case "register-conflict":
				mu.Lock()
				delivered = true
				mu.Unlock()
				q.ReplyFail("Global lock acquire failed", 2)
				return true
			case "register-fail":
				mu.Lock()
				delivered = true
				mu.Unlock()
				q.ReplyFail("branch register failed by script", 6)
				return true
			case "register-fail-nocode":
				mu.Lock()
				delivered = true
				mu.Unlock()
				q.ReplyFail("branch register failed by script: store unavailable", 0)
				return true
			case "register-noreply":
				mu.Lock()
				delivered = true
				mu.Unlock()
				return true
			}
		case wire.TBranchReport:
			if f.Kind == "report-fail" && q.Msg.I("status") == 3 {
				mu.Lock()
				n := reportsRefused
				reportsRefused++
				mu.Unlock()
				if n < f.Times {
					q.ReplyFail("branch report refused by script", 7)
					return true
				}
			}
		}
		return false
	}})
	defer env.w.TC.ClearRules()
	o := env.runGtx(c, "nil", nil)
	if o.CallErr != nil {
		if !env.ch.Alive() {
			c01Crash(r, env, c)
			return nil
		}
		r.Inconc(c.Name + ": " + o.CallErr.Error())
		r.Case("", nil)
		return o
	}
	time.Sleep(5 * time.Millisecond)
	o.Journal = env.db.E.JournalSince(o.StartSeq)
	o.TCEvents = env.w.TC.EventsSince(o.StartSeq)
	o.Post = env.snap(c)
	if o.Xid != "" {
		o.UndoPost = env.undoRows(o.Xid)
	}
	mu.Lock()
	d := delivered
	mu.Unlock()
	c02Judge(r, env, c, o, f, d || f.Kind == "none")
	if o.Xid != "" {
		env.w.TC.ReleaseLocks(o.Xid)
	}
	return o
}

func isTxControl(sql string) bool {
	u := strings.ToUpper(strings.TrimSpace(sql))
	return strings.HasPrefix(u, "START TRANSACTION") || u == "BEGIN" || u == "COMMIT" || u == "ROLLBACK" || strings.HasPrefix(u, "SAVEPOINT") || strings.HasPrefix(u, "ROLLBACK TO")
}

func c02Clone(p *atCase, name string) *atCase {
	c := &atCase{Name: name, Feat: map[string]string{}}
	for k, v := range p.Feat {
		c.Feat[k] = v
	}
	old := p.Tables[0].Name
	nt := *p.Tables[0]
	nt.Name = name + "t"
	d := *p.Tables[0].Def
	d.Name = nt.Name
	nt.Def = &d
	c.Tables = []*atTable{&nt}
	for _, g := range p.Groups {
		ng := atGroup{Explicit: g.Explicit, Pinned: g.Pinned, KeepGoing: g.KeepGoing}
		for _, s := range g.Stmts {
			s2 := s
			s2.SQL = strings.ReplaceAll(s.SQL, old, nt.Name)
			s2.Table = nt.Name
			ng.Stmts = append(ng.Stmts, s2)
		}
		c.Groups = append(c.Groups, ng)
	}
	c.DDL = []string{describeTable(&nt)}
	return c
}

func c02Judge(r *vc.Run, env *atEnv, c *atCase, o *atOutcome, f c02Fault, delivered bool) {
	feat := map[string]string{}
	for k, v := range c.Feat {
		feat[k] = v
	}
	feat["fault"] = f.Kind
	feat["fault_at"] = f.What
	for _, j := range o.Journal {
		if j.Injected != "" {
			feat["fault_at"] = j.Kind // the command that was really hit
			break
		}
	}
	if f.Kind == "report-fail" {
		feat["report_refusals"] = fmt.Sprint(f.Times)
	}
	shape := featShape(feat)
	if delivered {
		r.Case(shape, map[string]interface{}{"program": c.Groups, "table": c.DDL, "fault": f.String(), "returned": o.Res.Returned, "history": o.history(40)})
		r.Count("faults_delivered:"+f.Kind, 1)
	} else {
		r.Case("", nil)
		r.Count("faults_not_reached", 1)
	}
	viol := func(clause, detail string) {
		r.Violate(&vc.Violation{Clause: clause, Shape: shape, Features: feat, Detail: detail, Case: map[string]interface{}{"program": c, "fault": f},
			History: map[string]interface{}{"steps": o.Res.Steps, "returned": o.Res.Returned, "err": o.Res.Err, "events": o.history(160), "client_log_errors": env.logErrors(10)}})
	}
	def := c.Tables[0].Def
	callerOK := o.Res.Returned == "nil"
	if o.Res.Returned == "panic" {
		viol("panic", "the call panicked: "+clipStr(o.Res.PanicVal, 300))
	}
	txs := atLocalTxs(o.Journal, o.TCEvents, o.Xid, map[string]bool{"proxied": true, "app": true})
	// when the fault struck: local transactions that had committed before it are legitimately durable (a program of
	// several autocommit statements has several branches); only what commits at or after the fault is judged by (c)
	var faultSeq int64
	for _, j := range o.Journal {
		if j.Injected != "" && (faultSeq == 0 || j.Seq < faultSeq) {
			faultSeq = j.Seq
		}
	}
	if strings.HasPrefix(f.Kind, "register-") {
		for _, e := range o.TCEvents {
			if e.Dir == "in" && e.Msg != nil && e.Msg.Type == wire.TBranchRegister && e.Msg.S("xid") == o.Xid && (faultSeq == 0 || e.Seq < faultSeq) {
				faultSeq = e.Seq
			}
		}
	}
	anyDurable := false
	for _, tx := range txs {
		var appRows, undoRows []mm.RowChange
		for _, ch := range tx.Durable {
			if strings.EqualFold(ch.Table, def.Name) {
				appRows = append(appRows, ch)
			} else if strings.EqualFold(ch.Table, "undo_log") && ch.After != nil && mm.TextOf(ch.After[1]) == o.Xid {
				undoRows = append(undoRows, ch)
			}
		}
		if len(appRows) == 0 && len(undoRows) == 0 {
			// a registered branch whose local transaction did not commit must be reported failed
			if tx.RegReply != nil && tx.RegReply.Msg.I("resultCode") == 1 && tx.Ended != "" {
				c02CheckReport(viol, o, tx, f)
			}
			continue
		}
		if len(appRows) > 0 && (faultSeq == 0 || tx.EndSeq >= faultSeq) {
			anyDurable = true
		}
		if tx.Ended == "IMPLICIT" {
			viol("implicit-commit", fmt.Sprintf("%d business rows became durable through an implicit commit (a later START TRANSACTION on a connection left inside a transaction)", len(appRows)))
			continue
		}
		// (b) atomicity
		if len(appRows) > 0 && len(undoRows) == 0 {
			viol("durable-without-undo-log", fmt.Sprintf("%d business rows became durable without an undo_log row of this xid in the same local transaction", len(appRows)))
			continue
		}
		if len(appRows) == 0 && len(undoRows) > 0 && len(tx.Stmts) > 0 {
			changed := 0
			for _, s := range tx.Stmts {
				changed += len(s.Changes)
			}
			if changed > 0 {
				viol("undo-log-without-data", "an undo_log row became durable but the business rows of the same local transaction did not")
			}
		}
		// (a) ordering
		if tx.Register == nil || tx.RegReply == nil {
			viol("commit-without-registration", "business rows became durable without a BranchRegister answered inside that local transaction")
			continue
		}
		if tx.RegReply.Msg.I("resultCode") != 1 {
			viol("commit-after-refused-registration", "the coordinator refused the registration ("+clipStr(tx.RegReply.Text, 100)+") but the local transaction committed")
			continue
		}
		var undoIns *mm.JournalEntry
		for _, u := range tx.UndoIns {
			if u.Err == nil && u.Injected == "" {
				undoIns = u
			}
		}
		if undoIns == nil {
			viol("durable-without-undo-log", "no successful INSERT INTO undo_log inside the committing local transaction")
			continue
		}
		if !(tx.RegReply.Seq < undoIns.Seq && undoIns.SeqOut < tx.EndSeq) {
			viol("wrong-order", fmt.Sprintf("expected register reply (%d) < undo insert (%d) < COMMIT (%d)", tx.RegReply.Seq, undoIns.Seq, tx.EndSeq))
		}
		if len(undoIns.Args) > 0 && mm.TextOf(undoIns.Args[0]) != fmt.Sprint(tx.RegReply.Msg.I("branchId")) {
			viol("wrong-branch-id", fmt.Sprintf("undo_log row carries branch id %s, the coordinator granted %d", mm.TextOf(undoIns.Args[0]), tx.RegReply.Msg.I("branchId")))
		}
	}
	// writes that reached the database outside any proxied local transaction (plain autocommit statements)
	for _, j := range o.Journal {
		if (j.Class == "proxied" || j.Class == "app") && stmtIsDML(j) && strings.EqualFold(j.Table, def.Name) && !j.InTxBefore && len(j.Committed) > 0 {
			viol("unproxied-write", fmt.Sprintf("inside the global transaction a business statement ran in plain autocommit mode on the underlying connection (no local transaction, no branch, no undo log): %s", clipStr(j.SQL, 160)))
			break
		}
	}
	// (c) failure outcome
	if !callerOK && anyDurable && !c02ErrAfterCommit(o, f) && c.Feat["pinned_retry"] != "true" {
		viol("error-but-durable", "the caller got an error ("+clipStr(o.Res.Err, 160)+") but business rows are durable")
	}
	if callerOK && f.Kind != "none" && delivered && strings.HasPrefix(f.Kind, "register-") && c.Feat["pinned_retry"] != "true" {
		viol("refusal-swallowed", "the coordinator did not grant the registration ("+f.Kind+") but the call returned nil")
	}
	if callerOK {
		// success: everything the statements changed must be durable
		changedOK := false
		for _, tx := range txs {
			if tx.Ended == "COMMIT" {
				changedOK = true
			}
		}
		_ = changedOK
	}
	// (e) hygiene: nothing of the proxied pool may sit idle inside a transaction after the call returned
	for _, si := range env.db.E.Sessions() {
		if (si.Class == "proxied" || si.Class == "app") && si.InTx {
			viol("connection-left-in-transaction", fmt.Sprintf("after the call returned, pooled connection %d is idle inside an open transaction holding %d row locks", si.ID, si.Locks))
			env.db.S.Kill(si.ID)
		}
	}
}

// c02ErrAfterCommit: a fault delivered after the COMMIT took effect (connection dropped after executing COMMIT, or a
// fault on a command after the commit) legitimately leaves durable rows together with an error.
func c02ErrAfterCommit(o *atOutcome, f c02Fault) bool {
	if f.Kind == "drop-after" && f.What == "COMMIT" {
		return true
	}
	// the command that was really hit (positions come from a baseline run and may shift by a metadata lookup)
	for _, j := range o.Journal {
		if j.Injected == "drop-after" && j.Kind == "COMMIT" {
			return true
		}
	}
	return false
}

func c02CheckReport(viol func(string, string), o *atOutcome, tx *atLocalTx, f c02Fault) {
	if tx.Ended == "" {
		return
	}
	bid := tx.RegReply.Msg.I("branchId")
	failedReports := 0
	for _, e := range o.TCEvents {
		if e.Dir == "in" && e.Msg != nil && e.Msg.Type == wire.TBranchReport && e.Msg.I("branchId") == bid && e.Msg.I("status") == 3 {
			failedReports++
		}
	}
	if failedReports == 0 {
		viol("no-phase-one-failed-report", fmt.Sprintf("branch %d was registered, its local transaction did not commit (%s), but no BranchReport(PhaseOne_Failed) reached the coordinator", bid, tx.Ended))
	}
	if failedReports > 12 {
		viol("too-many-reports", fmt.Sprintf("%d PhaseOne_Failed reports for branch %d (the report loop is bounded by 5 attempts per failure path)", failedReports, bid))
	}
}
