package checks

import (
	"regexp"
	"fmt"
	"os"
	"strings"
	"sync"

	"verif/vc"
)

// C01 — AT global rollback restores every row the transaction touched.
//
// Real client (AT proxy driver + TM + RM) against the fake MySQL and the fake TC. The business function runs a
// generated DML program and fails; the real TM asks for a global rollback; the fake TC then sends BranchRollback for
// every registered branch. Oracle (model-free): committed application tables after the rollback round equal the
// snapshot taken before the global transaction, no undo_log row of the xid remains, and 'rollbacked' is answered iff
// that is the case.

func init() {
	Registry["C01"] = Check{Level: "exploration", Fn: runC01}
}

var c01PKKinds = []string{"int", "autoinc", "composite", "varchar", "composite3", "composite_txt", "varchar_colon"}

func c01GenCase(r *vc.Rand, idx int, kinds []string, prefix string) *atCase {
	c := &atCase{Name: fmt.Sprintf("%s%04d", prefix, idx), Feat: map[string]string{}}
	pk := c01PKKinds[r.Intn(len(c01PKKinds))]
	if r.Intn(4) == 0 {
		pk += "+uq" // plus a secondary unique index
	}
	nullable := r.Bool()
	t := atGenTable(r, fmt.Sprintf("%s%04dt", prefix, idx), pk, kinds, 2+r.Intn(3), 3+r.Intn(4), nullable)
	c.Tables = []*atTable{t}
	c.Feat["pk"] = pk
	c.Feat["nullable"] = fmt.Sprint(nullable)
	ks := map[string]bool{}
	for _, k := range t.Kinds {
		if k != "pk" {
			ks[k] = true
		}
	}
	var kl []string
	for k := range ks {
		kl = append(kl, k)
	}
	sortStrings(kl)
	c.Feat["col_kinds"] = strings.Join(kl, "+")
	for _, k := range []string{"ubigint", "blob", "varbinary", "float", "decimal"} {
		c.Feat["has_"+k] = fmt.Sprint(ks[k])
	}
	ngroups := 1 + r.Intn(3)
	seq := 0
	for g := 0; g < ngroups; g++ {
		grp := atGroup{Explicit: r.Intn(3) == 0}
		ns := 1
		if grp.Explicit {
			ns = 1 + r.Intn(3)
		}
		if g == 0 && grp.Explicit && r.Intn(3) == 0 {
			// "insert, on duplicate key do something else": the local transaction goes on after a failed INSERT
			grp.Stmts = append(grp.Stmts, atGenDuplicateInsert(r, t))
			if ns < 2 {
				ns = 2
			}
		}
		for k := 0; k < ns; k++ {
			o := atStmtOpts{params: r.Intn(4) != 0, rowsClass: []string{"1", "1", "many", "0"}[r.Intn(4)]}
			choice := r.Intn(6)
			if r.Intn(10) == 0 {
				// several statements in one text (multiStatements=true)
				choice = 6 + r.Intn(2)
			}
			switch choice {
			case 6:
				grp.Stmts = append(grp.Stmts, atGenMulti(r, t, "update"))
			case 7:
				grp.Stmts = append(grp.Stmts, atGenMulti(r, t, "delete"))
			case 0, 1:
				if st, ok := atGenNearUpdate(r, t); ok && r.Intn(4) == 0 {
					grp.Stmts = append(grp.Stmts, st)
				} else {
					grp.Stmts = append(grp.Stmts, atGenUpdate(r, t, o))
				}
			case 2:
				grp.Stmts = append(grp.Stmts, atGenDelete(r, t, o))
			case 3:
				o.shuffleCols = r.Bool()
				o.mixedArgs = r.Intn(3) == 0
				grp.Stmts = append(grp.Stmts, atGenInsert(r, t, o, 1, &seq))
			case 4:
				o.shuffleCols = r.Bool()
				o.mixedArgs = r.Intn(3) == 0
				grp.Stmts = append(grp.Stmts, atGenInsert(r, t, o, 2+r.Intn(2), &seq))
			case 5:
				o.nullThenUqHit = t.Uniq >= 0 && r.Intn(3) == 0
				if r.Intn(3) == 0 || o.nullThenUqHit {
					grp.Stmts = append(grp.Stmts, atGenUpsertMulti(r, t, o, &seq))
				} else {
					grp.Stmts = append(grp.Stmts, atGenUpsert(r, t, o, r.Bool(), &seq))
				}
			}
		}
		c.Groups = append(c.Groups, grp)
	}
	c.DDL = []string{describeTable(t)}
	c.fold()
	return c
}

func sortStrings(x []string) {
	for i := 1; i < len(x); i++ {
		for j := i; j > 0 && x[j] < x[j-1]; j-- {
			x[j], x[j-1] = x[j-1], x[j]
		}
	}
}

func runC01(r *vc.Run, replay string) {
	r.Rule = "cases = generated (schema, rows, DML program, undo configuration, delivery) tuples run through the real AT proxy inside a global transaction whose business function fails; schemas: int / auto-increment / composite (key order != column order) / varchar / 3-column keys, nullable columns, value columns of the supported types; programs: 1-3 branches (autocommit statements or explicit local transactions with 1-3 statements) of INSERT single/multi-row, UPDATE, DELETE, INSERT..ON DUPLICATE KEY UPDATE (hit/miss) with bound parameters or literals matching 0/1/many rows; oracle: committed tables after the coordinator's rollback round == snapshot before the global transaction, no undo_log row of the xid left, and all branches answered Rollbacked iff so; distinct_nontrivial = distinct feature signatures of cases in which at least one branch was registered and a BranchRollback was answered"
	r.Assumptions = []string{"MySQL is harness/minimysql (wire-protocol fake with its own conformance tests): InnoDB-specific behaviour is not modelled",
		"no foreign writer touches the rows (that is C09)"}
	cfgs := []atUndoCfg{
		{Serializer: "json", Compress: "None", Validation: true, OnlyCare: true},
		{Serializer: "json", Compress: "None", Validation: true, OnlyCare: false, Loc: "America/Bogota"},
		{Serializer: "json", Compress: "None", Validation: false, OnlyCare: true},
		{Serializer: "json", Compress: "Gzip", CompressOn: true, Validation: true, OnlyCare: false, Threshold: "1"},
	}
	n := 120
	if r.Tier == "thorough" {
		n = 600
		for _, ser := range []string{"json", "protobuf"} {
			for _, comp := range []string{"None", "Gzip", "Zip", "Bzip2", "Lz4", "Deflate", "Zstd"} {
				cfgs = append(cfgs, atUndoCfg{Serializer: ser, Compress: comp, CompressOn: comp != "None", Validation: true, OnlyCare: ser == "json", Threshold: "1", Loc: map[bool]string{true: "America/Bogota", false: ""}[comp == "Zip" || comp == "None"]})
			}
		}
	}
	if v := os.Getenv("VERIF_DEV_N"); v != "" {
		fmt.Sscanf(v, "%d", &n)
	}
	var wg sync.WaitGroup
	sem := make(chan struct{}, 8)
	for ci, cfg := range cfgs {
		wg.Add(1)
		sem <- struct{}{}
		go func(ci int, cfg atUndoCfg) {
			defer wg.Done()
			defer func() { <-sem }()
			c01Batch(r, ci, cfg, n)
		}(ci, cfg)
	}
	wg.Wait()
}

func c01Batch(r *vc.Run, ci int, cfg atUndoCfg, n int) {
	env, err := newATEnv(r, fmt.Sprintf("c01-%d", ci), cfg, r.Tier == "thorough", "")
	if err != nil {
		r.Errorf("%v", err)
		return
	}
	defer env.Close()
	rnd := vc.NewRand(r.Seed, fmt.Sprintf("c01-%d", ci))
	for i := 0; i < n; i++ {
		kinds := atSafeKinds
		if i%3 == 2 && os.Getenv("VERIF_DEV_SAFE") == "" {
			kinds = atAllKinds
		}
		if k := os.Getenv("VERIF_DEV_KINDS"); k != "" {
			kinds = strings.Split(k, ",")
		}
		c := c01GenCase(rnd, i, kinds, fmt.Sprintf("a%d_", ci))
		c.Feat["cfg"] = cfg.String()
		delivery := "immediate"
		if i%4 == 3 {
			delivery = "after-foreign-commits"
		}
		c.Feat["delivery"] = delivery
		env.install(c)
		o := env.runGtx(c, "error", nil)
		if o.CallErr != nil {
			if !env.ch.Alive() {
				c01Crash(r, env, c)
				return
			}
			r.Inconc(c.Name + ": " + o.CallErr.Error())
			r.Case("", nil)
			env.drop(c)
			continue
		}
		if delivery == "after-foreign-commits" {
			// unrelated committed local transactions on other rows before phase two is delivered
			ft := fmt.Sprintf("a%d_%04df", ci, i)
			other := atGenTable(rnd, ft, "int", atSafeKinds, 2, 2, false)
			env.db.E.CreateTable(other.Def)
			env.db.E.Load(ft, other.Rows)
			var dummy scopeResult
			env.ch.Call("gtx", &gtxScope{Name: c.Name + "-foreign", NoGtx: true, Outcome: "nil", Label: "foreign", Steps: []gtxStep{
				{Op: "exec", DB: "plain", SQL: fmt.Sprintf("update %s set c0 = c0 where id = 1", ft)},
				{Op: "exec", DB: "plain", SQL: fmt.Sprintf("delete from %s where id = 2", ft)},
			}}, &dummy)
			defer env.db.E.DropTable(ft)
		}
		env.phaseTwo(c, o, false, 1)
		c01Judge(r, env, c, o)
		for _, s := range env.sweep() {
			r.Count("swept_open_transactions", 1)
			_ = s
		}
		env.drop(c)
		if !env.ch.Alive() {
			c01Crash(r, env, c)
			return
		}
	}
}

func c01Crash(r *vc.Run, env *atEnv, c *atCase) {
	txt, inSeata, found := env.ch.PanicInfo()
	if found && inSeata {
		r.Violate(&vc.Violation{Clause: "client-crash", Shape: c.shape(), Features: c.Feat, Detail: "client process died from a panic inside seata-go during case " + c.Name + ": " + clipStr(txt, 1500), Case: c})
		return
	}
	r.Errorf("client child died during %s: %s", c.Name, clipStr(env.ch.LogTail(1500), 1500))
}

var reDigits = regexp.MustCompile(`[0-9]+`)

func c01Judge(r *vc.Run, env *atEnv, c *atCase, o *atOutcome) {
	shape := c.shape()
	st := o.p2Statuses()
	answered := 0
	allRollbacked := len(st) > 0
	for _, s := range st {
		if s >= 0 {
			answered++
		}
		if s != 8 {
			allRollbacked = false
		}
	}
	steps := []string{}
	for _, s := range o.Res.Steps {
		x := s.Op
		if s.Err != "" {
			x += ":ERR " + clipStr(s.Err, 100)
		}
		if s.Panic != "" {
			x += ":PANIC " + clipStr(s.Panic, 100)
		}
		steps = append(steps, x)
	}
	sample := map[string]interface{}{"case": c, "branches": len(o.Branches), "rollback_statuses": st, "steps": steps, "history": o.history(60)}
	if len(o.Branches) > 0 && answered > 0 {
		r.Case(shape, sample)
	} else {
		r.Case("", nil)
	}
	r.Count("branches_registered", int64(len(o.Branches)))
	r.Count("branch_rollbacks_answered", int64(answered))
	// which statement forms were accepted and which were refused (a form that is always refused is not being tested)
	var flat []atStmt
	for _, g := range c.Groups {
		flat = append(flat, g.Stmts...)
	}
	k := 0
	for _, s := range o.Res.Steps {
		if s.Op != "exec" || s.Skipped {
			continue
		}
		if k < len(flat) {
			form := flat[k].Feat["stmt"]
			if u := flat[k].Feat["upsert"]; u != "" {
				form += "-" + u
			}
			if ic := flat[k].Feat["insert_cols"]; ic == "shuffled" {
				form += "-shuffled-columns"
			}
			if s.Err != "" || s.Panic != "" {
				r.Count("statement refused: "+form+": "+clipStr(reDigits.ReplaceAllString(s.Err+s.Panic, "N"), 60), 1)
			} else {
				r.Count("statement accepted: "+form, 1)
			}
		}
		k++
	}
	viol := func(clause, detail string) {
		r.Violate(&vc.Violation{Clause: clause, Shape: shape, Features: c.Feat, Detail: detail, Case: c,
			History: map[string]interface{}{"steps": o.Res.Steps, "returned": o.Res.Returned, "err": o.Res.Err, "rollback_statuses": st, "events": o.history(200), "undo_rows_left": o.UndoPost, "client_log_errors": env.logErrors(30)}})
	}
	if o.Res.Returned == "panic" {
		viol("panic-escaped", "a panic escaped WithGlobalTx: "+clipStr(o.Res.PanicVal, 300))
	}
	diff := snapDiff(o.Pre, o.Post)
	// a 'global finished' marker (status 1) for a branch that never wrote an undo log is the designed guard against a
	// late phase one (C10), not a left-over undo log
	hadLog := map[string]bool{}
	for _, u := range o.UndoMid {
		hadLog[strings.Fields(u)[0]] = true
	}
	var left []string
	for _, u := range o.UndoPost {
		if strings.HasSuffix(u, "status=1") && !hadLog[strings.Fields(u)[0]] {
			continue
		}
		left = append(left, u)
	}
	o.UndoPost = left
	restored := len(diff) == 0 && len(o.UndoPost) == 0
	if len(o.Branches) == 0 {
		// nothing was registered: then nothing may have been committed either
		if len(diff) > 0 {
			viol("committed-without-branch", fmt.Sprintf("no branch was registered but committed data changed: %s", strings.Join(clipList(diff, 4), "; ")))
		}
		return
	}
	if allRollbacked && !restored {
		if len(diff) > 0 {
			viol("rollbacked-but-not-restored", fmt.Sprintf("every branch answered Rollbacked but %d rows differ from the state before the global transaction: %s", len(diff), strings.Join(clipList(diff, 4), "; ")))
		} else {
			viol("rollbacked-but-undo-log-left", fmt.Sprintf("every branch answered Rollbacked but undo_log rows remain: %v", o.UndoPost))
		}
	}
	if !allRollbacked {
		// no foreign writer, healthy database: the rollback must succeed
		viol("rollback-not-achieved", fmt.Sprintf("branch rollback statuses %v (8 = Rollbacked, -1 = no answer) on a healthy database without foreign writes; rows differing from the pre-state: %d, undo rows left: %d", st, len(diff), len(o.UndoPost)))
	}
}

func clipList(x []string, n int) []string {
	if len(x) > n {
		return append(x[:n:n], fmt.Sprintf("… %d more", len(x)-n))
	}
	return x
}
