// Package checks holds one file per property: generator, workload script, oracle.
package checks

import (
	"os"

	"verif/vc"
)

type Check struct {
	Level string
	Fn    func(r *vc.Run, replay string)
}

var Registry = map[string]Check{}

func osGetenv(k string) string { return os.Getenv(k) }
