package checks

import (
	"encoding/hex"
	"fmt"
	"math"
	"sort"
	"strconv"
	"strings"
	"time"

	mm "verif/minimysql"
	"verif/vc"
)

// Shared machinery of the AT-mode checks (C01 C02 C03 C09 C10 C11 C16 C18): schema / row / statement generators
// with shape features, and the translation of a generated program into the client's step language.

// ---------- typed values ----------

func tvOf(v interface{}) tval {
	switch x := v.(type) {
	case nil:
		return tval{T: "null"}
	case int:
		return tval{T: "i64", V: strconv.Itoa(x)}
	case int64:
		return tval{T: "i64", V: strconv.FormatInt(x, 10)}
	case uint64:
		return tval{T: "u64", V: strconv.FormatUint(x, 10)}
	case float64:
		return tval{T: "f64", V: strconv.FormatFloat(x, 'g', -1, 64)}
	case float32:
		return tval{T: "f32", V: strconv.FormatFloat(float64(x), 'g', -1, 32)}
	case string:
		return tval{T: "str", V: x}
	case []byte:
		return tval{T: "bytes", V: hex.EncodeToString(x)}
	case time.Time:
		return tval{T: "time", V: x.UTC().Format(time.RFC3339Nano)}
	case bool:
		return tval{T: "bool", V: strconv.FormatBool(x)}
	}
	return tval{T: "str", V: fmt.Sprint(v)}
}

// ---------- columns ----------

type colKind struct {
	name string // feature name
	mk   func(name string) mm.Column
	gen  func(r *vc.Rand) interface{} // non-null value
}

var atColKinds = map[string]colKind{
	"int": {"int", func(n string) mm.Column { return mm.Column{Name: n, T: mm.TInt, Bits: 32, ColType: "int(11)"} },
		func(r *vc.Rand) interface{} {
			return []int64{0, 1, -1, 7, 42, 1000, math.MaxInt32, math.MinInt32}[r.Intn(8)] + int64(r.Intn(3))*0
		}},
	"bigint": {"bigint", func(n string) mm.Column { return mm.Column{Name: n, T: mm.TInt, Bits: 64, ColType: "bigint(20)"} },
		func(r *vc.Rand) interface{} {
			return []int64{0, 5, -9, 1 << 40, 1<<53 + 1, math.MaxInt64, math.MinInt64, 123456789, 1 << 53, 1<<53 + 2}[r.Intn(10)]
		}},
	"tinyint": {"tinyint", func(n string) mm.Column { return mm.Column{Name: n, T: mm.TInt, Bits: 8, ColType: "tinyint(4)"} },
		func(r *vc.Rand) interface{} { return int64(r.Intn(256) - 128) }},
	"ubigint": {"ubigint", func(n string) mm.Column {
		return mm.Column{Name: n, T: mm.TInt, Bits: 64, Unsigned: true, ColType: "bigint(20) unsigned"}
	}, func(r *vc.Rand) interface{} { return []uint64{0, 1, 1 << 63, math.MaxUint64, 99}[r.Intn(5)] }},
	"varchar": {"varchar", func(n string) mm.Column { return mm.Column{Name: n, T: mm.TChar, Len: 64, ColType: "varchar(64)"} },
		func(r *vc.Rand) interface{} {
			return []string{"alice", "bob", "", "it's", "a b", "名前", "x\\y", "100", "{\"k\":1}", "Zed-9", "q?", "50%"}[r.Intn(12)]
		}},
	"varchar_num": {"varchar_num", func(n string) mm.Column { return mm.Column{Name: n, T: mm.TChar, Len: 64, ColType: "varchar(64)"} },
		func(r *vc.Rand) interface{} {
			return []string{"007", "7", "1e3", "1000", "1000.0", "4000123412349999001", "4000123412349999002", "0x10", "-0", "0", " 12", "12"}[r.Intn(12)]
		}},
	"varchar_b64": {"varchar_b64", func(n string) mm.Column { return mm.Column{Name: n, T: mm.TChar, Len: 64, ColType: "varchar(64)"} },
		func(r *vc.Rand) interface{} { return []string{"test", "AQID", "abcd", "YWJj", "Zm9v"}[r.Intn(5)] }},
	"text": {"text", func(n string) mm.Column { return mm.Column{Name: n, T: mm.TChar, DataType: "text", ColType: "text"} },
		func(r *vc.Rand) interface{} { return strings.Repeat("lorem ipsum ", 1+r.Intn(30)) }},
	// character types that the AT image builder scans into raw bytes (everything outside its VARCHAR/CHAR/TEXT case)
	"mediumtext": {"mediumtext", func(n string) mm.Column {
		return mm.Column{Name: n, T: mm.TChar, DataType: "mediumtext", ColType: "mediumtext"}
	},
		func(r *vc.Rand) interface{} {
			return []string{"draft", "", "名前 text", strings.Repeat("medium ", 1+r.Intn(20)), "AQID"}[r.Intn(5)]
		}},
	"enum": {"enum", func(n string) mm.Column {
		return mm.Column{Name: n, T: mm.TChar, DataType: "enum", ColType: "enum('draft','open','closed')"}
	}, func(r *vc.Rand) interface{} { return []string{"draft", "open", "closed"}[r.Intn(3)] }},
	// the column of a secondary unique index (see atGenTable, key shapes ending in "+uq"): nullable, values far apart
	"uq": {"uq", func(n string) mm.Column { return mm.Column{Name: n, T: mm.TInt, Bits: 64, Nullable: true, ColType: "bigint(20)"} },
		func(r *vc.Rand) interface{} { return int64(1000000 + r.Intn(900000000)) }},
	"double": {"double", func(n string) mm.Column { return mm.Column{Name: n, T: mm.TDouble, ColType: "double"} },
		func(r *vc.Rand) interface{} {
			return []float64{0, 1.5, -2.25, 1e-300, 1e300, 3.141592653589793, 100}[r.Intn(7)]
		}},
	"float": {"float", func(n string) mm.Column { return mm.Column{Name: n, T: mm.TFloat, ColType: "float"} },
		func(r *vc.Rand) interface{} { return []float64{0, 1.5, -2.25, 0.1, 16777216}[r.Intn(5)] }},
	"decimal": {"decimal", func(n string) mm.Column {
		return mm.Column{Name: n, T: mm.TDecimal, Len: 12, Scale: 2, ColType: "decimal(12,2)"}
	}, func(r *vc.Rand) interface{} {
		return []string{"0.00", "12.30", "-99.99", "1234567890.12", "5.50"}[r.Intn(5)]
	}},
	"datetime6": {"datetime6", func(n string) mm.Column { return mm.Column{Name: n, T: mm.TDateTime, Fsp: 6, ColType: "datetime(6)"} },
		func(r *vc.Rand) interface{} {
			return time.Date(2020+r.Intn(5), time.Month(1+r.Intn(12)), 1+r.Intn(28), r.Intn(24), r.Intn(60), r.Intn(60), r.Intn(1000000)*1000, time.UTC)
		}},
	"datetime": {"datetime", func(n string) mm.Column { return mm.Column{Name: n, T: mm.TDateTime, Fsp: 0, ColType: "datetime"} },
		func(r *vc.Rand) interface{} {
			return time.Date(2020+r.Intn(5), time.Month(1+r.Intn(12)), 1+r.Intn(28), r.Intn(24), r.Intn(60), r.Intn(60), 0, time.UTC)
		}},
	"date": {"date", func(n string) mm.Column { return mm.Column{Name: n, T: mm.TDate, ColType: "date"} },
		func(r *vc.Rand) interface{} {
			return time.Date(2020+r.Intn(5), time.Month(1+r.Intn(12)), 1+r.Intn(28), 0, 0, 0, 0, time.UTC)
		}},
	"timestamp3": {"timestamp3", func(n string) mm.Column { return mm.Column{Name: n, T: mm.TTimestamp, Fsp: 3, ColType: "timestamp(3)"} },
		func(r *vc.Rand) interface{} {
			return time.Date(2020+r.Intn(5), time.Month(1+r.Intn(12)), 1+r.Intn(28), r.Intn(24), r.Intn(60), r.Intn(60), r.Intn(1000)*1000000, time.UTC)
		}},
	"blob": {"blob", func(n string) mm.Column { return mm.Column{Name: n, T: mm.TBin, DataType: "blob", ColType: "blob"} },
		func(r *vc.Rand) interface{} {
			return [][]byte{{0, 1, 2, 0xff}, {}, []byte("plain"), {0x27, 0x5c, 0x00}}[r.Intn(4)]
		}},
	"varbinary": {"varbinary", func(n string) mm.Column {
		return mm.Column{Name: n, T: mm.TBin, Len: 64, DataType: "varbinary", ColType: "varbinary(64)"}
	},
		func(r *vc.Rand) interface{} {
			return [][]byte{{9, 8, 7}, []byte("bin"), {0xde, 0xad, 0xbe, 0xef}}[r.Intn(3)]
		}},
}

// value column kinds the plain workloads draw from ("safe" = no catalogue defect is known for them on this tree)
var atSafeKinds = []string{"int", "bigint", "varchar", "double", "datetime6", "datetime", "date"}
var atAllKinds = []string{"int", "bigint", "tinyint", "ubigint", "varchar", "varchar_b64", "text", "double", "float", "decimal", "datetime6", "datetime", "date", "timestamp3", "blob", "varbinary", "mediumtext", "enum"}

// ---------- tables ----------

type atTable struct {
	Name   string
	Uniq   int    // column index of the secondary unique index's column, -1 if the table has none
	PKKind string // int | autoinc | composite | varchar | composite3
	Def    *mm.Table
	Kinds  []string        // column kind per column
	Rows   [][]interface{} // initial rows (typed for Load)
}

func (t *atTable) pkCols() []string {
	var out []string
	for _, i := range t.Def.PK {
		out = append(out, t.Def.Cols[i].Name)
	}
	return out
}

func (t *atTable) isPK(i int) bool {
	for _, p := range t.Def.PK {
		if p == i {
			return true
		}
	}
	return false
}

// atGenTable builds a table of the given pk kind with nv value columns drawn from kinds.
func atGenTable(r *vc.Rand, name, pkKind string, kinds []string, nv, nrows int, nullable bool) *atTable {
	withUq := strings.HasSuffix(pkKind, "+uq")
	pkKind = strings.TrimSuffix(pkKind, "+uq")
	t := &atTable{Name: name, PKKind: pkKind, Def: &mm.Table{Name: name}, Uniq: -1}
	add := func(c mm.Column, kind string) int {
		t.Def.Cols = append(t.Def.Cols, c)
		t.Kinds = append(t.Kinds, kind)
		return len(t.Def.Cols) - 1
	}
	switch pkKind {
	case "int":
		t.Def.PK = []int{add(mm.Column{Name: "id", T: mm.TInt, Bits: 64, ColType: "bigint(20)"}, "pk")}
	case "autoinc":
		t.Def.PK = []int{add(mm.Column{Name: "id", T: mm.TInt, Bits: 64, AutoInc: true, ColType: "bigint(20)"}, "pk")}
	case "varchar":
		t.Def.PK = []int{add(mm.Column{Name: "code", T: mm.TChar, Len: 32, ColType: "varchar(32)"}, "pk")}
	case "varchar_colon":
		// key values that contain the separator between table name and keys of the lock-key text
		t.Def.PK = []int{add(mm.Column{Name: "mac", T: mm.TChar, Len: 32, ColType: "varchar(32)"}, "pk")}
	case "composite_txt":
		// two text parts whose values run into each other when glued together without a separator
		a := add(mm.Column{Name: "t1", T: mm.TChar, Len: 8, ColType: "varchar(8)"}, "pk")
		b := add(mm.Column{Name: "t2", T: mm.TChar, Len: 8, ColType: "varchar(8)"}, "pk")
		t.Def.PK = []int{a, b}
	case "binary":
		// byte-valued key (the usual shape of UUID keys)
		t.Def.PK = []int{add(mm.Column{Name: "bk", T: mm.TBin, Len: 16, DataType: "varbinary", ColType: "varbinary(16)"}, "pk")}
	}
	var vcols []int
	for i := 0; i < nv; i++ {
		k := kinds[r.Intn(len(kinds))]
		c := atColKinds[k].mk(fmt.Sprintf("c%d", i))
		c.Nullable = nullable && r.Intn(3) != 0
		vcols = append(vcols, add(c, k))
	}
	if withUq {
		// a secondary unique index on a nullable column: an upsert can hit a row through it under another primary key
		c := atColKinds["uq"].mk("uq")
		t.Uniq = add(c, "uq")
		t.Def.Uniques = [][]int{{t.Uniq}}
		t.Def.UniqueN = []string{"uq_idx"}
		t.PKKind = pkKind + "+uq"
	}
	switch pkKind {
	case "composite":
		// key order (k1,k2) differs from column order (… k2 … k1)
		k2 := add(mm.Column{Name: "k2", T: mm.TChar, Len: 16, ColType: "varchar(16)"}, "pk")
		k1 := add(mm.Column{Name: "k1", T: mm.TInt, Bits: 64, ColType: "bigint(20)"}, "pk")
		t.Def.PK = []int{k1, k2}
	case "composite3":
		a := add(mm.Column{Name: "ka", T: mm.TInt, Bits: 32, ColType: "int(11)"}, "pk")
		b := add(mm.Column{Name: "kb", T: mm.TInt, Bits: 64, ColType: "bigint(20)"}, "pk")
		c := add(mm.Column{Name: "kc", T: mm.TChar, Len: 8, ColType: "varchar(8)"}, "pk")
		t.Def.PK = []int{c, a, b}
	}
	for i := 0; i < nrows; i++ {
		row := make([]interface{}, len(t.Def.Cols))
		for ci, c := range t.Def.Cols {
			switch {
			case t.Kinds[ci] == "pk":
				switch c.Name {
				case "id", "k1", "kb":
					row[ci] = int64(i + 1)
				case "code":
					row[ci] = fmt.Sprintf("K%02d", i+1)
				case "bk":
					row[ci] = []byte(fmt.Sprintf("b%02dz", i+1))
				case "mac":
					row[ci] = fmt.Sprintf("aa:bb:%02d", i+1)
				case "t1", "t2":
					// rows 2p and 2p+1: (x, yz) and (xy, z)
					x, y, z := string(rune('a'+i/2)), string(rune('b'+i/2)), string(rune('c'+i/2))
					pair := [][2]string{{x, y + z}, {x + y, z}}[i%2]
					row[ci] = pair[map[string]int{"t1": 0, "t2": 1}[c.Name]]
				case "k2", "kc":
					row[ci] = []string{"a", "b", "x"}[i%3]
				case "ka":
					row[ci] = int64(10 * (i + 1))
				}
			default:
				if t.Kinds[ci] == "uq" {
					row[ci] = int64(100 + i)
					if i == nrows-1 && nrows > 2 {
						row[ci] = nil
					}
				} else if c.Nullable && r.Intn(5) == 0 {
					row[ci] = nil
				} else {
					row[ci] = atColKinds[t.Kinds[ci]].gen(r)
				}
			}
		}
		t.Rows = append(t.Rows, row)
	}
	return t
}

// ---------- statements ----------

type atStmt struct {
	Kind  string            `json:"kind"` // insert update delete upsert select_for_update
	SQL   string            `json:"sql"`
	Args  []tval            `json:"args,omitempty"`
	Table string            `json:"table"`
	Feat  map[string]string `json:"features"`
	// the program expects this statement to fail and carries on after it (insert, on duplicate do something else)
	Tolerated bool `json:"failure_tolerated,omitempty"`
}

// atGenDuplicateInsert: a single-row INSERT of a row that exists already (bound arguments): fails with a duplicate key.
func atGenDuplicateInsert(r *vc.Rand, t *atTable) atStmt {
	row := t.Rows[r.Intn(len(t.Rows))]
	var cols, ph []string
	var args []tval
	for ci, c := range t.Def.Cols {
		cols = append(cols, c.Name)
		ph = append(ph, "?")
		args = append(args, tvOf(row[ci]))
	}
	return atStmt{Kind: "insert", Table: t.Name, SQL: fmt.Sprintf("insert into %s (%s) values (%s)", t.Name, strings.Join(cols, ", "), strings.Join(ph, ", ")), Args: args, Tolerated: true,
		Feat: map[string]string{"stmt": "insert-duplicate-key", "params": "true", "rows": "1"}}
}

func pkWhere(t *atTable, row []interface{}, useParams bool) (string, []tval) {
	var conds []string
	var args []tval
	// deliberately in COLUMN order, not key order
	for ci := range t.Def.Cols {
		if !t.isPK(ci) {
			continue
		}
		c := t.Def.Cols[ci]
		if useParams {
			conds = append(conds, c.Name+" = ?")
			args = append(args, tvOf(row[ci]))
		} else {
			conds = append(conds, c.Name+" = "+sqlLit(row[ci]))
		}
	}
	return strings.Join(conds, " and "), args
}

func sqlLit(v interface{}) string {
	switch x := v.(type) {
	case nil:
		return "NULL"
	case int64:
		return strconv.FormatInt(x, 10)
	case uint64:
		return strconv.FormatUint(x, 10)
	case float64:
		return strconv.FormatFloat(x, 'g', -1, 64)
	case string:
		return "'" + strings.ReplaceAll(strings.ReplaceAll(x, "\\", "\\\\"), "'", "''") + "'"
	case []byte:
		return "x'" + hex.EncodeToString(x) + "'"
	case time.Time:
		return "'" + x.Format("2006-01-02 15:04:05.000000") + "'"
	}
	return fmt.Sprint(v)
}

// upsertSetCols: the columns an ON DUPLICATE KEY UPDATE list may assign: the value columns without the unique
// index's column, or exactly that column.
func (t *atTable) upsertSetCols(assignUq bool) []int {
	if assignUq && t.Uniq >= 0 {
		return []int{t.Uniq}
	}
	var out []int
	for _, ci := range t.valueCols() {
		if ci != t.Uniq {
			out = append(out, ci)
		}
	}
	return out
}

func (t *atTable) valueCols() []int {
	var out []int
	for ci := range t.Def.Cols {
		if t.Kinds[ci] != "pk" {
			out = append(out, ci)
		}
	}
	return out
}

type atStmtOpts struct {
	params      bool   // bound parameters (false: literals)
	rowsClass   string // "0" "1" "many"
	shuffleCols bool   // INSERT: column list in another order than the table's
	assignUq    bool   // upsert: the ON DUPLICATE KEY UPDATE list assigns the column of the secondary unique index
	assignPk    bool   // upsert: the update list also says <key column> = VALUES(<key column>)
	// multi-row upsert: the first value group is a new row with NULL in the unique index's column, the second one finds
	// an existing row through that index
	nullThenUqHit bool
	// INSERT: every value of the VALUES list is, independently, a literal or a bound argument
	mixedArgs bool
	// UPDATE / INSERT: nullable columns get NULL half of the time (instead of one time in six)
	nullBias bool
}

// atGenNearUpdate: UPDATE of one row that moves one DOUBLE or BIGINT column to a neighbouring value (next float, a
// relative step of 1e-9, +1 on a large integer) and touches nothing else: the images of the statement differ in that
// one column only, and only slightly. ok is false when the table has no such column with a value.
func atGenNearUpdate(r *vc.Rand, t *atTable) (atStmt, bool) {
	for _, ri := range r.Perm(len(t.Rows)) {
		row := t.Rows[ri]
		for _, ci := range t.valueCols() {
			var nv interface{}
			switch v := row[ci].(type) {
			case float64:
				if t.Kinds[ci] != "double" {
					continue
				}
				switch r.Intn(3) {
				case 0:
					nv = math.Nextafter(v, math.Inf(1))
				case 1:
					nv = v + math.Abs(v)*1e-9
				default:
					nv = v*(1+1e-9) + 1e-9
				}
				if nv == v {
					nv = math.Nextafter(v, math.Inf(1))
				}
			case int64:
				if t.Kinds[ci] != "bigint" || v == math.MaxInt64 {
					continue
				}
				nv = v + 1
			default:
				continue
			}
			where, wargs := pkWhere(t, row, true)
			return atStmt{Kind: "update", Table: t.Name, SQL: fmt.Sprintf("update %s set %s = ? where %s", t.Name, t.Def.Cols[ci].Name, where), Args: append([]tval{tvOf(nv)}, wargs...),
				Feat: map[string]string{"stmt": "update-neighbour-value", "params": "true", "rows": "1", "where": "pk", "set_kinds": t.Kinds[ci]}}, true
		}
	}
	return atStmt{}, false
}

// atGenUpdate: UPDATE t SET <1..2 value columns> WHERE ...
func atGenUpdate(r *vc.Rand, t *atTable, o atStmtOpts) atStmt {
	vcs := t.valueCols()
	n := 1 + r.Intn(2)
	if n > len(vcs) {
		n = len(vcs)
	}
	perm := r.Perm(len(vcs))
	var sets []string
	var args []tval
	setKinds := []string{}
	for i := 0; i < n; i++ {
		ci := vcs[perm[i]]
		c := t.Def.Cols[ci]
		var v interface{}
		if c.Nullable && ((o.nullBias && r.Bool()) || (!o.nullBias && r.Intn(6) == 0)) {
			v = nil
		} else {
			v = atColKinds[t.Kinds[ci]].gen(r)
		}
		setKinds = append(setKinds, t.Kinds[ci])
		if o.params {
			sets = append(sets, c.Name+" = ?")
			args = append(args, tvOf(v))
		} else {
			sets = append(sets, c.Name+" = "+sqlLit(v))
		}
	}
	where, wargs, wform := atGenWhere(r, t, o)
	args = append(args, wargs...)
	sort.Strings(setKinds)
	return atStmt{Kind: "update", Table: t.Name, SQL: fmt.Sprintf("update %s set %s where %s", t.Name, strings.Join(sets, ", "), where), Args: args,
		Feat: map[string]string{"stmt": "update", "params": fmt.Sprint(o.params), "rows": o.rowsClass, "where": wform, "set_kinds": strings.Join(setKinds, "+")}}
}

func atGenDelete(r *vc.Rand, t *atTable, o atStmtOpts) atStmt {
	where, args, wform := atGenWhere(r, t, o)
	return atStmt{Kind: "delete", Table: t.Name, SQL: fmt.Sprintf("delete from %s where %s", t.Name, where), Args: args,
		Feat: map[string]string{"stmt": "delete", "params": fmt.Sprint(o.params), "rows": o.rowsClass, "where": wform}}
}

// atGenWhere builds a WHERE that matches 0, 1 or many of the initial rows.
func atGenWhere(r *vc.Rand, t *atTable, o atStmtOpts) (string, []tval, string) {
	if len(t.Rows) == 0 {
		return "1 = 0", nil, "const"
	}
	first := t.Def.Cols[t.Def.PK[0]]
	switch o.rowsClass {
	case "0":
		row := append([]interface{}{}, t.Rows[0]...)
		// a key that does not exist
		for _, p := range t.Def.PK {
			switch x := row[p].(type) {
			case int64:
				row[p] = x + 100000
			case string:
				row[p] = x + "_none"
			}
		}
		w, a := pkWhere(t, row, o.params)
		return w, a, "pk-eq"
	case "1":
		row := t.Rows[r.Intn(len(t.Rows))]
		w, a := pkWhere(t, row, o.params)
		return w, a, "pk-eq"
	}
	// many: a predicate on the first key column
	switch first.T {
	case mm.TInt:
		lo, hi := int64(1), int64(len(t.Rows))
		if first.Name == "ka" {
			lo, hi = 10, int64(10*len(t.Rows))
		}
		switch r.Intn(3) {
		case 0:
			if o.params {
				return first.Name + " between ? and ?", []tval{tvOf(lo), tvOf(hi)}, "between"
			}
			return fmt.Sprintf("%s between %d and %d", first.Name, lo, hi), nil, "between"
		case 1:
			if o.params {
				return first.Name + " >= ?", []tval{tvOf(lo)}, "cmp"
			}
			return fmt.Sprintf("%s >= %d", first.Name, lo), nil, "cmp"
		default:
			var ph []string
			var args []tval
			for i := 0; i < len(t.Rows) && i < 3; i++ {
				v := t.Rows[i][t.Def.PK[0]]
				if o.params {
					ph = append(ph, "?")
					args = append(args, tvOf(v))
				} else {
					ph = append(ph, sqlLit(v))
				}
			}
			return first.Name + " in (" + strings.Join(ph, ", ") + ")", args, "in"
		}
	default:
		if o.params {
			return first.Name + " <> ?", []tval{tvOf("__none__")}, "cmp"
		}
		return first.Name + " <> '__none__'", nil, "cmp"
	}
}

// atGenInsert: INSERT of nrows new rows (keys beyond the initial rows); autoinc tables omit the key.
func atGenInsert(r *vc.Rand, t *atTable, o atStmtOpts, nrows int, seq *int) atStmt {
	var cols []string
	var cis []int
	for ci, c := range t.Def.Cols {
		if c.AutoInc {
			continue
		}
		cols = append(cols, c.Name)
		cis = append(cis, ci)
	}
	colOrder := "table"
	if o.shuffleCols && len(cis) > 1 {
		// the column list of the statement need not follow the table's column order
		perm := r.Perm(len(cis))
		c2, i2 := make([]string, len(cis)), make([]int, len(cis))
		for k, p := range perm {
			c2[k], i2[k] = cols[p], cis[p]
		}
		cols, cis = c2, i2
		colOrder = "shuffled"
	}
	var groups []string
	var args []tval
	for k := 0; k < nrows; k++ {
		*seq++
		var ph []string
		for _, ci := range cis {
			c := t.Def.Cols[ci]
			var v interface{}
			if t.Kinds[ci] == "pk" {
				switch c.Name {
				case "id", "k1", "kb":
					v = int64(1000 + *seq)
				case "code":
					v = fmt.Sprintf("N%03d", *seq)
				case "k2", "kc":
					v = "n"
				case "t1":
					v = fmt.Sprintf("n%d", *seq)
				case "t2":
					v = "q"
				case "bk":
					v = []byte(fmt.Sprintf("n%02dz", *seq))
				case "mac":
					v = fmt.Sprintf("cc:dd:%03d", *seq)
				case "ka":
					v = int64(5000 + *seq)
				}
			} else if c.Nullable && ((o.nullBias && r.Bool()) || (!o.nullBias && r.Intn(6) == 0)) {
				v = nil
			} else {
				v = atColKinds[t.Kinds[ci]].gen(r)
			}
			asParam := o.params
			if o.mixedArgs {
				asParam = r.Bool()
				if _, isStr := v.(string); isStr && !asParam {
					asParam = true // string literals in images are finding C16-K1's neighbourhood: keep them bound
				}
			}
			if asParam {
				ph = append(ph, "?")
				args = append(args, tvOf(v))
			} else {
				ph = append(ph, sqlLit(v))
			}
		}
		groups = append(groups, "("+strings.Join(ph, ", ")+")")
	}
	rc := "1"
	if nrows > 1 {
		rc = "many"
	}
	return atStmt{Kind: "insert", Table: t.Name, SQL: fmt.Sprintf("insert into %s (%s) values %s", t.Name, strings.Join(cols, ", "), strings.Join(groups, ", ")), Args: args,
		Feat: map[string]string{"stmt": "insert", "params": fmt.Sprint(o.params), "rows": rc, "insert_cols": colOrder, "insert_args": map[bool]string{true: "mixed", false: "uniform"}[o.mixedArgs]}}
}

// atGenMulti: two or three UPDATE / DELETE statements on one table sent as one multi-statement text with bound arguments.
func atGenMulti(r *vc.Rand, t *atTable, kind string) atStmt {
	n := 2 + r.Intn(2)
	var parts []string
	var args []tval
	o := atStmtOpts{params: true, rowsClass: "1"}
	for k := 0; k < n; k++ {
		if k == 1 && r.Intn(3) == 0 {
			o.rowsClass = "many"
		}
		var st atStmt
		if kind == "update" {
			st = atGenUpdate(r, t, o)
		} else {
			st = atGenDelete(r, t, o)
		}
		parts = append(parts, st.SQL)
		args = append(args, st.Args...)
	}
	return atStmt{Kind: kind, Table: t.Name, SQL: strings.Join(parts, "; "), Args: args, Feat: map[string]string{"stmt": "multi-" + kind, "params": "true", "rows": "many", "where": "pk-eq"}}
}

// atInsertedRow: the key values atGenInsert gave the row it generated at sequence number seq (other columns nil)
func atInsertedRow(t *atTable, seq int) []interface{} {
	row := make([]interface{}, len(t.Def.Cols))
	for ci, c := range t.Def.Cols {
		if t.Kinds[ci] != "pk" {
			continue
		}
		switch c.Name {
		case "id", "k1", "kb":
			row[ci] = int64(1000 + seq)
		case "code":
			row[ci] = fmt.Sprintf("N%03d", seq)
		case "k2", "kc":
			row[ci] = "n"
		case "t1":
			row[ci] = fmt.Sprintf("n%d", seq)
		case "t2":
			row[ci] = "q"
		case "bk":
			row[ci] = []byte(fmt.Sprintf("n%02dz", seq))
		case "mac":
			row[ci] = fmt.Sprintf("cc:dd:%03d", seq)
		case "ka":
			row[ci] = int64(5000 + seq)
		}
	}
	return row
}

// atGenUpsert: INSERT ... ON DUPLICATE KEY UPDATE hitting an existing key (hit) or a new one (miss).
func atGenUpsert(r *vc.Rand, t *atTable, o atStmtOpts, hit bool, seq *int) atStmt {
	var cols []string
	var ph []string
	var args []tval
	var base []interface{}
	if hit && len(t.Rows) > 0 {
		base = t.Rows[r.Intn(len(t.Rows))]
	}
	*seq++
	viaUq := base != nil && t.Uniq >= 0 && base[t.Uniq] != nil && r.Bool()
	for ci, c := range t.Def.Cols {
		var v interface{}
		if t.Kinds[ci] == "uq" && base != nil {
			v = base[ci]
		} else if t.Kinds[ci] == "pk" {
			if base != nil && !viaUq {
				v = base[ci]
			} else {
				switch c.Name {
				case "id", "k1", "kb":
					v = int64(2000 + *seq)
				case "code":
					v = fmt.Sprintf("U%03d", *seq)
				case "k2", "kc":
					v = "u"
				case "t1":
					v = fmt.Sprintf("u%d", *seq)
				case "t2":
					v = "r"
				case "bk":
					v = []byte(fmt.Sprintf("u%02dz", *seq))
				case "mac":
					v = fmt.Sprintf("ee:ff:%03d", *seq)
				case "ka":
					v = int64(7000 + *seq)
				}
			}
		} else {
			v = atColKinds[t.Kinds[ci]].gen(r)
		}
		cols = append(cols, c.Name)
		if o.params {
			ph = append(ph, "?")
			args = append(args, tvOf(v))
		} else {
			ph = append(ph, sqlLit(v))
		}
	}
	vcs := t.upsertSetCols(o.assignUq)
	uc := t.Def.Cols[vcs[r.Intn(len(vcs))]]
	uv := atColKinds[t.Kinds[t.Def.PK[0]*0+indexOfCol(t, uc.Name)]].gen(r)
	upd := uc.Name + " = ?"
	if o.params {
		args = append(args, tvOf(uv))
	} else {
		upd = uc.Name + " = " + sqlLit(uv)
	}
	if o.assignPk {
		for _, pc := range t.pkCols() {
			upd += fmt.Sprintf(", %s = values(%s)", pc, pc)
		}
	}
	h := "miss"
	if base != nil {
		h = "hit"
	}
	if viaUq {
		h = "hit(via-unique-index)"
	}
	return atStmt{Kind: "upsert", Table: t.Name, SQL: fmt.Sprintf("insert into %s (%s) values (%s) on duplicate key update %s", t.Name, strings.Join(cols, ", "), strings.Join(ph, ", "), upd), Args: args,
		Feat: map[string]string{"stmt": "upsert", "params": fmt.Sprint(o.params), "rows": "1", "upsert": h, "upsert_assigns_unique_key": fmt.Sprint(o.assignUq && t.Uniq >= 0), "upsert_assigns_pk": fmt.Sprint(o.assignPk)}}
}

// atGenUpsertMulti: one INSERT ... ON DUPLICATE KEY UPDATE with several value groups, some naming existing keys and
// some new ones (mix = "hit+miss"), or all of one sort.
func atGenUpsertMulti(r *vc.Rand, t *atTable, o atStmtOpts, seq *int) atStmt {
	n := 2 + r.Intn(2)
	perm := r.Perm(len(t.Rows))
	var cols, groups []string
	var args []tval
	for _, c := range t.Def.Cols {
		cols = append(cols, c.Name)
	}
	hits, misses, uqHits := 0, 0, 0
	for k := 0; k < n; k++ {
		var base []interface{}
		if k < len(perm) && (k == 0 || r.Bool()) && !(k == n-1 && misses == 0 && r.Intn(4) != 0) {
			base = t.Rows[perm[k]]
			hits++
		} else {
			misses++
		}
		// through the secondary unique index: a new primary key with the unique value of an existing row
		viaUq := base != nil && t.Uniq >= 0 && base[t.Uniq] != nil && r.Intn(2) == 0
		nullUq := t.Uniq >= 0 && k == 0 && !viaUq && r.Intn(3) == 0
		if o.nullThenUqHit && t.Uniq >= 0 && k < 2 {
			if k == 0 {
				if base != nil {
					hits--
					misses++
				}
				base, viaUq, nullUq = nil, false, true
			} else {
				for _, row := range t.Rows {
					if row[t.Uniq] != nil {
						if base == nil {
							misses--
							hits++
						}
						base, viaUq, nullUq = row, true, false
						break
					}
				}
			}
		}
		if viaUq {
			uqHits++
		}
		*seq++
		var ph []string
		for ci, c := range t.Def.Cols {
			var v interface{}
			if t.Kinds[ci] == "uq" {
				switch {
				case nullUq:
					v = nil
				case base != nil:
					v = base[ci]
				default:
					v = atColKinds["uq"].gen(r)
				}
			} else if t.Kinds[ci] == "pk" {
				if base != nil && !viaUq {
					v = base[ci]
				} else {
					switch c.Name {
					case "id", "k1", "kb":
						v = int64(3000 + *seq)
					case "code":
						v = fmt.Sprintf("M%03d", *seq)
					case "k2", "kc":
						v = "m"
					case "t1":
						v = fmt.Sprintf("m%d", *seq)
					case "t2":
						v = "s"
					case "ka":
						v = int64(9000 + *seq)
					case "bk":
						v = []byte(fmt.Sprintf("m%02dz", *seq))
					case "mac":
						v = fmt.Sprintf("ab:cd:%03d", *seq)
					}
				}
			} else {
				v = atColKinds[t.Kinds[ci]].gen(r)
			}
			if o.params {
				ph = append(ph, "?")
				args = append(args, tvOf(v))
			} else {
				ph = append(ph, sqlLit(v))
			}
		}
		groups = append(groups, "("+strings.Join(ph, ", ")+")")
	}
	vcs := t.upsertSetCols(o.assignUq)
	ci := vcs[r.Intn(len(vcs))]
	uc := t.Def.Cols[ci]
	uv := atColKinds[t.Kinds[ci]].gen(r)
	upd := uc.Name + " = ?"
	if o.params {
		args = append(args, tvOf(uv))
	} else {
		upd = uc.Name + " = " + sqlLit(uv)
	}
	mix := "hit+miss"
	if misses == 0 {
		mix = "hits"
	} else if hits == 0 {
		mix = "misses"
	}
	if uqHits > 0 {
		mix += "(via-unique-index)"
	}
	return atStmt{Kind: "upsert", Table: t.Name, SQL: fmt.Sprintf("insert into %s (%s) values %s on duplicate key update %s", t.Name, strings.Join(cols, ", "), strings.Join(groups, ", "), upd), Args: args,
		Feat: map[string]string{"stmt": "upsert", "params": fmt.Sprint(o.params), "rows": "many", "upsert": mix, "upsert_assigns_unique_key": fmt.Sprint(o.assignUq && t.Uniq >= 0)}}
}

func indexOfCol(t *atTable, name string) int {
	for i, c := range t.Def.Cols {
		if c.Name == name {
			return i
		}
	}
	return 0
}

// ---------- programs ----------

type atGroup struct {
	Explicit  bool     `json:"explicit_tx"`
	Pinned    bool     `json:"pinned_conn,omitempty"` // run the statements on one pinned *sql.Conn
	KeepGoing bool     `json:"keep_going,omitempty"`  // a failed statement does not end the business function (retry-style code)
	Stmts     []atStmt `json:"stmts"`
}

type atCase struct {
	Name   string            `json:"name"`
	Tables []*atTable        `json:"-"`
	DDL    []string          `json:"tables"`
	Groups []atGroup         `json:"program"`
	Feat   map[string]string `json:"features"`
}

func (c *atCase) shape() string {
	var ks []string
	for k := range c.Feat {
		ks = append(ks, k)
	}
	sort.Strings(ks)
	var parts []string
	for _, k := range ks {
		parts = append(parts, k+"="+c.Feat[k])
	}
	return strings.Join(parts, "|")
}

func describeTable(t *atTable) string {
	var cs []string
	for i, c := range t.Def.Cols {
		s := c.Name + " " + c.ColType
		if c.Nullable {
			s += " null"
		}
		if c.AutoInc {
			s += " auto_increment"
		}
		_ = i
		cs = append(cs, s)
	}
	uq := ""
	if t.Uniq >= 0 {
		uq = "; unique key uq_idx(" + t.Def.Cols[t.Uniq].Name + ")"
	}
	return fmt.Sprintf("%s(%s; primary key(%s)%s; %d rows)", t.Name, strings.Join(cs, ", "), strings.Join(t.pkCols(), ","), uq, len(t.Rows))
}

// steps translates the program into the client's step language for db handle dbName.
func (c *atCase) steps(dbName string) []gtxStep {
	var out []gtxStep
	for _, g := range c.Groups {
		if g.Pinned {
			out = append(out, gtxStep{Op: "conn_pin", DB: dbName, StopOnErr: true})
		}
		if g.Explicit {
			out = append(out, gtxStep{Op: "begin", DB: dbName, StopOnErr: true})
		}
		for _, s := range g.Stmts {
			op := "exec"
			if s.Kind == "select_for_update" {
				op = "query"
			}
			// like application code: a failed statement ends the business function with that error (an open local
			// transaction is rolled back by the interpreter's cleanup)
			out = append(out, gtxStep{Op: op, DB: dbName, SQL: s.SQL, Args: s.Args, StopOnErr: !g.KeepGoing && !s.Tolerated})
		}
		if g.Explicit {
			out = append(out, gtxStep{Op: "commit", StopOnErr: true})
		}
		if g.Pinned {
			out = append(out, gtxStep{Op: "conn_release"})
		}
	}
	return out
}

func (c *atCase) stmtList() []atStmt {
	var out []atStmt
	for _, g := range c.Groups {
		out = append(out, g.Stmts...)
	}
	return out
}

// featuresFromStmts folds statement features into case features.
func (c *atCase) fold() {
	kinds := map[string]bool{}
	rows := map[string]bool{}
	params := map[string]bool{}
	wheres := map[string]bool{}
	sets := map[string]bool{}
	n := 0
	expl := false
	assignsUq := false
	for _, g := range c.Groups {
		if g.Explicit {
			expl = true
		}
		for _, s := range g.Stmts {
			n++
			if s.Feat["upsert_assigns_unique_key"] == "true" {
				assignsUq = true
			}
			kinds[s.Feat["stmt"]] = true
			rows[s.Feat["stmt"]+":"+s.Feat["rows"]] = true
			params[s.Feat["params"]] = true
			if s.Feat["where"] != "" {
				wheres[s.Feat["where"]] = true
			}
			if s.Feat["set_kinds"] != "" {
				for _, k := range strings.Split(s.Feat["set_kinds"], "+") {
					sets[k] = true
				}
			}
			if s.Feat["upsert"] != "" {
				kinds["upsert-"+s.Feat["upsert"]] = true
			}
		}
	}
	j := func(m map[string]bool) string {
		var ks []string
		for k := range m {
			ks = append(ks, k)
		}
		sort.Strings(ks)
		return strings.Join(ks, ",")
	}
	c.Feat["stmts"] = j(kinds)
	c.Feat["rows"] = j(rows)
	c.Feat["params"] = j(params)
	c.Feat["where"] = j(wheres)
	c.Feat["set_kinds"] = j(sets)
	c.Feat["nstmts"] = fmt.Sprint(n)
	c.Feat["branches"] = fmt.Sprint(len(c.Groups))
	c.Feat["explicit_tx"] = fmt.Sprint(expl)
	c.Feat["upsert_assigns_unique_key"] = fmt.Sprint(assignsUq)
}
