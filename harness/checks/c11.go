package checks

import (
	"fmt"
	"sort"
	"strings"
	"sync"
	"time"

	"verif/faketc"
	mm "verif/minimysql"
	"verif/vc"
	"verif/wire"
	"verif/world"
)

// C11 — phase-two commit deletes exactly the committed branch's undo log, eventually.
//
// The fake coordinator sends BranchCommit requests for (xid, branch id, resource) triples whose undo_log rows were
// planted in the fake databases, under several worker/buffer/interval settings and with transient faults. The monitor
// reads the undo_log tables and the databases' journals: every accepted request must be answered Committed, its row
// must be gone once the faults have stopped and the worker had a bounded number of clean-interval ticks, and no row
// that was not committed may ever disappear.

func init() {
	Registry["C11"] = Check{Level: "exploration", Fn: runC11}
}

type c11Cfg struct {
	Name     string
	Limit    int
	Interval string
	Chan     int
	Workers  int
	WBuf     int
	Tick     time.Duration
}

func (c c11Cfg) yaml() string {
	return fmt.Sprintf("seata:\n  async:\n    buffer_limit: %d\n    buffer_clean_interval: %s\n    receive_chan_size: %d\n    commit_worker_count: %d\n    commit_worker_buffer_size: %d\n", c.Limit, c.Interval, c.Chan, c.Workers, c.WBuf)
}

type c11Key struct {
	Res    int
	Xid    string
	Branch int64
}

func runC11(r *vc.Run, replay string) {
	r.Rule = "settings = {defaults (limit 10000, 1 s, 10 workers), small buffers (limit 6, 100 ms, channel 8, 1 worker, worker buffer 1), tiny (limit 3, 50 ms, channel 4, 2 workers, buffer 1)} x scenarios {plain, burst of concurrent requests, duplicates, transient DELETE errors (1..3), DELETEs that hang for eight clean intervals while further commits arrive, database unreachable and pooled connections killed for a while, resource registered only later} over 3 resources, xids sharing branch ids and branch ids sharing xids, with uncommitted neighbours; verdicts: every request answered PhaseTwo_Committed; after the faults stopped and the worker had 40 clean-interval ticks (at least 6 s) without deleting anything more, every committed (resource, xid, branch) row is gone (bounded restatement of 'eventually'); no other row ever disappears; distinct_nontrivial = distinct (settings, scenario, request count class) signatures"
	r.Assumptions = []string{"'eventually' is restated as: within 40 clean-interval ticks (>= 6 s) of worker inactivity after the last fault; a row still present then counts as lost", "undo_log rows are planted directly; the resource manager accepts BranchCommit for any (xid, branch, resource)"}
	cfgs := []c11Cfg{
		{"defaults", 10000, "1s", 10000, 10, 1000, time.Second},
		{"small", 6, "100ms", 8, 1, 1, 100 * time.Millisecond},
		{"tiny", 3, "50ms", 4, 2, 1, 50 * time.Millisecond},
	}
	var wg sync.WaitGroup
	for i, cfg := range cfgs {
		wg.Add(1)
		go func(i int, cfg c11Cfg) {
			defer wg.Done()
			c11Batch(r, i, cfg)
		}(i, cfg)
	}
	wg.Wait()
}

type c11Env struct {
	r   *vc.Run
	w   *world.World
	dbs []*world.DB
	ch  *vc.Child
	cfg c11Cfg
}

func c11Batch(r *vc.Run, bi int, cfg c11Cfg) {
	w, err := world.New(r)
	if err != nil {
		r.Errorf("%v", err)
		return
	}
	defer w.Close()
	env := &c11Env{r: r, w: w, cfg: cfg}
	var specs []world.DBSpec
	for k := 0; k < 3; k++ {
		db := w.NewDB(fmt.Sprintf("r%d", k))
		db.CreateUndoLog()
		env.dbs = append(env.dbs, db)
		if k < 2 { // the third resource is opened later by the 'late-resource' scenario
			specs = append(specs, world.DBSpec{Name: fmt.Sprintf("r%d", k), Driver: "seata-at-mysql", DSN: db.DSN("app", ""), MaxOpen: 4})
		}
	}
	ch, err := w.StartClient(fmt.Sprintf("c11-%d", bi), r.Tier == "thorough", world.InitArg{DBs: specs, Replace: map[string]string{"seata:\n": cfg.yaml()}}, nil)
	if err != nil {
		r.Errorf("%v", err)
		return
	}
	env.ch = ch
	defer ch.Kill()
	rnd := vc.NewRand(r.Seed, "c11-"+cfg.Name)
	rounds := 2
	if r.Tier == "thorough" {
		rounds = 12
	}
	if v := devN(); v > 0 {
		rounds = v
	}
	scen := []string{"plain", "burst", "duplicates", "delete-error", "delete-stall", "db-unreachable", "late-resource"}
	lateOpened := false
	for round := 0; round < rounds; round++ {
		for _, sc := range scen {
			if sc == "late-resource" {
				if lateOpened {
					continue
				}
				lateOpened = true
			}
			if !c11Scenario(env, rnd, fmt.Sprintf("%s-%d", sc, round), sc, lateOpened) {
				return
			}
		}
	}
}

func c11Rows(db *world.DB) map[string]bool {
	out := map[string]bool{}
	for _, row := range db.E.RowsTyped("undo_log") {
		out[mm.TextOf(row[1])+"#"+mm.TextOf(row[0])] = true
	}
	return out
}

// c11Scenario plants rows, sends the requests of one scenario, waits for quiescence and judges. Returns false when
// the client died.
var (
	c11ScenarioMu  sync.Mutex
	c11ScenarioSeq int
)

func c11Scenario(env *c11Env, rnd *vc.Rand, name, sc string, lateOpened bool) bool {
	c11ScenarioMu.Lock()
	c11ScenarioSeq++
	scenarioNo := 1000 + c11ScenarioSeq
	c11ScenarioMu.Unlock()
	r := env.r
	cfg := env.cfg
	for _, db := range env.dbs {
		db.E.Truncate("undo_log")
	}
	nres := 2
	if lateOpened {
		nres = 3
	}
	n := []int{5, 12, 40}[rnd.Intn(3)]
	if sc == "burst" {
		n = []int{60, 200}[rnd.Intn(2)]
	}
	// planted rows: xids x branch ids grid so that branch ids are shared across xids and xids across branches
	nx, nb := 3+rnd.Intn(3), 3+rnd.Intn(4)
	now := time.Now().UTC()
	var all []c11Key
	for res := 0; res < nres; res++ {
		var rows [][]interface{}
		for x := 0; x < nx; x++ {
			for b := 0; b < nb; b++ {
				// identifiers are never reused across scenarios: a retry still pending from an earlier scenario must
				// not be taken for the deletion of an uncommitted row of this one (branch ids are shared across xids
				// and xids across branches within the scenario)
				k := c11Key{res, fmt.Sprintf("10.0.0.%d:8091:%d", 1+x%2, scenarioNo*100+x), int64(scenarioNo*100 + 50 + b)}
				all = append(all, k)
				rows = append(rows, []interface{}{k.Branch, k.Xid, "serializerKey=json&compressorTypeKey=None", []byte("{}"), int64(0), now, now})
			}
		}
		env.dbs[res].E.Load("undo_log", rows)
	}
	perm := rnd.Perm(len(all))
	if n > len(all)*2/3 {
		n = len(all) * 2 / 3
	}
	var commit []c11Key
	committed := map[c11Key]bool{}
	for _, i := range perm[:n] {
		commit = append(commit, all[i])
		committed[all[i]] = true
	}
	start := env.w.Clock.Now()
	// faults
	var mu sync.Mutex
	failLeft := 0
	switch sc {
	case "delete-error":
		failLeft = 1 + rnd.Intn(3)
		for _, db := range env.dbs {
			db.E.Inject = func(j *mm.JournalEntry) *mm.Action {
				if j.Kind != "DELETE" || !strings.Contains(strings.ToLower(j.SQL), "undo_log") {
					return nil
				}
				mu.Lock()
				defer mu.Unlock()
				if failLeft > 0 {
					failLeft--
					return &mm.Action{Err: &mm.MyErr{Code: 1205, State: "HY000", Msg: "Lock wait timeout exceeded; try restarting transaction"}}
				}
				return nil
			}
		}
	case "delete-stall":
		// the first two DELETEs hang for eight clean intervals (a lock wait): the workers are busy while further
		// commits are accepted and handed over
		failLeft = 2
		for _, db := range env.dbs {
			db.E.Inject = func(j *mm.JournalEntry) *mm.Action {
				if j.Kind != "DELETE" || !strings.Contains(strings.ToLower(j.SQL), "undo_log") {
					return nil
				}
				mu.Lock()
				stall := failLeft > 0
				if stall {
					failLeft--
				}
				mu.Unlock()
				if stall {
					time.Sleep(8 * cfg.Tick)
				}
				return nil
			}
		}
	case "db-unreachable":
		env.dbs[0].S.SetRefuse(true)
		env.dbs[0].S.KillAll(nil)
	}
	if sc == "late-resource" {
		// requests for resource 2 arrive before the client has that data source
		commit = nil
		committed = map[c11Key]bool{}
		for _, k := range all {
			if k.Res == 2 && rnd.Intn(2) == 0 {
				commit = append(commit, k)
				committed[k] = true
			}
		}
	}
	// send
	type sent struct {
		k  c11Key
		ch chan *wire.Msg
	}
	var reqs []sent
	var smu sync.Mutex
	send := func(k c11Key) {
		resID := env.dbs[k.Res].ResourceID("app")
		s := env.w.TC.WaitSession(resID, 2*time.Second)
		if s == nil {
			s = env.w.TC.WaitSession("", 2*time.Second)
		}
		if s == nil {
			return
		}
		_, ch, err := env.w.TC.Request(s, faketc.BranchEndReq(true, &faketc.Branch{ID: k.Branch, Xid: k.Xid, Type: 0, Resource: resID}), 0)
		if err == nil {
			smu.Lock()
			reqs = append(reqs, sent{k, ch})
			smu.Unlock()
		}
	}
	switch sc {
	case "burst":
		var wg sync.WaitGroup
		for _, k := range commit {
			wg.Add(1)
			go func(k c11Key) { defer wg.Done(); send(k) }(k)
		}
		wg.Wait()
	case "duplicates":
		for _, k := range commit {
			send(k)
			send(k)
		}
	case "delete-stall":
		// a first wave that occupies the workers, the rest in small waves while they hang
		for i, k := range commit {
			if i > 0 && i%3 == 0 && i <= 12 {
				time.Sleep(2 * cfg.Tick)
			}
			send(k)
		}
	default:
		for _, k := range commit {
			send(k)
		}
	}
	// answers
	answers := map[int64]int{}
	noAnswer := 0
	for _, q := range reqs {
		select {
		case m := <-q.ch:
			answers[m.I("branchStatus")]++
		case <-time.After(25 * time.Second):
			noAnswer++
		}
	}
	// stop the faults
	switch sc {
	case "delete-error", "delete-stall":
		mu.Lock()
		failLeft = 0
		mu.Unlock()
	case "db-unreachable":
		time.Sleep(5 * cfg.Tick)
		env.dbs[0].S.SetRefuse(false)
	case "late-resource":
		time.Sleep(3 * cfg.Tick)
		db := env.dbs[2]
		if err := env.ch.Call("open_db", world.DBSpec{Name: "r2", Driver: "seata-at-mysql", DSN: db.DSN("app", ""), MaxOpen: 4}, nil); err != nil {
			r.Inconc(name + ": open_db: " + err.Error())
		}
	}
	faultsEnd := time.Now()
	// quiescence: all committed rows gone, or no deletion for 40 ticks (>= 6 s)
	quiet := 40 * cfg.Tick
	if quiet < 6*time.Second {
		quiet = 6 * time.Second
	}
	lastChange := time.Now()
	lastCount := -1
	for {
		left := 0
		for res := 0; res < nres; res++ {
			rows := c11Rows(env.dbs[res])
			for k := range committed {
				if k.Res == res && rows[k.Xid+"#"+fmt.Sprint(k.Branch)] {
					left++
				}
			}
		}
		if left != lastCount {
			lastCount = left
			lastChange = time.Now()
		}
		if left == 0 || time.Since(lastChange) > quiet || !env.ch.Alive() || time.Since(faultsEnd) > 90*time.Second {
			break
		}
		time.Sleep(20 * time.Millisecond)
	}
	for _, db := range env.dbs {
		db.E.Inject = nil
	}
	// judge
	var lost, wrong []string
	for res := 0; res < nres; res++ {
		rows := c11Rows(env.dbs[res])
		for _, k := range all {
			if k.Res != res {
				continue
			}
			present := rows[k.Xid+"#"+fmt.Sprint(k.Branch)]
			tag := fmt.Sprintf("r%d %s branch %d", k.Res, k.Xid, k.Branch)
			if committed[k] && present {
				lost = append(lost, tag)
			}
			if !committed[k] && !present {
				wrong = append(wrong, tag)
			}
		}
	}
	sort.Strings(lost)
	sort.Strings(wrong)
	class := "n<=12"
	if len(commit) > 12 {
		class = "n<=60"
	}
	if len(commit) > 60 {
		class = "n>60"
	}
	shape := fmt.Sprintf("settings=%s|scenario=%s|%s", cfg.Name, sc, class)
	feat := map[string]string{"settings": cfg.Name, "scenario": sc, "requests": class}
	var hist []string
	for res := 0; res < nres; res++ {
		for _, j := range env.dbs[res].E.JournalSince(start) {
			if strings.Contains(strings.ToLower(j.SQL), "undo_log") {
				s := fmt.Sprintf("[%d] r%d c%d %s args=%v changed=%d", j.Seq, res, j.Conn, clipStr(j.SQL, 120), j.Args, len(j.Changes))
				if j.Err != nil {
					s += fmt.Sprintf(" ERR %d", j.Err.Code)
				}
				hist = append(hist, clipStr(s, 260))
			}
		}
	}
	if len(hist) > 80 {
		hist = append(hist[:80], fmt.Sprintf("… %d more", len(hist)-80))
	}
	r.Case(shape, map[string]interface{}{"scenario": name, "settings": cfg, "requests": len(reqs), "answers": answers, "rows_planted": len(all), "lost": len(lost), "journal": clipList(hist, 12)})
	r.Count("branch_commit_requests", int64(len(reqs)))
	r.Count("undo_rows_deleted_as_required", int64(len(committed)-len(lost)))
	viol := func(clause, detail string) {
		r.Violate(&vc.Violation{Clause: clause, Shape: shape, Features: feat, Detail: detail, Case: map[string]interface{}{"scenario": name, "settings": cfg, "committed": len(committed), "planted": len(all)},
			History: map[string]interface{}{"answers": answers, "unanswered": noAnswer, "lost": clipList(lost, 20), "wrongly_deleted": clipList(wrong, 20), "journal": hist, "client_log_errors": c11LogErrors(env.ch, 15)}})
	}
	if !env.ch.Alive() {
		txt, _, _ := env.ch.PanicInfo()
		viol("client-crash", "the client process died: "+clipStr(txt, 500))
		return false
	}
	if noAnswer > 0 || len(answers) != 1 || answers[5] == 0 {
		viol("not-answered-committed", fmt.Sprintf("%d BranchCommit requests: answers by status %v (5 = PhaseTwo_Committed), %d unanswered", len(reqs), answers, noAnswer))
	}
	if len(wrong) > 0 {
		viol("foreign-undo-log-deleted", fmt.Sprintf("%d undo_log rows of branches that were not committed disappeared, e.g. %s", len(wrong), wrong[0]))
	}
	if len(lost) > 0 {
		viol("undo-log-never-deleted", fmt.Sprintf("%d of %d committed branches still have their undo_log row after the worker was inactive for %v (faults stopped %v ago), e.g. %s", len(lost), len(committed), quiet, time.Since(faultsEnd).Round(time.Second), lost[0]))
	}
	return true
}

func c11LogErrors(ch *vc.Child, n int) []string {
	var out []string
	for _, ln := range strings.Split(ch.LogTail(200000), "\n") {
		l := strings.ToLower(ln)
		if strings.Contains(l, "error") || strings.Contains(l, "panic") {
			out = append(out, clipStr(ln, 300))
		}
	}
	if len(out) > n {
		out = out[len(out)-n:]
	}
	return out
}
