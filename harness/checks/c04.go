package checks

import (
	"fmt"
	"strings"
	"sync"
	"time"

	"verif/faketc"
	"verif/vc"
	"verif/wire"
	"verif/world"
)

// C04 — each global transaction gets exactly one truthful decision from its initiator.
//
// Fault enumeration over: callback outcome x begin behaviour x second-phase reply sequences x retry setting x
// cancellation point. The fake TC is scripted per transaction name; the oracle is a decision table evaluated on the
// TC's per-xid request log and on the value WithGlobalTx returned.

func init() {
	Registry["C04"] = Check{Level: "fault_enumeration", Fn: runC04}
}

type c04Case struct {
	Name    string   `json:"name"`
	Outcome string   `json:"outcome"`              // nil error panic
	Begin   string   `json:"begin"`                // ok fail noreply rst
	Seq     []string `json:"second_phase_replies"` // ok fail noreply rst cancel+ok cancel+noreply
	Retry   int      `json:"retry_setting"`
	Cancel  string   `json:"cancel"` // "", before_begin, in_business, phase2
	Nested  string   `json:"nested"` // "", "participant-nil", "participant-error", "participant-panic"
}

func (c *c04Case) shape() string {
	return fmt.Sprintf("outcome=%s|begin=%s|p2=%s|retry=%d|cancel=%s|nested=%s", c.Outcome, c.Begin, strings.Join(c.Seq, ","), c.Retry, c.Cancel, c.Nested)
}

func (c *c04Case) features() map[string]string {
	first := "none"
	ntrans := 0
	for _, s := range c.Seq {
		if s == "noreply" || s == "rst" {
			ntrans++
			continue
		}
		first = s
		break
	}
	return map[string]string{"outcome": c.Outcome, "begin": c.Begin, "cancel": c.Cancel, "retry": fmt.Sprint(c.Retry), "first_reply": first, "nested": c.Nested,
		"transport_failures": fmt.Sprint(ntrans)}
}

type gtxScope struct {
	Case      string    `json:"case"`
	Name      string    `json:"name"`
	TimeoutMs int       `json:"timeout_ms"`
	Prop      int       `json:"prop"`
	FreshCtx  bool      `json:"fresh_ctx,omitempty"`
	NoGtx     bool      `json:"no_gtx,omitempty"`
	Steps     []gtxStep `json:"steps,omitempty"`
	Outcome   string    `json:"outcome"`
	Label     string    `json:"label"`
	CancelAt  string    `json:"cancel_at,omitempty"`
	ShareConn bool      `json:"share_conn,omitempty"`
}

type tval struct {
	T string `json:"t"`
	V string `json:"v,omitempty"`
}

type gtxStep struct {
	Op        string      `json:"op"`
	DB        string      `json:"db,omitempty"`
	SQL       string      `json:"sql,omitempty"`
	Args      []tval      `json:"args,omitempty"`
	What      string      `json:"what,omitempty"`
	Scope     *gtxScope   `json:"scope,omitempty"`
	Ms        int         `json:"ms,omitempty"`
	Stmt      string      `json:"stmt,omitempty"`
	StopOnErr bool        `json:"stop_on_err,omitempty"`
	Action    string      `json:"action,omitempty"`
	Params    interface{} `json:"params,omitempty"`
	Isolation int         `json:"isolation,omitempty"`
	ReadOnly  bool        `json:"read_only,omitempty"`
}

type ctxObs struct {
	Xid   string `json:"xid"`
	Role  string `json:"role"`
	Name  string `json:"name"`
	IsGtx bool   `json:"is_gtx"`
	Seata bool   `json:"seata"`
}

type stepResult struct {
	Op       string       `json:"op"`
	Err      string       `json:"err,omitempty"`
	ErrNo    int          `json:"errno,omitempty"`
	Panic    string       `json:"panic,omitempty"`
	Affected int64        `json:"affected"`
	LastID   int64        `json:"last_id"`
	Cols     []string     `json:"cols,omitempty"`
	ColTypes []string     `json:"col_types,omitempty"`
	Rows     [][]tval     `json:"rows,omitempty"`
	Scope    *scopeResult `json:"scope,omitempty"`
	Skipped  bool         `json:"skipped,omitempty"`
}

type scopeResult struct {
	Label     string       `json:"label"`
	Returned  string       `json:"returned"`
	Err       string       `json:"err,omitempty"`
	PanicVal  string       `json:"panic_val,omitempty"`
	Entered   bool         `json:"entered"`
	XidIn     string       `json:"xid_in"`
	CtxIn     ctxObs       `json:"ctx_in"`
	CtxBefore ctxObs       `json:"ctx_before"`
	CtxAfter  ctxObs       `json:"ctx_after"`
	Steps     []stepResult `json:"steps"`
}

func c04Sequences(bound int, quick bool) [][]string {
	// sequences: t^k followed by ok|fail (k < bound), or t^bound (all attempts fail in transport)
	var out [][]string
	var rec func(prefix []string)
	rec = func(prefix []string) {
		nn := 0
		for _, s := range prefix {
			if s == "noreply" {
				nn++
			}
		}
		if quick && nn > 1 {
			return
		}
		if len(prefix) == bound {
			out = append(out, append([]string{}, prefix...))
			return
		}
		out = append(out, append(append([]string{}, prefix...), "ok"))
		out = append(out, append(append([]string{}, prefix...), "fail"))
		for _, t := range []string{"rst", "noreply"} {
			rec(append(append([]string{}, prefix...), t))
		}
	}
	rec(nil)
	return out
}

// c04RollbackSetting: the rollback budget differs from the commit budget of the same batch, so that a mix-up of
// the two settings shows.
func c04RollbackSetting(commit int) int {
	switch commit {
	case 1:
		return 3
	case 2:
		return 1
	case 3:
		return 2
	}
	return 0
}

func c04Cases(commitRetry int, tier string) []*c04Case {
	var cs []*c04Case
	n := 0
	retry := commitRetry
	add := func(c c04Case) {
		n++
		c.Retry = retry
		c.Name = fmt.Sprintf("c04-r%d-%04d", commitRetry, n)
		cs = append(cs, &c)
	}
	quick := tier != "thorough"
	for _, o := range []string{"nil", "error", "panic"} {
		retry = commitRetry
		if o != "nil" {
			retry = c04RollbackSetting(commitRetry)
		}
		bound := retry
		if bound == 0 {
			bound = 2 // setting 0: the sequences probe only the first attempts; the case is cut by the watchdog rule below
		}
		for _, b := range []string{"fail", "noreply", "rst"} {
			add(c04Case{Outcome: o, Begin: b})
		}
		for _, seq := range c04Sequences(bound, quick) {
			add(c04Case{Outcome: o, Begin: "ok", Seq: seq})
		}
		// cancellation points
		add(c04Case{Outcome: o, Begin: "ok", Seq: []string{"ok"}, Cancel: "before_begin"})
		add(c04Case{Outcome: o, Begin: "ok", Seq: []string{"ok"}, Cancel: "in_business"})
		add(c04Case{Outcome: o, Begin: "ok", Seq: []string{"cancel+ok"}, Cancel: "phase2"})
		add(c04Case{Outcome: o, Begin: "ok", Seq: []string{"cancel+noreply"}, Cancel: "phase2"})
		add(c04Case{Outcome: o, Begin: "ok", Seq: []string{"rst", "cancel+ok"}, Cancel: "phase2"})
		// joined (participant) scopes must never end the transaction
		add(c04Case{Outcome: o, Begin: "ok", Seq: []string{"ok"}, Nested: "participant-nil"})
		add(c04Case{Outcome: o, Begin: "ok", Seq: []string{"ok"}, Nested: "participant-error"})
		add(c04Case{Outcome: o, Begin: "ok", Seq: []string{"ok"}, Nested: "participant-panic"})
	}
	return cs
}

func runC04(r *vc.Run, replay string) {
	r.Rule = "cases = callback outcome {nil,error,panic} x begin {ok, failed result, no reply, session reset} x second-phase reply sequences (transport failures {no reply(20 s), reset} up to the retry bound, then success or failed result) x retry settings (commit,rollback) in {(1,3),(2,1),(3,2),(0,0)} x cancellation {none, before begin, in business, during phase two} + joined scopes; oracle = decision table over the TC's per-xid request log and the value returned by WithGlobalTx; distinct_nontrivial = distinct case signatures whose transaction reached the TC (GlobalBegin observed)"
	r.Assumptions = []string{"fake TC (harness/faketc) on the independent wire codec; a 'transport failure' is a request that gets no reply within the client's 20 s wait, or a session reset before the reply",
		"retry setting 0 is judged against the documented default bound of 5 attempts (any finite count <= 5 accepted)"}
	retries := []int{1, 2, 3, 0}
	var wg sync.WaitGroup
	for _, rt := range retries {
		all := c04Cases(rt, r.Tier)
		var plain, rst []*c04Case
		for _, c := range all {
			if c04UsesRST(c) {
				rst = append(rst, c)
			} else {
				plain = append(plain, c)
			}
		}
		if r.Tier != "thorough" {
			// a reset costs a 20 s wait and cannot share its session with other cases: quick keeps two per setting
			var keep []*c04Case
			for _, c := range rst {
				if (c.Outcome == "nil" && strings.Join(c.Seq, ",") == "rst,ok") || (c.Outcome == "panic" && strings.Join(c.Seq, ",") == "rst,fail") ||
					(rt == 1 && c.Outcome == "nil" && strings.Join(c.Seq, ",") == "rst") {
					keep = append(keep, c)
				}
			}
			rst = keep
		}
		wg.Add(1)
		go func(rt int, cs []*c04Case) {
			defer wg.Done()
			c04Batch(r, rt, cs, true, fmt.Sprintf("c04-r%d", rt))
		}(rt, plain)
		chunks := 1
		if r.Tier == "thorough" {
			chunks = 6
		}
		for k := 0; k < chunks; k++ {
			var part []*c04Case
			for i, c := range rst {
				if i%chunks == k {
					part = append(part, c)
				}
			}
			if len(part) == 0 {
				continue
			}
			wg.Add(1)
			go func(rt, k int, cs []*c04Case) {
				defer wg.Done()
				c04Batch(r, rt, cs, false, fmt.Sprintf("c04-r%d-rst%d", rt, k))
			}(rt, k, part)
		}
	}
	wg.Wait()
	r.Exhaustive = append(r.Exhaustive, "all reply sequences of the stated alphabet up to the retry bound (quick: at most one no-reply per sequence)")
}

func c04UsesRST(c *c04Case) bool {
	if c.Begin == "rst" {
		return true
	}
	for _, s := range c.Seq {
		if s == "rst" {
			return true
		}
	}
	return false
}

func c04Batch(r *vc.Run, retry int, cases []*c04Case, concurrent bool, name string) {
	w, err := world.New(r)
	if err != nil {
		r.Errorf("world: %v", err)
		return
	}
	defer w.Close()
	race := r.Tier == "thorough"
	ch, err := w.StartClient(name, race, world.InitArg{}, nil)
	if err != nil {
		r.Errorf("%v", err)
		return
	}
	defer ch.Kill()
	if err := ch.Call("set_tm", map[string]int{"commit_retry": retry, "rollback_retry": c04RollbackSetting(retry)}, nil); err != nil {
		r.Errorf("set_tm: %v", err)
		return
	}
	byName := map[string]*c04Case{}
	for _, c := range cases {
		byName[c.Name] = c
	}
	var rmu sync.Mutex
	attempts := map[string]int{} // per tx name: second-phase requests seen
	w.TC.AddRule(&faketc.Rule{Name: "c04", Match: func(q *faketc.Req) bool { return strings.HasPrefix(q.TxName, "c04-") }, Do: func(q *faketc.Req) bool {
		c := byName[q.TxName]
		if c == nil {
			return false
		}
		switch q.Msg.Type {
		case wire.TGlobalBegin:
			switch c.Begin {
			case "fail":
				q.ReplyFail("begin refused by script", 1)
				return true
			case "noreply":
				return true
			case "rst":
				q.S.Kill(true)
				return true
			}
			return false
		case wire.TGlobalCommit, wire.TGlobalRollback:
			rmu.Lock()
			attempts[q.TxName]++
			i := attempts[q.TxName] - 1
			rmu.Unlock()
			beh := "ok"
			if i < len(c.Seq) {
				beh = c.Seq[i]
			}
			if c.Retry == 0 && i >= 7 {
				// unbounded retry witness: stop the case by cancelling its context
				go ch.Call("cancel", map[string]string{"case": c.Name}, nil)
				return true
			}
			switch beh {
			case "ok":
				return false
			case "fail":
				q.TC.Apply(q) // the TC may well have changed state; what matters is the failed result it reports
				q.ReplyFail("second phase failed by script", 0)
				return true
			case "noreply":
				return true
			case "rst":
				q.S.Kill(true)
				return true
			case "cancel+ok":
				go func() {
					ch.Call("cancel", map[string]string{"case": c.Name}, nil)
					q.ReplyDefault()
				}()
				return true
			case "cancel+noreply":
				go ch.Call("cancel", map[string]string{"case": c.Name}, nil)
				return true
			}
		}
		return false
	}})

	results := make([]*scopeResult, len(cases))
	errs := make([]error, len(cases))
	runOne := func(i int, c *c04Case) {
		sc := &gtxScope{Case: c.Name, Name: c.Name, TimeoutMs: 60000, Outcome: c.Outcome, Label: "outer"}
		switch c.Cancel {
		case "before_begin":
			sc.CancelAt = "before_begin"
		case "in_business":
			sc.CancelAt = "in_business"
		}
		switch c.Nested {
		case "participant-nil":
			sc.Steps = []gtxStep{{Op: "scope", Scope: &gtxScope{Name: c.Name + "-inner", TimeoutMs: 60000, Outcome: "nil", Label: "inner", FreshCtx: true}}}
		case "participant-error":
			sc.Steps = []gtxStep{{Op: "scope", Scope: &gtxScope{Name: c.Name + "-inner", TimeoutMs: 60000, Outcome: "error", Label: "inner", FreshCtx: true}}}
		case "participant-panic":
			sc.Steps = []gtxStep{{Op: "scope", Scope: &gtxScope{Name: c.Name + "-inner", TimeoutMs: 60000, Outcome: "panic", Label: "inner", FreshCtx: true}}}
		}
		var res scopeResult
		errs[i] = ch.Call("gtx", sc, &res)
		results[i] = &res
	}
	done := make(chan struct{})
	go func() {
		defer close(done)
		if concurrent {
			// cases that never reset the (single, shared) session run concurrently and share the 20 s waits
			var wg sync.WaitGroup
			for i, c := range cases {
				wg.Add(1)
				go func(i int, c *c04Case) {
					defer wg.Done()
					runOne(i, c)
				}(i, c)
			}
			wg.Wait()
			return
		}
		// a session reset is a fault for everything in flight on that session, so these run one at a time
		for i, c := range cases {
			runOne(i, c)
		}
	}()
	select {
	case <-done:
	case <-time.After(12 * time.Minute):
		r.Inconc(fmt.Sprintf("retry=%d: watchdog fired with cases outstanding", retry))
		ch.Quit()
		<-done
	}
	if txt, inSeata, found := ch.PanicInfo(); found {
		if inSeata {
			r.Violate(&vc.Violation{Clause: "client-crash", Shape: fmt.Sprintf("retry=%d", retry), Features: map[string]string{"retry": fmt.Sprint(retry)}, Detail: "client process died from a panic inside seata-go: " + clipStr(txt, 1500)})
		} else {
			r.Errorf("client child crashed outside seata-go: %s", clipStr(txt, 1500))
		}
		return
	}
	evs := w.TC.Events()
	for i, c := range cases {
		if errs[i] != nil {
			r.Inconc(fmt.Sprintf("%s: control call failed: %v", c.Name, errs[i]))
			r.Case("", nil)
			continue
		}
		c04Judge(r, c, results[i], evs)
	}
}

func clipStr(s string, n int) string {
	if len(s) > n {
		return s[:n] + "…"
	}
	return s
}

func c04Judge(r *vc.Run, c *c04Case, res *scopeResult, evs []*faketc.Event) {
	// per-xid request log of this transaction name (and of its inner scope name)
	var hist []map[string]interface{}
	begins, commits, rollbacks := 0, 0, 0
	okAck := false // a success result was sent for the decision request
	xids := map[string]bool{}
	innerReqs := 0
	reqIDs := map[uint32]string{}
	for _, e := range evs {
		mine := e.TxName == c.Name || e.TxName == c.Name+"-inner"
		if e.Dir == "in" && mine && e.Msg != nil {
			hist = append(hist, map[string]interface{}{"seq": e.Seq, "dir": "in", "type": e.Type, "id": e.ID, "msg": e.Text})
			reqIDs[e.ID] = e.Type
			if e.TxName == c.Name+"-inner" {
				innerReqs++
			}
			switch e.Msg.Type {
			case wire.TGlobalBegin:
				if e.TxName == c.Name {
					begins++
				}
			case wire.TGlobalCommit:
				commits++
				xids[e.Xid] = true
			case wire.TGlobalRollback:
				rollbacks++
				xids[e.Xid] = true
			}
		}
		if e.Dir == "out" && e.Msg != nil {
			if t, ok := reqIDs[e.ID]; ok && e.Type == t+"Result" {
				hist = append(hist, map[string]interface{}{"seq": e.Seq, "dir": "out", "type": e.Type, "id": e.ID, "msg": e.Text})
				if (e.Msg.Type == wire.TGlobalCommitResult || e.Msg.Type == wire.TGlobalRollbackResult) && e.Msg.I("resultCode") == 1 {
					okAck = true
				}
			}
		}
	}
	shape := c.shape()
	if begins == 0 {
		r.Case("", nil)
	} else {
		r.Case(shape, map[string]interface{}{"case": c, "returned": res.Returned, "err": clipStr(res.Err, 200), "tc_history": hist})
	}
	feat := c.features()
	viol := func(clause, detail string) {
		r.Violate(&vc.Violation{Clause: clause, Shape: shape, Features: feat, Detail: detail, Case: c,
			History: map[string]interface{}{"tc": hist, "result": res}})
	}
	r.Count("tc_requests_observed", int64(len(hist)))

	// --- crash / foreign panic
	if res.Returned == "panic" && !strings.HasPrefix(res.PanicVal, "business:") {
		viol("foreign-panic", "WithGlobalTx panicked with a value that is not the business's own: "+clipStr(res.PanicVal, 300))
		return
	}
	if res.Returned == "panic" && c.Outcome != "panic" {
		viol("foreign-panic", "WithGlobalTx panicked although the business did not: "+clipStr(res.PanicVal, 300))
		return
	}
	// --- never both, never for a joined transaction
	if commits > 0 && rollbacks > 0 {
		viol("both-decisions", fmt.Sprintf("%d GlobalCommit and %d GlobalRollback requests for one transaction", commits, rollbacks))
	}
	if len(xids) > 1 {
		viol("foreign-xid", fmt.Sprintf("second-phase requests for %d different xids", len(xids)))
	}
	// a panic of the business function of a joined scope surfaces as that scope's error, it does not escape
	if c.Nested == "participant-panic" && len(res.Steps) > 0 && res.Steps[0].Scope != nil {
		if in := res.Steps[0].Scope; in.Returned == "panic" {
			viol("panic-escaped", "the business function of a joined scope panicked and the panic escaped that scope's WithGlobalTx: "+clipStr(in.PanicVal, 200))
		} else if in.Returned != "error" {
			viol("panic-swallowed", "the business function of a joined scope panicked but its WithGlobalTx returned "+in.Returned)
		}
	}
	if c.Nested != "" && innerReqs > 0 {
		viol("participant-ended", fmt.Sprintf("the joined inner scope sent %d requests of its own to the coordinator", innerReqs))
	}
	// --- begin failed: error, no business, no second phase
	if c.Begin != "ok" {
		if res.Returned == "nil" {
			viol("silent-success", "begin failed ("+c.Begin+") but WithGlobalTx returned nil")
		}
		if res.Entered {
			viol("business-ran-without-tx", "begin failed ("+c.Begin+") but the business callback ran")
		}
		if commits+rollbacks > 0 {
			viol("decision-without-begin", "second-phase request although begin failed")
		}
		return
	}
	// --- truthful decision
	if c.Outcome == "nil" && rollbacks > 0 {
		viol("wrong-decision", "business returned nil but GlobalRollback was requested")
	}
	if c.Outcome != "nil" && commits > 0 {
		viol("wrong-decision", "business "+c.Outcome+" but GlobalCommit was requested")
	}
	// --- attempt bound and retry discipline
	n := commits + rollbacks
	bound := c.Retry
	if bound <= 0 {
		bound = 5
	}
	if bound < 1 {
		bound = 1
	}
	if n > bound {
		viol("too-many-attempts", fmt.Sprintf("%d second-phase attempts, configured bound %d (setting %d)", n, bound, c.Retry))
	}
	// expected attempts from the script: continue only after transport failures
	exp := 0
	gotReply := ""
	for i := 0; i < bound; i++ {
		beh := "ok"
		if i < len(c.Seq) {
			beh = c.Seq[i]
		}
		exp++
		if beh == "ok" || beh == "fail" || beh == "cancel+ok" {
			gotReply = beh
			break
		}
		if beh == "cancel+noreply" {
			break
		}
	}
	if c.Cancel == "" {
		if n > exp {
			viol("retry-after-result", fmt.Sprintf("%d attempts observed; after a reply carrying a result no retry is allowed (expected %d)", n, exp))
		}
		if n < exp && c.Retry > 0 {
			viol("decision-missing", fmt.Sprintf("%d second-phase attempts observed, expected %d (retries on transport failure up to the bound)", n, exp))
		}
	}
	// --- return value
	switch {
	case c.Outcome != "nil":
		if res.Returned == "nil" {
			viol("silent-success", "business "+c.Outcome+" but WithGlobalTx returned nil")
		}
	default:
		if res.Returned == "nil" {
			if !okAck {
				why := "the coordinator never acknowledged the commit with a success result"
				if gotReply == "fail" {
					why = "the coordinator answered the commit with a FAILED result"
				}
				if c.Cancel != "" {
					why += " (context cancelled: " + c.Cancel + ")"
				}
				viol("silent-success", "WithGlobalTx returned nil but "+why)
			}
		}
	}
}
