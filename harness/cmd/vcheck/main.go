// Command vcheck drives one property check: builds the client from /repo's working tree, hosts the world
// (fake MySQL, fake TC, logical clock), generates cases, runs oracles, writes evidence.
package main

import (
	"fmt"
	"os"
	"path/filepath"
	"strconv"

	"verif/checks"
	"verif/vc"
)

func main() {
	if len(os.Args) < 2 {
		fmt.Fprintln(os.Stderr, "usage: vcheck <property-id> [--tier quick|thorough] [--replay path]")
		os.Exit(2)
	}
	prop := os.Args[1]
	tier := os.Getenv("VERIF_TIER")
	replay := ""
	for i := 2; i < len(os.Args); i++ {
		switch os.Args[i] {
		case "--tier":
			i++
			tier = os.Args[i]
		case "--replay":
			i++
			replay = os.Args[i]
		}
	}
	if tier != "thorough" {
		tier = "quick"
	}
	seed := int64(1)
	if s := os.Getenv("VERIF_SEED"); s != "" {
		if v, err := strconv.ParseInt(s, 10, 64); err == nil {
			seed = v
		}
	}
	root := os.Getenv("VERIF_ROOT")
	if root == "" {
		exe, _ := os.Executable()
		root = filepath.Dir(filepath.Dir(exe)) // /verif/bin/vcheck -> /verif
	}
	c, ok := checks.Registry[prop]
	if !ok {
		fmt.Fprintln(os.Stderr, "vcheck: no check registered for", prop)
		os.Exit(2)
	}
	run := vc.NewRun(prop, tier, seed, root, c.Level)
	func() {
		defer func() {
			if r := recover(); r != nil {
				run.Errorf("harness panic: %v", r)
				panic(r)
			}
		}()
		c.Fn(run, replay)
	}()
	os.Exit(run.Finish())
}
