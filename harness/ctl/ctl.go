// Package ctl is the control channel between vcheck (world, generators, oracles) and a client child
// (the only process that links seata-go). One TCP connection, JSON lines, multiplexed both ways:
//
//	vcheck -> client : {"t":"op","id":n,"op":"...","arg":{...}}      client -> vcheck : {"t":"res","id":n,"res":{...},"err":"..."}
//	client -> vcheck : {"t":"mark","id":n,"arg":{...}}               vcheck -> client : {"t":"ack","id":n,"seq":s}
//
// A mark is synchronous: the client continues only after the world stamped it with the logical clock, so
// marks are ordered consistently with every DB command and TC frame the client causes before/after it.
package ctl

import (
	"bufio"
	"encoding/json"
	"errors"
	"fmt"
	"net"
	"sync"
	"sync/atomic"
)

type Msg struct {
	T   string          `json:"t"`
	ID  int64           `json:"id"`
	Op  string          `json:"op,omitempty"`
	Arg json.RawMessage `json:"arg,omitempty"`
	Res json.RawMessage `json:"res,omitempty"`
	Err string          `json:"err,omitempty"`
	Seq int64           `json:"seq,omitempty"`
}

type Mark struct {
	Case string                 `json:"case,omitempty"`
	What string                 `json:"what"`
	Data map[string]interface{} `json:"data,omitempty"`
}

type Conn struct {
	c       net.Conn
	r       *bufio.Reader
	wmu     sync.Mutex
	nextID  atomic.Int64
	mu      sync.Mutex
	pending map[int64]chan Msg
	closed  chan struct{}
	once    sync.Once
	Err     error
}

func NewConn(c net.Conn) *Conn {
	return &Conn{c: c, r: bufio.NewReaderSize(c, 1<<20), pending: map[int64]chan Msg{}, closed: make(chan struct{})}
}

func (c *Conn) Close() {
	c.once.Do(func() { close(c.closed); c.c.Close() })
}

func (c *Conn) Closed() <-chan struct{} { return c.closed }

func (c *Conn) send(m *Msg) error {
	b, err := json.Marshal(m)
	if err != nil {
		return err
	}
	b = append(b, '\n')
	c.wmu.Lock()
	defer c.wmu.Unlock()
	_, err = c.c.Write(b)
	return err
}

func (c *Conn) read() (*Msg, error) {
	line, err := c.r.ReadBytes('\n')
	if err != nil {
		return nil, err
	}
	var m Msg
	if err := json.Unmarshal(line, &m); err != nil {
		return nil, fmt.Errorf("ctl: bad line %q: %v", line, err)
	}
	return &m, nil
}

func (c *Conn) failAll(err error) {
	c.mu.Lock()
	c.Err = err
	for id, ch := range c.pending {
		ch <- Msg{ID: id, Err: "ctl: connection lost: " + err.Error()}
		delete(c.pending, id)
	}
	c.mu.Unlock()
	c.Close()
}

var ErrLost = errors.New("ctl: connection lost")

func (c *Conn) roundTrip(m *Msg) (Msg, error) {
	id := c.nextID.Add(1)
	m.ID = id
	ch := make(chan Msg, 1)
	c.mu.Lock()
	if c.Err != nil {
		c.mu.Unlock()
		return Msg{}, ErrLost
	}
	c.pending[id] = ch
	c.mu.Unlock()
	if err := c.send(m); err != nil {
		c.mu.Lock()
		delete(c.pending, id)
		c.mu.Unlock()
		return Msg{}, ErrLost
	}
	r := <-ch
	return r, nil
}

func (c *Conn) deliver(m *Msg) {
	c.mu.Lock()
	ch := c.pending[m.ID]
	delete(c.pending, m.ID)
	c.mu.Unlock()
	if ch != nil {
		ch <- *m
	}
}

// ---------- vcheck side ----------

// ServeWorld reads from the client: responses are routed to callers of Call; marks are stamped by onMark.
func (c *Conn) ServeWorld(onMark func(Mark) int64) {
	for {
		m, err := c.read()
		if err != nil {
			c.failAll(err)
			return
		}
		switch m.T {
		case "res":
			c.deliver(m)
		case "mark":
			var mk Mark
			json.Unmarshal(m.Arg, &mk)
			seq := onMark(mk)
			c.send(&Msg{T: "ack", ID: m.ID, Seq: seq})
		}
	}
}

// Call runs op on the client and decodes its result into res (may be nil). The error is a client-side
// handler error or ErrLost.
func (c *Conn) Call(op string, arg interface{}, res interface{}) error {
	a, err := json.Marshal(arg)
	if err != nil {
		return err
	}
	r, err := c.roundTrip(&Msg{T: "op", Op: op, Arg: a})
	if err != nil {
		return err
	}
	if r.Err != "" {
		if len(r.Err) > 5 && r.Err[:5] == "ctl: " {
			return ErrLost
		}
		return errors.New(r.Err)
	}
	if res != nil && len(r.Res) > 0 {
		return json.Unmarshal(r.Res, res)
	}
	return nil
}

// ---------- client side ----------

type Handler func(arg json.RawMessage) (interface{}, error)

// ServeClient dispatches ops to handlers, each in its own goroutine; returns when the connection ends.
func (c *Conn) ServeClient(h map[string]Handler) error {
	for {
		m, err := c.read()
		if err != nil {
			c.failAll(err)
			return err
		}
		switch m.T {
		case "ack":
			c.deliver(m)
		case "op":
			go func(m *Msg) {
				out := &Msg{T: "res", ID: m.ID}
				f := h[m.Op]
				if f == nil {
					out.Err = "unknown op " + m.Op
				} else {
					func() {
						defer func() {
							if r := recover(); r != nil {
								out.Err = fmt.Sprintf("HANDLER PANIC: %v", r)
							}
						}()
						res, err := f(m.Arg)
						if err != nil {
							out.Err = err.Error()
						} else if res != nil {
							b, err := json.Marshal(res)
							if err != nil {
								out.Err = "marshal: " + err.Error()
							} else {
								out.Res = b
							}
						}
					}()
				}
				c.send(out)
			}(m)
		}
	}
}

// Mark sends a synchronous mark and returns its logical sequence number (0 when the link is gone).
func (c *Conn) Mark(cs, what string, data map[string]interface{}) int64 {
	a, _ := json.Marshal(Mark{Case: cs, What: what, Data: data})
	r, err := c.roundTrip(&Msg{T: "mark", Arg: a})
	if err != nil {
		return 0
	}
	return r.Seq
}
