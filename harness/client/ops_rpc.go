package main

import (
	"encoding/json"
	"fmt"
	"runtime"
	"strings"
	"sync"
	"time"

	"seata.apache.org/seata-go/pkg/protocol/message"
	"seata.apache.org/seata-go/pkg/remoting/getty"
)

type rpcCallRes struct {
	Name  string `json:"name"`
	Xid   string `json:"xid,omitempty"`
	Err   string `json:"err,omitempty"`
	Panic string `json:"panic,omitempty"`
	Type  string `json:"type,omitempty"`
	Ms    int64  `json:"ms"`
}

var (
	wfMu       sync.Mutex
	wfRespIDs  map[int32]bool
	wfReqNames map[string]bool
	wfInjected int

	staleMu    sync.Mutex
	staleSends []func(msg interface{}) error
)

func init() {
	// rpc_write_fault: make the package write of selected outgoing messages fail on the live session (verif hook):
	// responses carrying one of the given message ids, GlobalBegin requests with one of the given names. An empty
	// argument switches the injection off; the op returns how many writes were failed since the last call.
	register("rpc_write_fault", func(arg json.RawMessage) (interface{}, error) {
		var a struct {
			ResponseIDs  []int32  `json:"response_ids"`
			RequestNames []string `json:"request_names"`
		}
		if err := json.Unmarshal(arg, &a); err != nil {
			return nil, err
		}
		wfMu.Lock()
		n := wfInjected
		wfInjected = 0
		wfRespIDs, wfReqNames = map[int32]bool{}, map[string]bool{}
		for _, id := range a.ResponseIDs {
			wfRespIDs[id] = true
		}
		for _, nm := range a.RequestNames {
			wfReqNames[nm] = true
		}
		wfMu.Unlock()
		getty.VerifSetWriteFault(func(msg message.RpcMessage) error {
			wfMu.Lock()
			defer wfMu.Unlock()
			hit := false
			if msg.Type == message.GettyRequestTypeResponse && wfRespIDs[msg.ID] {
				hit = true
			}
			if b, ok := msg.Body.(message.GlobalBeginRequest); ok && wfReqNames[b.TransactionName] {
				hit = true
			}
			if hit {
				wfInjected++
				return fmt.Errorf("verif: injected write failure")
			}
			return nil
		})
		return map[string]int{"injected": n}, nil
	})

	// rpc_burst: N concurrent SendSyncRequest(GlobalBeginRequest{name}) callers; each reports what it got back.
	register("rpc_burst", func(arg json.RawMessage) (interface{}, error) {
		var a struct {
			Case  string   `json:"case"`
			Names []string `json:"names"`
		}
		if err := json.Unmarshal(arg, &a); err != nil {
			return nil, err
		}
		out := make([]rpcCallRes, len(a.Names))
		var wg sync.WaitGroup
		for i, n := range a.Names {
			wg.Add(1)
			go func(i int, n string) {
				defer wg.Done()
				out[i].Name = n
				t0 := time.Now()
				defer func() {
					out[i].Ms = time.Since(t0).Milliseconds()
					if r := recover(); r != nil {
						out[i].Panic = fmt.Sprint(r)
					}
				}()
				res, err := getty.GetGettyRemotingClient().SendSyncRequest(message.GlobalBeginRequest{TransactionName: n, Timeout: time.Minute})
				if err != nil {
					out[i].Err = err.Error()
					return
				}
				out[i].Type = fmt.Sprintf("%T", res)
				if r, ok := res.(message.GlobalBeginResponse); ok {
					out[i].Xid = r.Xid
				}
			}(i, n)
		}
		wg.Wait()
		return out, nil
	})

	// rpc_listen: register a session-open listener (public API) that keeps the send function of every session opened
	// from now on. rpc_send_stale: send a TM registration through every kept send function, live or not, the way a
	// listener does that gets round to its announcement after the session has already gone.
	register("rpc_listen", func(arg json.RawMessage) (interface{}, error) {
		getty.AddSessionOpenListener("verif-c14-stale", func(send func(msg interface{}) error) {
			staleMu.Lock()
			staleSends = append(staleSends, send)
			staleMu.Unlock()
		})
		return map[string]bool{"ok": true}, nil
	})
	register("rpc_send_stale", func(arg json.RawMessage) (interface{}, error) {
		var a struct {
			Times int `json:"times"`
		}
		if err := json.Unmarshal(arg, &a); err != nil {
			return nil, err
		}
		staleMu.Lock()
		sends := append([]func(msg interface{}) error{}, staleSends...)
		staleMu.Unlock()
		var out []rpcCallRes
		for i, send := range sends {
			for k := 0; k < a.Times; k++ {
				res := rpcCallRes{Name: fmt.Sprintf("session-%d/%d", i, k)}
				func() {
					defer func() {
						if r := recover(); r != nil {
							res.Panic = fmt.Sprint(r)
						}
					}()
					if err := send(message.RegisterTMRequest{AbstractIdentifyRequest: message.AbstractIdentifyRequest{Version: "1.1.0", ApplicationId: "verif-stale", TransactionServiceGroup: "default_tx_group"}}); err != nil {
						res.Err = err.Error()
					}
				}()
				out = append(out, res)
			}
		}
		return out, nil
	})

	// rpc_state: bookkeeping of the remoting client (verif hooks) + goroutines parked in response delivery.
	register("rpc_state", func(arg json.RawMessage) (interface{}, error) {
		buf := make([]byte, 64<<20)
		n := runtime.Stack(buf, true)
		blocks := strings.Split(string(buf[:n]), "\n\n")
		parked := 0
		var parkedSamples []string
		for _, b := range blocks {
			hdr := b
			if i := strings.IndexByte(b, '\n'); i >= 0 {
				hdr = b[:i]
			}
			if strings.Contains(hdr, "chan send") && (strings.Contains(b, "NotifyRpcMessageResponse") || strings.Contains(b, "clientOnResponseProcessor")) {
				parked++
				if len(parkedSamples) < 2 {
					parkedSamples = append(parkedSamples, b)
				}
			}
		}
		open, closed, counter := getty.VerifSessions()
		return map[string]interface{}{
			"pending_futures": getty.VerifPendingFutures(),
			"merged_pending":  getty.VerifMergedPending(),
			"sessions_open":   open, "sessions_closed": closed, "session_counter": counter,
			"goroutines":         runtime.NumGoroutine(),
			"parked_in_delivery": parked, "parked_samples": parkedSamples,
		}, nil
	})
}
