package main

import (
	"encoding/json"
	"fmt"
	"runtime"
	"strings"
	"sync"
	"time"

	"seata.apache.org/seata-go/pkg/protocol/message"
	"seata.apache.org/seata-go/pkg/remoting/getty"
)

type rpcCallRes struct {
	Name  string `json:"name"`
	Xid   string `json:"xid,omitempty"`
	Err   string `json:"err,omitempty"`
	Panic string `json:"panic,omitempty"`
	Type  string `json:"type,omitempty"`
	Ms    int64  `json:"ms"`
}

func init() {
	// rpc_burst: N concurrent SendSyncRequest(GlobalBeginRequest{name}) callers; each reports what it got back.
	register("rpc_burst", func(arg json.RawMessage) (interface{}, error) {
		var a struct {
			Case  string   `json:"case"`
			Names []string `json:"names"`
		}
		if err := json.Unmarshal(arg, &a); err != nil {
			return nil, err
		}
		out := make([]rpcCallRes, len(a.Names))
		var wg sync.WaitGroup
		for i, n := range a.Names {
			wg.Add(1)
			go func(i int, n string) {
				defer wg.Done()
				out[i].Name = n
				t0 := time.Now()
				defer func() {
					out[i].Ms = time.Since(t0).Milliseconds()
					if r := recover(); r != nil {
						out[i].Panic = fmt.Sprint(r)
					}
				}()
				res, err := getty.GetGettyRemotingClient().SendSyncRequest(message.GlobalBeginRequest{TransactionName: n, Timeout: time.Minute})
				if err != nil {
					out[i].Err = err.Error()
					return
				}
				out[i].Type = fmt.Sprintf("%T", res)
				if r, ok := res.(message.GlobalBeginResponse); ok {
					out[i].Xid = r.Xid
				}
			}(i, n)
		}
		wg.Wait()
		return out, nil
	})

	// rpc_state: bookkeeping of the remoting client (verif hooks) + goroutines parked in response delivery.
	register("rpc_state", func(arg json.RawMessage) (interface{}, error) {
		buf := make([]byte, 64<<20)
		n := runtime.Stack(buf, true)
		blocks := strings.Split(string(buf[:n]), "\n\n")
		parked := 0
		var parkedSamples []string
		for _, b := range blocks {
			hdr := b
			if i := strings.IndexByte(b, '\n'); i >= 0 {
				hdr = b[:i]
			}
			if strings.Contains(hdr, "chan send") && (strings.Contains(b, "NotifyRpcMessageResponse") || strings.Contains(b, "clientOnResponseProcessor")) {
				parked++
				if len(parkedSamples) < 2 {
					parkedSamples = append(parkedSamples, b)
				}
			}
		}
		open, closed, counter := getty.VerifSessions()
		return map[string]interface{}{
			"pending_futures": getty.VerifPendingFutures(),
			"merged_pending":  getty.VerifMergedPending(),
			"sessions_open":   open, "sessions_closed": closed, "session_counter": counter,
			"goroutines":         runtime.NumGoroutine(),
			"parked_in_delivery": parked, "parked_samples": parkedSamples,
		}, nil
	})
}
