// Command client is the only harness program that links seata-go. It is built from /repo's working tree for
// every check (tags: verif [, race]) and acts as a dumb interpreter of operations sent by vcheck.
package main

import (
	"fmt"
	"net"
	"os"

	"verif/ctl"
)

var (
	link     *ctl.Conn
	handlers = map[string]ctl.Handler{}
)

func register(op string, h ctl.Handler) { handlers[op] = h }

func mark(cs, what string, data map[string]interface{}) int64 {
	return link.Mark(cs, what, data)
}

func main() {
	addr := os.Getenv("VERIF_CTL")
	if addr == "" {
		fmt.Fprintln(os.Stderr, "client: VERIF_CTL not set")
		os.Exit(2)
	}
	c, err := net.Dial("tcp", addr)
	if err != nil {
		fmt.Fprintln(os.Stderr, "client: dial:", err)
		os.Exit(2)
	}
	link = ctl.NewConn(c)
	err = link.ServeClient(handlers)
	fmt.Fprintln(os.Stderr, "client: control link ended:", err)
}
