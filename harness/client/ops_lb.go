package main

import (
	"encoding/json"
	"fmt"
	"sync"

	getty "github.com/apache/dubbo-getty"

	"seata.apache.org/seata-go/pkg/remoting/loadbalance"
)

// lb_run: a history of sessions opening and closing and of selections, run against the real loadbalance.Select with
// one shared session registry (the registry and the consistent-hash ring are long-lived in the real client as well).

type fakeSession struct {
	getty.Session // nil: any method the policies call beyond the ones below shows up as a panic
	id            string
	addr          string
	mu            sync.Mutex
	closed        bool
}

func (s *fakeSession) IsClosed() bool {
	s.mu.Lock()
	defer s.mu.Unlock()
	return s.closed
}
func (s *fakeSession) RemoteAddr() string { return s.addr }
func (s *fakeSession) Stat() string       { return "fake session " + s.id + " -> " + s.addr }
func (s *fakeSession) Close() {
	s.mu.Lock()
	s.closed = true
	s.mu.Unlock()
}

type lbAction struct {
	Op     string `json:"op"` // open | close | select
	ID     string `json:"id,omitempty"`
	Addr   string `json:"addr,omitempty"`
	Policy string `json:"policy,omitempty"`
	Xid    string `json:"xid,omitempty"`
}

type lbResult struct {
	Chosen string `json:"chosen"` // session id, "" = nil
	Closed bool   `json:"closed"` // the chosen session reported closed at selection time
	Addr   string `json:"addr"`
	Panic  string `json:"panic,omitempty"`
	Known  bool   `json:"known"` // the chosen object is one of the monitor's sessions
}

var (
	lbRegistry sync.Map
	lbSessions = map[string]*fakeSession{}
	lbMu       sync.Mutex
)

func init() {
	register("lb_run", func(arg json.RawMessage) (interface{}, error) {
		var acts []lbAction
		if err := json.Unmarshal(arg, &acts); err != nil {
			return nil, err
		}
		lbMu.Lock()
		defer lbMu.Unlock()
		out := make([]lbResult, len(acts))
		for i, a := range acts {
			switch a.Op {
			case "open":
				s := &fakeSession{id: a.ID, addr: a.Addr}
				lbSessions[a.ID] = s
				lbRegistry.Store(getty.Session(s), true)
			case "close":
				if s := lbSessions[a.ID]; s != nil {
					s.Close()
				}
			case "remove": // closed and taken out of the registry (session manager's release)
				if s := lbSessions[a.ID]; s != nil {
					s.Close()
					lbRegistry.Delete(getty.Session(s))
				}
			case "select":
				func() {
					defer func() {
						if p := recover(); p != nil {
							out[i].Panic = fmt.Sprint(p)
						}
					}()
					chosen := loadbalance.Select(a.Policy, &lbRegistry, a.Xid)
					if chosen == nil {
						return
					}
					if fs, ok := chosen.(*fakeSession); ok {
						out[i] = lbResult{Chosen: fs.id, Closed: fs.IsClosed(), Addr: fs.addr, Known: true}
					} else {
						out[i] = lbResult{Chosen: fmt.Sprintf("%T", chosen)}
					}
				}()
			}
		}
		return out, nil
	})
}
