package main

import (
	"context"
	"encoding/json"
	"errors"
	"fmt"
	"sync"

	"seata.apache.org/seata-go/pkg/protocol/branch"
	"seata.apache.org/seata-go/pkg/rm"
)

// scriptedRM is a recording resource manager whose phase-two answers are scripted per branch id.
type scriptedRM struct {
	bt      branch.BranchType
	mu      sync.Mutex
	script  map[int64]*rmScript
	calls   []rmCall
	res     sync.Map
	release map[int64]chan struct{}
}

type rmScript struct {
	BranchID int64  `json:"branch_id"`
	Status   int    `json:"status"`
	Err      string `json:"err"`
	Hold     bool   `json:"hold"`  // block until rm_release names this branch
	Panic    bool   `json:"panic"` // the manager panics
	// Then is the outcome of the following call for the same branch (a retry by the coordinator), and so on
	Then *rmScript `json:"then,omitempty"`
}

type rmCall struct {
	Seq        int64  `json:"seq"` // logical time at which the manager call returned (control mark)
	Kind       string `json:"kind"`
	Xid        string `json:"xid"`
	BranchID   int64  `json:"branch_id"`
	ResourceID string `json:"resource_id"`
	AppData    string `json:"app_data"`
	BranchType int    `json:"branch_type"`
	Status     int    `json:"status"`
	Err        string `json:"err,omitempty"`
	Scripted   bool   `json:"scripted"`
}

var scriptedRMs = map[int]*scriptedRM{}
var scriptedMu sync.Mutex

func (s *scriptedRM) phase2(kind string, r rm.BranchResource) (branch.BranchStatus, error) {
	s.mu.Lock()
	sc := s.script[r.BranchId]
	var rel chan struct{}
	if sc != nil && sc.Hold {
		rel = s.release[r.BranchId]
		if rel == nil {
			rel = make(chan struct{})
			s.release[r.BranchId] = rel
		}
	}
	s.mu.Unlock()
	if rel != nil {
		<-rel
	}
	if sc != nil && sc.Then != nil {
		// the next call for this branch follows the next script entry
		s.mu.Lock()
		nx := *sc.Then
		nx.BranchID = sc.BranchID
		s.script[r.BranchId] = &nx
		s.mu.Unlock()
	}
	c := rmCall{Kind: kind, Xid: r.Xid, BranchID: r.BranchId, ResourceID: r.ResourceId, AppData: string(r.ApplicationData), BranchType: int(r.BranchType)}
	var st branch.BranchStatus
	var err error
	if sc == nil {
		st, err = branch.BranchStatusUnknown, errors.New("verif: no script for this branch")
	} else {
		c.Scripted = true
		st = branch.BranchStatus(sc.Status)
		if sc.Err != "" {
			err = errors.New(sc.Err)
		}
	}
	c.Status = int(st)
	if err != nil {
		c.Err = err.Error()
	}
	c.Seq = mark("", "rm.return", map[string]interface{}{"branch": r.BranchId, "kind": kind})
	s.mu.Lock()
	s.calls = append(s.calls, c)
	s.mu.Unlock()
	if sc != nil && sc.Panic {
		panic(fmt.Sprintf("verif: scripted manager panic for branch %d", r.BranchId))
	}
	return st, err
}

func (s *scriptedRM) BranchCommit(ctx context.Context, r rm.BranchResource) (branch.BranchStatus, error) {
	return s.phase2("commit", r)
}
func (s *scriptedRM) BranchRollback(ctx context.Context, r rm.BranchResource) (branch.BranchStatus, error) {
	return s.phase2("rollback", r)
}
func (s *scriptedRM) BranchRegister(ctx context.Context, p rm.BranchRegisterParam) (int64, error) {
	return 0, errors.New("verif: scripted manager does not register branches")
}
func (s *scriptedRM) BranchReport(ctx context.Context, p rm.BranchReportParam) error { return nil }
func (s *scriptedRM) LockQuery(ctx context.Context, p rm.LockQueryParam) (bool, error) {
	return true, nil
}
func (s *scriptedRM) RegisterResource(r rm.Resource) error {
	s.res.Store(r.GetResourceId(), r)
	return nil
}
func (s *scriptedRM) UnregisterResource(r rm.Resource) error {
	s.res.Delete(r.GetResourceId())
	return nil
}
func (s *scriptedRM) GetCachedResources() *sync.Map    { return &s.res }
func (s *scriptedRM) GetBranchType() branch.BranchType { return s.bt }

type scriptedResource struct {
	id string
	bt branch.BranchType
}

func (r *scriptedResource) GetResourceGroupId() string       { return "default" }
func (r *scriptedResource) GetResourceId() string            { return r.id }
func (r *scriptedResource) GetBranchType() branch.BranchType { return r.bt }

func init() {
	// rm_script: register (or re-script) a recording manager for one branch type
	register("rm_script", func(arg json.RawMessage) (interface{}, error) {
		var a struct {
			BranchType int        `json:"branch_type"`
			Entries    []rmScript `json:"entries"`
			Resources  []string   `json:"resources"` // resource ids this manager knows (GetCachedResources)
		}
		if err := json.Unmarshal(arg, &a); err != nil {
			return nil, err
		}
		scriptedMu.Lock()
		s := scriptedRMs[a.BranchType]
		if s == nil {
			s = &scriptedRM{bt: branch.BranchType(a.BranchType), script: map[int64]*rmScript{}, release: map[int64]chan struct{}{}}
			scriptedRMs[a.BranchType] = s
			rm.GetRmCacheInstance().RegisterResourceManager(s)
		}
		scriptedMu.Unlock()
		s.mu.Lock()
		for i := range a.Entries {
			e := a.Entries[i]
			s.script[e.BranchID] = &e
		}
		s.mu.Unlock()
		for _, id := range a.Resources {
			s.res.Store(id, &scriptedResource{id: id, bt: s.bt})
		}
		return nil, nil
	})
	register("rm_release", func(arg json.RawMessage) (interface{}, error) {
		var a struct {
			BranchType int     `json:"branch_type"`
			Branches   []int64 `json:"branches"`
		}
		if err := json.Unmarshal(arg, &a); err != nil {
			return nil, err
		}
		scriptedMu.Lock()
		s := scriptedRMs[a.BranchType]
		scriptedMu.Unlock()
		if s == nil {
			return nil, errors.New("no scripted manager")
		}
		s.mu.Lock()
		for _, b := range a.Branches {
			ch := s.release[b]
			if ch == nil {
				ch = make(chan struct{})
				s.release[b] = ch
			}
			select {
			case <-ch:
			default:
				close(ch)
			}
		}
		s.mu.Unlock()
		return nil, nil
	})
	register("rm_calls", func(arg json.RawMessage) (interface{}, error) {
		var a struct {
			BranchType int `json:"branch_type"`
		}
		json.Unmarshal(arg, &a)
		scriptedMu.Lock()
		s := scriptedRMs[a.BranchType]
		scriptedMu.Unlock()
		if s == nil {
			return []rmCall{}, nil
		}
		s.mu.Lock()
		defer s.mu.Unlock()
		return append([]rmCall{}, s.calls...), nil
	})
}
