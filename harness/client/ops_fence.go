package main

import (
	"context"
	"database/sql"
	"encoding/json"
	"errors"
	"fmt"
	"sync"

	"seata.apache.org/seata-go/pkg/rm/tcc/fence"
	"seata.apache.org/seata-go/pkg/rm/tcc/fence/enum"
	"seata.apache.org/seata-go/pkg/tm"
)

// fence_run: deliveries of prepare/commit/rollback of TCC branches executed the way the fence API is meant to be
// used: one local transaction holds the fence operation and the business effect; it is committed when WithFence
// returned nil and rolled back otherwise.

type fenceDelivery struct {
	Phase     string `json:"phase"` // prepare | commit | rollback
	Xid       string `json:"xid"`
	Branch    int64  `json:"branch"`
	Action    string `json:"action"`
	EffectErr bool   `json:"effect_err"` // the business callback fails after applying its effect
	Panic     bool   `json:"panic"`      // the business callback panics
}

type fenceResult struct {
	Err         string `json:"err,omitempty"`
	CallbackRan bool   `json:"callback_ran"`
	TxEnd       string `json:"tx_end"` // commit | rollback | begin-failed
	TxEndErr    string `json:"tx_end_err,omitempty"`
	Panic       string `json:"panic,omitempty"`
	Seq         int64  `json:"seq"`
}

func runFence(db *sql.DB, d fenceDelivery) (r fenceResult) {
	ctx := tm.InitSeataContext(context.Background())
	tm.SetXID(ctx, d.Xid)
	tm.SetTxName(ctx, "fence-monitor")
	switch d.Phase {
	case "prepare":
		tm.SetFencePhase(ctx, enum.FencePhasePrepare)
	case "commit":
		tm.SetFencePhase(ctx, enum.FencePhaseCommit)
	case "rollback":
		tm.SetFencePhase(ctx, enum.FencePhaseRollback)
	}
	tm.SetBusinessActionContext(ctx, &tm.BusinessActionContext{Xid: d.Xid, BranchId: d.Branch, ActionName: d.Action})
	tx, err := db.BeginTx(ctx, nil)
	if err != nil {
		r.Err = "begin: " + err.Error()
		r.TxEnd = "begin-failed"
		return r
	}
	func() {
		defer func() {
			if p := recover(); p != nil {
				r.Panic = fmt.Sprint(p)
				err = fmt.Errorf("panic: %v", p)
			}
		}()
		err = fence.WithFence(ctx, tx, func() error {
			r.CallbackRan = true
			if _, e := tx.ExecContext(ctx, "insert into effects (xid, branch_id, phase) values (?, ?, ?)", d.Xid, d.Branch, d.Phase); e != nil {
				return e
			}
			if d.Panic {
				panic("scripted panic of the business method")
			}
			if d.EffectErr {
				return errors.New("scripted failure of the business method")
			}
			return nil
		})
	}()
	if err != nil {
		r.Err = err.Error()
		r.TxEnd = "rollback"
		if e := tx.Rollback(); e != nil {
			r.TxEndErr = e.Error()
		}
	} else {
		r.TxEnd = "commit"
		if e := tx.Commit(); e != nil {
			r.TxEndErr = e.Error()
		}
	}
	r.Seq = mark("", "fence-"+d.Phase, map[string]interface{}{"xid": d.Xid, "branch": d.Branch})
	return r
}

// runFenceDriver: the same delivery through the fence driver (sql.Open("seata-fence-mysql")): the fence operation
// happens inside BeginTx on a second connection, FenceTx.Commit commits the business transaction and then the fence's.
func runFenceDriver(db *sql.DB, d fenceDelivery) (r fenceResult) {
	ctx := tm.InitSeataContext(context.Background())
	tm.SetXID(ctx, d.Xid)
	tm.SetTxName(ctx, "fence-monitor")
	switch d.Phase {
	case "prepare":
		tm.SetFencePhase(ctx, enum.FencePhasePrepare)
	case "commit":
		tm.SetFencePhase(ctx, enum.FencePhaseCommit)
	case "rollback":
		tm.SetFencePhase(ctx, enum.FencePhaseRollback)
	}
	tm.SetBusinessActionContext(ctx, &tm.BusinessActionContext{Xid: d.Xid, BranchId: d.Branch, ActionName: d.Action})
	defer func() {
		if p := recover(); p != nil {
			r.Panic = fmt.Sprint(p)
		}
		r.Seq = mark("", "fence-driver-"+d.Phase, map[string]interface{}{"xid": d.Xid, "branch": d.Branch})
	}()
	tx, err := db.BeginTx(ctx, nil)
	if err != nil {
		r.Err = "begin: " + err.Error()
		r.TxEnd = "begin-failed"
		return r
	}
	r.CallbackRan = true
	_, err = tx.ExecContext(ctx, "insert into effects (xid, branch_id, phase) values (?, ?, ?)", d.Xid, d.Branch, d.Phase)
	if err == nil && d.EffectErr {
		err = errors.New("scripted failure of the business method")
	}
	if err != nil {
		r.Err = err.Error()
		r.TxEnd = "rollback"
		if e := tx.Rollback(); e != nil {
			r.TxEndErr = e.Error()
		}
		return r
	}
	r.TxEnd = "commit"
	if e := tx.Commit(); e != nil {
		r.TxEndErr = e.Error()
	}
	return r
}

func init() {
	register("fence_driver_run", func(arg json.RawMessage) (interface{}, error) {
		var a struct {
			DB         string          `json:"db"`
			Deliveries []fenceDelivery `json:"deliveries"`
		}
		if err := json.Unmarshal(arg, &a); err != nil {
			return nil, err
		}
		db := getDB(a.DB)
		if db == nil {
			return nil, fmt.Errorf("unknown db %q", a.DB)
		}
		out := make([]fenceResult, len(a.Deliveries))
		for i := range a.Deliveries {
			out[i] = runFenceDriver(db, a.Deliveries[i])
		}
		return out, nil
	})
	register("fence_run", func(arg json.RawMessage) (interface{}, error) {
		var a struct {
			DB         string          `json:"db"`
			Deliveries []fenceDelivery `json:"deliveries"`
			Parallel   bool            `json:"parallel"`
		}
		if err := json.Unmarshal(arg, &a); err != nil {
			return nil, err
		}
		db := getDB(a.DB)
		if db == nil {
			return nil, fmt.Errorf("unknown db %q", a.DB)
		}
		out := make([]fenceResult, len(a.Deliveries))
		if a.Parallel {
			var wg sync.WaitGroup
			for i := range a.Deliveries {
				wg.Add(1)
				go func(i int) { defer wg.Done(); out[i] = runFence(db, a.Deliveries[i]) }(i)
			}
			wg.Wait()
		} else {
			for i := range a.Deliveries {
				out[i] = runFence(db, a.Deliveries[i])
			}
		}
		return out, nil
	})
}
