package main

import (
	"sync"
	"context"
	"encoding/json"
	"fmt"
	"net/http"
	"strings"
	"net/http/httptest"
	"time"

	"dubbo.apache.org/dubbo-go/v3/protocol"
	"dubbo.apache.org/dubbo-go/v3/protocol/invocation"
	"github.com/gin-gonic/gin"
	"google.golang.org/grpc"
	"google.golang.org/grpc/metadata"

	sdubbo "seata.apache.org/seata-go/pkg/integration/dubbo"
	sgin "seata.apache.org/seata-go/pkg/integration/gin"
	sgrpc "seata.apache.org/seata-go/pkg/integration/grpc"
	"seata.apache.org/seata-go/pkg/tm"
)

type integArg struct {
	Case    string            `json:"case"`
	Kind    string            `json:"kind"`           // grpc | gin | dubbo
	Side    string            `json:"side"`           // roundtrip (caller interceptor -> transport -> callee interceptor) | server (hand-made inbound carrier)
	Xid     string            `json:"xid"`            // synthetic xid for the caller context ("" with RealTx)
	Key     string            `json:"key"`            // carrier key spelling for Side=server
	RealTx  bool              `json:"real_tx"`        // caller begins a real global transaction at the TC
	Name    string            `json:"name"`           // transaction name for RealTx / callee scope
	Outcome string            `json:"callee_outcome"` // nil | error
	Stale   map[string]string `json:"stale"`          // entries already present on the caller's outbound carrier (a middle service forwarding what it received)
	Triple  bool              `json:"triple"`         // dubbo: attachments as the triple protocol delivers them (lower-cased keys, []string values)
}

type integRes struct {
	CallerXid     string            `json:"caller_xid"`
	CallerRet     string            `json:"caller_returned"`
	CallerErr     string            `json:"caller_err,omitempty"`
	CalleeReached bool              `json:"callee_reached"`
	CalleeXidCtx  string            `json:"callee_xid_ctx"` // xid in the context handed to the callee's handler
	CalleeRan     bool              `json:"callee_ran"`     // callee's WithGlobalTx(Required) callback ran
	CalleeXid     string            `json:"callee_xid"`     // xid seen inside the callee's callback
	CalleeRole    string            `json:"callee_role"`
	CalleeRet     string            `json:"callee_returned"`
	Carrier       map[string]string `json:"carrier,omitempty"` // what travelled (metadata / headers / attachments)
	HTTPStatus    int               `json:"http_status,omitempty"`
	Panic         string            `json:"panic,omitempty"`
}

type stubInvoker struct {
	protocol.BaseInvoker
	f func(ctx context.Context, inv protocol.Invocation) protocol.Result
}

func (s *stubInvoker) Invoke(ctx context.Context, inv protocol.Invocation) protocol.Result {
	return s.f(ctx, inv)
}

func init() {
	gin.SetMode(gin.ReleaseMode)
	// integ_overlap: two requests with different xids are served while the first one is still inside its handler; the
	// server's base context is a seata context shared by all requests (http.Server.BaseContext built with
	// tm.InitSeataContext). Every handler must see its own xid from entry to exit, and the base context stays unbound.
	register("integ_overlap", func(arg json.RawMessage) (interface{}, error) {
		var a struct {
			Kind string `json:"kind"` // gin | grpc
			Xid1 string `json:"xid1"`
			Xid2 string `json:"xid2"`
		}
		if err := json.Unmarshal(arg, &a); err != nil {
			return nil, err
		}
		base := tm.InitSeataContext(context.Background())
		entered := make(chan struct{})
		release := make(chan struct{})
		out := map[string]string{}
		var mu sync.Mutex
		set := func(k, v string) {
			mu.Lock()
			out[k] = v
			mu.Unlock()
		}
		handler := func(ctx context.Context, which string, park bool) {
			set(which+"_entry", tm.GetXID(ctx))
			if park {
				close(entered)
				<-release
			}
			set(which+"_exit", tm.GetXID(ctx))
		}
		var wg sync.WaitGroup
		serve := func(which, xid string, park bool) {
			defer wg.Done()
			defer func() {
				if r := recover(); r != nil {
					set("panic", fmt.Sprint(r))
				}
			}()
			switch a.Kind {
			case "gin":
				eng := gin.New()
				eng.ContextWithFallback = true
				eng.Use(sgin.TransactionMiddleware())
				eng.GET("/m", func(c *gin.Context) {
					handler(c.Request.Context(), which, park)
					c.String(http.StatusOK, "ok")
				})
				req := httptest.NewRequest("GET", "/m", nil).WithContext(base)
				req.Header.Set("TX_XID", xid)
				eng.ServeHTTP(httptest.NewRecorder(), req)
			case "grpc":
				in := metadata.NewIncomingContext(base, metadata.Pairs("TX_XID", xid))
				sgrpc.ServerTransactionInterceptor(in, nil, &grpc.UnaryServerInfo{FullMethod: "/svc/m"}, func(ctx context.Context, req interface{}) (interface{}, error) {
					handler(ctx, which, park)
					return nil, nil
				})
			}
		}
		wg.Add(1)
		go serve("first", a.Xid1, true)
		select {
		case <-entered:
		case <-time.After(10 * time.Second):
			return nil, fmt.Errorf("first request never reached its handler")
		}
		wg.Add(1)
		serve("second", a.Xid2, false)
		close(release)
		wg.Wait()
		out["base_after"] = tm.GetXID(base)
		return out, nil
	})

	register("integ", func(arg json.RawMessage) (interface{}, error) {
		var a integArg
		if err := json.Unmarshal(arg, &a); err != nil {
			return nil, err
		}
		res := &integRes{}
		// the callee: a handler that joins the transaction with propagation Required
		callee := func(ctx context.Context) error {
			res.CalleeReached = true
			res.CalleeXidCtx = tm.GetXID(ctx)
			err := tm.WithGlobalTx(ctx, &tm.GtxConfig{Name: a.Name + "-callee", Timeout: time.Minute}, func(ctx context.Context) error {
				res.CalleeRan = true
				res.CalleeXid = tm.GetXID(ctx)
				if r := tm.GetTxRole(ctx); r != nil {
					res.CalleeRole = r.String()
				}
				mark(a.Case, "callee.cb", map[string]interface{}{"xid": res.CalleeXid})
				if a.Outcome == "error" {
					return errBusiness
				}
				return nil
			})
			if err != nil {
				res.CalleeRet = "error"
			} else {
				res.CalleeRet = "nil"
			}
			return err
		}
		// transport from the caller's (possibly nil) outbound carrier to the callee
		call := func(ctx context.Context) error {
			switch a.Kind {
			case "grpc":
				invoker := func(ctx context.Context, method string, req, reply interface{}, cc *grpc.ClientConn, opts ...grpc.CallOption) error {
					md, _ := metadata.FromOutgoingContext(ctx)
					if a.Side == "server" {
						md = metadata.Pairs(a.Key, a.Xid)
					}
					res.Carrier = map[string]string{}
					for k, v := range md {
						if len(v) > 0 {
							res.Carrier[k] = v[0]
						}
					}
					in := metadata.NewIncomingContext(context.Background(), md.Copy())
					_, err := sgrpc.ServerTransactionInterceptor(in, nil, &grpc.UnaryServerInfo{FullMethod: method}, func(ctx context.Context, req interface{}) (interface{}, error) {
						return nil, callee(ctx)
					})
					return err
				}
				if a.Side == "server" {
					return invoker(context.Background(), "/svc/m", nil, nil, nil)
				}
				if len(a.Stale) > 0 {
					ctx = metadata.NewOutgoingContext(ctx, metadata.New(a.Stale))
				}
				return sgrpc.ClientTransactionInterceptor(ctx, "/svc/m", nil, nil, nil, invoker)
			case "gin":
				eng := gin.New()
				eng.ContextWithFallback = true
				eng.Use(sgin.TransactionMiddleware())
				eng.GET("/m", func(c *gin.Context) {
					if err := callee(c.Request.Context()); err != nil {
						c.String(http.StatusInternalServerError, "callee error")
						return
					}
					c.String(http.StatusOK, "ok")
				})
				req := httptest.NewRequest("GET", "/m", nil)
				key := a.Key
				xid := a.Xid
				if a.Side != "server" {
					key = "TX_XID"
					xid = tm.GetXID(ctx)
				}
				if key != "" {
					req.Header.Set(key, xid)
				}
				res.Carrier = map[string]string{}
				for k, v := range req.Header {
					res.Carrier[k] = v[0]
				}
				rec := httptest.NewRecorder()
				eng.ServeHTTP(rec, req)
				res.HTTPStatus = rec.Code
				if rec.Code != http.StatusOK {
					return fmt.Errorf("http status %d", rec.Code)
				}
				return nil
			case "dubbo":
				f := sdubbo.GetDubboTransactionFilter()
				provider := &stubInvoker{f: func(ctx context.Context, inv protocol.Invocation) protocol.Result {
					r := &protocol.RPCResult{}
					r.Err = callee(ctx)
					return r
				}}
				if a.Side == "server" {
					var val interface{} = a.Xid
					if a.Triple {
						val = []string{a.Xid}
					}
					inv := invocation.NewRPCInvocation("m", nil, map[string]interface{}{a.Key: val})
					res.Carrier = map[string]string{a.Key: a.Xid}
					return f.Invoke(context.Background(), provider, inv).Error()
				}
				// consumer side filter, then a "wire" that carries only the attachments, then the provider side filter
				wireInv := &stubInvoker{f: func(_ context.Context, inv protocol.Invocation) protocol.Result {
					res.Carrier = map[string]string{}
					att := map[string]interface{}{}
					for k, v := range inv.Attachments() {
						if sv, ok := v.(string); ok && a.Triple {
							att[strings.ToLower(k)] = []string{sv}
						} else {
							att[k] = v
						}
						res.Carrier[k] = fmt.Sprint(v)
					}
					return f.Invoke(context.Background(), provider, invocation.NewRPCInvocation("m", nil, att))
				}}
				pre := map[string]interface{}{}
				for k, v := range a.Stale {
					pre[k] = v
				}
				return f.Invoke(ctx, wireInv, invocation.NewRPCInvocation("m", nil, pre)).Error()
			}
			return fmt.Errorf("unknown integration kind %q", a.Kind)
		}
		func() {
			defer func() {
				if r := recover(); r != nil {
					res.Panic = fmt.Sprint(r)
				}
			}()
			var err error
			switch {
			case a.Side == "server":
				err = call(context.Background())
			case a.RealTx:
				err = tm.WithGlobalTx(context.Background(), &tm.GtxConfig{Name: a.Name, Timeout: time.Minute}, func(ctx context.Context) error {
					res.CallerXid = tm.GetXID(ctx)
					call(ctx) // the caller ignores the callee's error: its own outcome is success
					return nil
				})
			default:
				ctx := tm.InitSeataContext(context.Background())
				tm.SetXID(ctx, a.Xid)
				res.CallerXid = a.Xid
				err = call(ctx)
			}
			if err != nil {
				res.CallerRet, res.CallerErr = "error", err.Error()
			} else {
				res.CallerRet = "nil"
			}
		}()
		return res, nil
	})
}
