package main

import (
	"fmt"
	"time"

	"seata.apache.org/seata-go/pkg/protocol/branch"
	"seata.apache.org/seata-go/pkg/protocol/message"
	serror "seata.apache.org/seata-go/pkg/util/errors"

	"verif/wire"
)

// toSeata builds the seata-go message value for a generic wire message (harness glue, field by field).
func toSeata(m *wire.Msg) (interface{}, error) {
	tr := func() message.AbstractTransactionResponse {
		return message.AbstractTransactionResponse{
			AbstractResultMessage: message.AbstractResultMessage{ResultCode: message.ResultCode(m.I("resultCode")), Msg: m.S("msg")},
			TransactionErrorCode:  serror.TransactionErrorCode(m.I("excCode")),
		}
	}
	ge := func() message.AbstractGlobalEndRequest {
		return message.AbstractGlobalEndRequest{Xid: m.S("xid"), ExtraData: []byte(m.S("extraData"))}
	}
	ger := func() message.AbstractGlobalEndResponse {
		return message.AbstractGlobalEndResponse{AbstractTransactionResponse: tr(), GlobalStatus: message.GlobalStatus(m.I("globalStatus"))}
	}
	be := func() message.AbstractBranchEndRequest {
		return message.AbstractBranchEndRequest{Xid: m.S("xid"), BranchId: m.I("branchId"), BranchType: branch.BranchType(m.I("branchType")), ResourceId: m.S("resourceId"), ApplicationData: []byte(m.S("applicationData"))}
	}
	ber := func() message.AbstractBranchEndResponse {
		return message.AbstractBranchEndResponse{AbstractTransactionResponse: tr(), Xid: m.S("xid"), BranchId: m.I("branchId"), BranchStatus: branch.BranchStatus(m.I("branchStatus"))}
	}
	br := func() message.BranchRegisterRequest {
		return message.BranchRegisterRequest{Xid: m.S("xid"), BranchType: branch.BranchType(m.I("branchType")), ResourceId: m.S("resourceId"), LockKey: m.S("lockKey"), ApplicationData: []byte(m.S("applicationData"))}
	}
	idr := func() message.AbstractIdentifyRequest {
		return message.AbstractIdentifyRequest{Version: m.S("version"), ApplicationId: m.S("applicationId"), TransactionServiceGroup: m.S("txServiceGroup"), ExtraData: []byte(m.S("extraData"))}
	}
	idp := func() message.AbstractIdentifyResponse {
		return message.AbstractIdentifyResponse{Identified: m.B("identified"), Version: m.S("version")}
	}
	switch m.Type {
	case wire.TGlobalBegin:
		return message.GlobalBeginRequest{Timeout: time.Duration(m.I("timeout")) * time.Millisecond, TransactionName: m.S("transactionName")}, nil
	case wire.TGlobalBeginResult:
		return message.GlobalBeginResponse{AbstractTransactionResponse: tr(), Xid: m.S("xid"), ExtraData: []byte(m.S("extraData"))}, nil
	case wire.TBranchCommit:
		return message.BranchCommitRequest{AbstractBranchEndRequest: be()}, nil
	case wire.TBranchCommitResult:
		return message.BranchCommitResponse{AbstractBranchEndResponse: ber()}, nil
	case wire.TBranchRollback:
		return message.BranchRollbackRequest{AbstractBranchEndRequest: be()}, nil
	case wire.TBranchRollbackResult:
		return message.BranchRollbackResponse{AbstractBranchEndResponse: ber()}, nil
	case wire.TGlobalCommit:
		return message.GlobalCommitRequest{AbstractGlobalEndRequest: ge()}, nil
	case wire.TGlobalCommitResult:
		return message.GlobalCommitResponse{AbstractGlobalEndResponse: ger()}, nil
	case wire.TGlobalRollback:
		return message.GlobalRollbackRequest{AbstractGlobalEndRequest: ge()}, nil
	case wire.TGlobalRollbackResult:
		return message.GlobalRollbackResponse{AbstractGlobalEndResponse: ger()}, nil
	case wire.TBranchRegister:
		return br(), nil
	case wire.TBranchRegisterResult:
		return message.BranchRegisterResponse{AbstractTransactionResponse: tr(), BranchId: m.I("branchId")}, nil
	case wire.TBranchReport:
		return message.BranchReportRequest{Xid: m.S("xid"), BranchId: m.I("branchId"), ResourceId: m.S("resourceId"), Status: branch.BranchStatus(m.I("status")), ApplicationData: []byte(m.S("applicationData")), BranchType: branch.BranchType(m.I("branchType"))}, nil
	case wire.TBranchReportResult:
		return message.BranchReportResponse{AbstractTransactionResponse: tr()}, nil
	case wire.TGlobalStatus:
		return message.GlobalStatusRequest{AbstractGlobalEndRequest: ge()}, nil
	case wire.TGlobalStatusResult:
		return message.GlobalStatusResponse{AbstractGlobalEndResponse: ger()}, nil
	case wire.TGlobalReport:
		return message.GlobalReportRequest{AbstractGlobalEndRequest: ge(), GlobalStatus: message.GlobalStatus(m.I("globalStatus"))}, nil
	case wire.TGlobalReportResult:
		return message.GlobalReportResponse{AbstractGlobalEndResponse: ger()}, nil
	case wire.TGlobalLockQuery:
		return message.GlobalLockQueryRequest{BranchRegisterRequest: br()}, nil
	case wire.TGlobalLockQueryResult:
		return message.GlobalLockQueryResponse{AbstractTransactionResponse: tr(), Lockable: m.B("lockable")}, nil
	case wire.TRegTM:
		return message.RegisterTMRequest{AbstractIdentifyRequest: idr()}, nil
	case wire.TRegTMResult:
		return message.RegisterTMResponse{AbstractIdentifyResponse: idp()}, nil
	case wire.TRegRM:
		return message.RegisterRMRequest{AbstractIdentifyRequest: idr(), ResourceIds: m.S("resourceIds")}, nil
	case wire.TRegRMResult:
		return message.RegisterRMResponse{AbstractIdentifyResponse: idp()}, nil
	}
	return nil, fmt.Errorf("conv: unknown type %d", m.Type)
}

// fromSeata is the inverse of toSeata.
func fromSeata(v interface{}) (*wire.Msg, error) {
	tr := func(m *wire.Msg, r message.AbstractTransactionResponse) {
		m.F["resultCode"] = int64(r.ResultCode)
		m.F["msg"] = r.Msg
		m.F["excCode"] = int64(r.TransactionErrorCode)
	}
	ge := func(m *wire.Msg, r message.AbstractGlobalEndRequest) {
		m.F["xid"] = r.Xid
		m.F["extraData"] = string(r.ExtraData)
	}
	ger := func(m *wire.Msg, r message.AbstractGlobalEndResponse) {
		tr(m, r.AbstractTransactionResponse)
		m.F["globalStatus"] = int64(r.GlobalStatus)
	}
	be := func(m *wire.Msg, r message.AbstractBranchEndRequest) {
		m.F["xid"], m.F["branchId"], m.F["branchType"], m.F["resourceId"], m.F["applicationData"] = r.Xid, r.BranchId, int64(r.BranchType), r.ResourceId, string(r.ApplicationData)
	}
	ber := func(m *wire.Msg, r message.AbstractBranchEndResponse) {
		tr(m, r.AbstractTransactionResponse)
		m.F["xid"], m.F["branchId"], m.F["branchStatus"] = r.Xid, r.BranchId, int64(r.BranchStatus)
	}
	br := func(m *wire.Msg, r message.BranchRegisterRequest) {
		m.F["xid"], m.F["branchType"], m.F["resourceId"], m.F["lockKey"], m.F["applicationData"] = r.Xid, int64(r.BranchType), r.ResourceId, r.LockKey, string(r.ApplicationData)
	}
	idr := func(m *wire.Msg, r message.AbstractIdentifyRequest) {
		m.F["version"], m.F["applicationId"], m.F["txServiceGroup"], m.F["extraData"] = r.Version, r.ApplicationId, r.TransactionServiceGroup, string(r.ExtraData)
	}
	idp := func(m *wire.Msg, r message.AbstractIdentifyResponse) {
		m.F["identified"], m.F["version"] = r.Identified, r.Version
	}
	n := func(t int16) *wire.Msg { return &wire.Msg{Type: t, F: map[string]interface{}{}} }
	switch x := v.(type) {
	case message.GlobalBeginRequest:
		m := n(wire.TGlobalBegin)
		m.F["timeout"], m.F["transactionName"] = int64(x.Timeout/time.Millisecond), x.TransactionName
		return m, nil
	case message.GlobalBeginResponse:
		m := n(wire.TGlobalBeginResult)
		tr(m, x.AbstractTransactionResponse)
		m.F["xid"], m.F["extraData"] = x.Xid, string(x.ExtraData)
		return m, nil
	case message.BranchCommitRequest:
		m := n(wire.TBranchCommit)
		be(m, x.AbstractBranchEndRequest)
		return m, nil
	case message.BranchCommitResponse:
		m := n(wire.TBranchCommitResult)
		ber(m, x.AbstractBranchEndResponse)
		return m, nil
	case message.BranchRollbackRequest:
		m := n(wire.TBranchRollback)
		be(m, x.AbstractBranchEndRequest)
		return m, nil
	case message.BranchRollbackResponse:
		m := n(wire.TBranchRollbackResult)
		ber(m, x.AbstractBranchEndResponse)
		return m, nil
	case message.GlobalCommitRequest:
		m := n(wire.TGlobalCommit)
		ge(m, x.AbstractGlobalEndRequest)
		return m, nil
	case message.GlobalCommitResponse:
		m := n(wire.TGlobalCommitResult)
		ger(m, x.AbstractGlobalEndResponse)
		return m, nil
	case message.GlobalRollbackRequest:
		m := n(wire.TGlobalRollback)
		ge(m, x.AbstractGlobalEndRequest)
		return m, nil
	case message.GlobalRollbackResponse:
		m := n(wire.TGlobalRollbackResult)
		ger(m, x.AbstractGlobalEndResponse)
		return m, nil
	case message.GlobalLockQueryRequest:
		m := n(wire.TGlobalLockQuery)
		br(m, x.BranchRegisterRequest)
		return m, nil
	case message.BranchRegisterRequest:
		m := n(wire.TBranchRegister)
		br(m, x)
		return m, nil
	case message.BranchRegisterResponse:
		m := n(wire.TBranchRegisterResult)
		tr(m, x.AbstractTransactionResponse)
		m.F["branchId"] = x.BranchId
		return m, nil
	case message.BranchReportRequest:
		m := n(wire.TBranchReport)
		m.F["xid"], m.F["branchId"], m.F["status"], m.F["resourceId"], m.F["applicationData"], m.F["branchType"] = x.Xid, x.BranchId, int64(x.Status), x.ResourceId, string(x.ApplicationData), int64(x.BranchType)
		return m, nil
	case message.BranchReportResponse:
		m := n(wire.TBranchReportResult)
		tr(m, x.AbstractTransactionResponse)
		return m, nil
	case message.GlobalStatusRequest:
		m := n(wire.TGlobalStatus)
		ge(m, x.AbstractGlobalEndRequest)
		return m, nil
	case message.GlobalStatusResponse:
		m := n(wire.TGlobalStatusResult)
		ger(m, x.AbstractGlobalEndResponse)
		return m, nil
	case message.GlobalReportRequest:
		m := n(wire.TGlobalReport)
		ge(m, x.AbstractGlobalEndRequest)
		m.F["globalStatus"] = int64(x.GlobalStatus)
		return m, nil
	case message.GlobalReportResponse:
		m := n(wire.TGlobalReportResult)
		ger(m, x.AbstractGlobalEndResponse)
		return m, nil
	case message.GlobalLockQueryResponse:
		m := n(wire.TGlobalLockQueryResult)
		tr(m, x.AbstractTransactionResponse)
		m.F["lockable"] = x.Lockable
		return m, nil
	case message.RegisterTMRequest:
		m := n(wire.TRegTM)
		idr(m, x.AbstractIdentifyRequest)
		return m, nil
	case message.RegisterTMResponse:
		m := n(wire.TRegTMResult)
		idp(m, x.AbstractIdentifyResponse)
		return m, nil
	case message.RegisterRMRequest:
		m := n(wire.TRegRM)
		idr(m, x.AbstractIdentifyRequest)
		m.F["resourceIds"] = x.ResourceIds
		return m, nil
	case message.RegisterRMResponse:
		m := n(wire.TRegRMResult)
		idp(m, x.AbstractIdentifyResponse)
		return m, nil
	}
	return nil, fmt.Errorf("conv: unexpected decoded value of type %T", v)
}
