package main

import (
	"encoding/hex"
	"encoding/json"
	"fmt"
	"sort"

	"seata.apache.org/seata-go/pkg/protocol/codec"
	"seata.apache.org/seata-go/pkg/protocol/message"
	"seata.apache.org/seata-go/pkg/remoting/getty"

	"verif/wire"
)

// pkgText is the harness's canonical rendering of a delivered RpcMessage.
type pkgText struct {
	Type       int               `json:"type"`
	ID         int32             `json:"id"`
	Codec      int               `json:"codec"`
	Compressor int               `json:"compressor"`
	Head       map[string]string `json:"head"`
	Body       *wire.TextMsg     `json:"body,omitempty"`
	BodyKind   string            `json:"body_kind"` // msg | ping | pong | nil | other:<T>
}

func renderPkg(v interface{}) pkgText {
	m, ok := v.(message.RpcMessage)
	if !ok {
		return pkgText{BodyKind: fmt.Sprintf("not-an-RpcMessage:%T", v)}
	}
	p := pkgText{Type: int(m.Type), ID: m.ID, Codec: int(m.Codec), Compressor: int(m.Compressor), Head: m.HeadMap}
	if p.Head == nil {
		p.Head = map[string]string{}
	}
	switch b := m.Body.(type) {
	case nil:
		p.BodyKind = "nil"
	case message.HeartBeatMessage:
		if b.Ping {
			p.BodyKind = "ping"
		} else {
			p.BodyKind = "pong"
		}
	default:
		wm, err := fromSeata(b)
		if err != nil {
			p.BodyKind = fmt.Sprintf("other:%T", b)
		} else {
			t := wire.ToText(wm)
			p.Body = &t
			p.BodyKind = "msg"
		}
	}
	return p
}

type driveOut struct {
	Deliveries [][2]int `json:"d"` // (index into Pkgs, consumed n)
	Err        string   `json:"err,omitempty"`
	Panic      string   `json:"panic,omitempty"`
	Spin       bool     `json:"spin,omitempty"` // pkg != nil with n == 0
	Over       bool     `json:"over,omitempty"` // n > len(buf)
	Leftover   int      `json:"left"`           // bytes still buffered at the end
	Reads      int      `json:"reads"`          // calls of Read
	NeedMore   int      `json:"need_more"`      // calls that answered (nil, _, nil)
	AtChunk    int      `json:"at_chunk"`       // chunk index at which err/panic/spin happened
	NeedMoreN  []int    `json:"-"`
}

func init() {
	// frame_drive: feed a byte stream to the real RpcPackageHandler.Read exactly as getty's handleTCPPackage does
	// (append chunk; loop Read; err => session dies; pkg == nil => wait for more; else deliver and drop n bytes).
	register("frame_drive", func(arg json.RawMessage) (interface{}, error) {
		codecInit.Do(codec.Init)
		var in struct {
			Stream     string  `json:"stream"`
			Partitions [][]int `json:"partitions"`
		}
		if err := json.Unmarshal(arg, &in); err != nil {
			return nil, err
		}
		stream, err := hex.DecodeString(in.Stream)
		if err != nil {
			return nil, err
		}
		h := &getty.RpcPackageHandler{}
		var pkgs []string
		pkgIdx := map[string]int{}
		outs := make([]driveOut, len(in.Partitions))
		for pi, part := range in.Partitions {
			o := &outs[pi]
			o.Deliveries = [][2]int{}
			var buf []byte
			pos := 0
			func() {
				ci := 0
				defer func() {
					if r := recover(); r != nil {
						o.Panic = fmt.Sprint(r)
						o.AtChunk = ci
					}
				}()
				for ci = 0; ci < len(part); ci++ {
					n := part[ci]
					if pos+n > len(stream) {
						n = len(stream) - pos
					}
					buf = append(buf, stream[pos:pos+n]...)
					pos += n
					for len(buf) > 0 {
						cp := append([]byte{}, buf...) // Read must not depend on capacity beyond len
						pkg, k, err := h.Read(nil, cp)
						o.Reads++
						if err != nil {
							o.Err = err.Error()
							o.AtChunk = ci
							return
						}
						if pkg == nil {
							o.NeedMore++
							break
						}
						b, _ := json.Marshal(renderPkg(pkg))
						s := string(b)
						idx, ok := pkgIdx[s]
						if !ok {
							idx = len(pkgs)
							pkgIdx[s] = idx
							pkgs = append(pkgs, s)
						}
						o.Deliveries = append(o.Deliveries, [2]int{idx, k})
						if k <= 0 {
							o.Spin = true
							o.AtChunk = ci
							return
						}
						if k > len(buf) {
							o.Over = true
							o.AtChunk = ci
							return
						}
						buf = buf[k:]
					}
				}
			}()
			o.Leftover = len(buf)
		}
		var pk []json.RawMessage
		for _, s := range pkgs {
			pk = append(pk, json.RawMessage(s))
		}
		return map[string]interface{}{"pkgs": pk, "outs": outs}, nil
	})

	// frame_write: RpcPackageHandler.Write of a described message; returns the bytes.
	register("frame_write", func(arg json.RawMessage) (interface{}, error) {
		codecInit.Do(codec.Init)
		var in []struct {
			Type       int               `json:"type"`
			ID         int32             `json:"id"`
			Codec      int               `json:"codec"`
			Compressor int               `json:"compressor"`
			Head       map[string]string `json:"head"`
			Body       *wire.TextMsg     `json:"body"`
		}
		if err := json.Unmarshal(arg, &in); err != nil {
			return nil, err
		}
		type wout struct {
			Bytes string `json:"bytes,omitempty"`
			Err   string `json:"err,omitempty"`
			Panic string `json:"panic,omitempty"`
		}
		outs := make([]wout, len(in))
		h := &getty.RpcPackageHandler{}
		for i, m := range in {
			func() {
				defer func() {
					if r := recover(); r != nil {
						outs[i].Panic = fmt.Sprint(r)
					}
				}()
				rm := message.RpcMessage{ID: m.ID, Type: message.GettyRequestType(m.Type), Codec: byte(m.Codec), Compressor: byte(m.Compressor), HeadMap: m.Head}
				switch message.GettyRequestType(m.Type) {
				case message.GettyRequestTypeHeartbeatRequest:
					rm.Body = message.HeartBeatMessagePing
				case message.GettyRequestTypeHeartbeatResponse:
					rm.Body = message.HeartBeatMessagePong
				default:
					if m.Body != nil {
						v, err := toSeata(wire.FromText(*m.Body))
						if err != nil {
							outs[i].Err = err.Error()
							return
						}
						rm.Body = v
					}
				}
				b, err := h.Write(nil, rm)
				if err != nil {
					outs[i].Err = err.Error()
					return
				}
				outs[i].Bytes = hex.EncodeToString(b)
			}()
		}
		return outs, nil
	})
}

var _ = sort.Strings
