package main

import (
	"context"
	"encoding/json"
	"errors"
	"fmt"
	"sync"

	"seata.apache.org/seata-go/pkg/rm/tcc"
	"seata.apache.org/seata-go/pkg/tm"
)

// ---- scripted, recording TCC actions (the user's try/confirm/cancel code of the monitor) ----

type tccScript struct {
	Try      string   `json:"try"`      // ok | err | false | panic
	Commit   []string `json:"commit"`   // outcome of the 1st, 2nd, ... commit call (last one repeats): ok | err | false | panic
	Rollback []string `json:"rollback"` // same for rollback
}

type tccCall struct {
	Seq       int64           `json:"seq"`
	Phase     string          `json:"phase"` // try | commit | rollback
	Action    string          `json:"action"`
	Xid       string          `json:"xid"`
	BranchID  int64           `json:"branch_id"`
	CtxAction string          `json:"ctx_action_name"`
	Context   json.RawMessage `json:"action_context"`
	Params    string          `json:"params,omitempty"`
	Outcome   string          `json:"outcome"`
}

type tccAction struct {
	name string
}

var (
	tccMu      sync.Mutex
	tccProxies = map[string]*tcc.TCCServiceProxy{}
	tccScripts = map[string]*tccScript{}
	tccCalls   []tccCall
	tccCounts  = map[string]int{}
)

func (a *tccAction) GetActionName() string { return a.name }

func tccOutcome(list []string, n int) string {
	if len(list) == 0 {
		return "ok"
	}
	if n >= len(list) {
		n = len(list) - 1
	}
	return list[n]
}

func tccResult(outcome string) (bool, error) {
	switch outcome {
	case "err":
		return false, errors.New("scripted failure of the user method")
	case "false":
		return false, nil
	case "panic":
		panic("scripted panic of the user method")
	}
	return true, nil
}

func (a *tccAction) record(phase string, ctx context.Context, bac *tm.BusinessActionContext, params interface{}, outcome string) {
	c := tccCall{Phase: phase, Action: a.name, Outcome: outcome}
	if bac == nil {
		bac = tm.GetBusinessActionContext(ctx)
	}
	if bac != nil {
		c.Xid, c.BranchID, c.CtxAction = bac.Xid, bac.BranchId, bac.ActionName
		c.Context, _ = json.Marshal(bac.ActionContext)
	}
	if phase == "try" {
		c.Xid = tm.GetXID(ctx)
		c.Params = fmt.Sprintf("%T", params)
	}
	// the mark is synchronous: its sequence number orders the call against the coordinator's log
	c.Seq = mark("", "tcc-"+phase, map[string]interface{}{"action": a.name, "xid": c.Xid, "branch": c.BranchID})
	tccMu.Lock()
	tccCalls = append(tccCalls, c)
	tccMu.Unlock()
}

func (a *tccAction) Prepare(ctx context.Context, params interface{}) (bool, error) {
	tccMu.Lock()
	sc := tccScripts[a.name]
	tccMu.Unlock()
	out := "ok"
	if sc != nil && sc.Try != "" {
		out = sc.Try
	}
	a.record("try", ctx, nil, params, out)
	return tccResult(out)
}

func (a *tccAction) phaseTwo(phase string, ctx context.Context, bac *tm.BusinessActionContext) (bool, error) {
	tccMu.Lock()
	sc := tccScripts[a.name]
	key := fmt.Sprintf("%s|%s|%d|%s", a.name, bacXid(bac), bacBranch(bac), phase)
	n := tccCounts[key]
	tccCounts[key] = n + 1
	tccMu.Unlock()
	var list []string
	if sc != nil {
		if phase == "commit" {
			list = sc.Commit
		} else {
			list = sc.Rollback
		}
	}
	out := tccOutcome(list, n)
	a.record(phase, ctx, bac, nil, out)
	return tccResult(out)
}

func bacXid(b *tm.BusinessActionContext) string {
	if b == nil {
		return ""
	}
	return b.Xid
}

func bacBranch(b *tm.BusinessActionContext) int64 {
	if b == nil {
		return 0
	}
	return b.BranchId
}

func (a *tccAction) Commit(ctx context.Context, bac *tm.BusinessActionContext) (bool, error) {
	return a.phaseTwo("commit", ctx, bac)
}

func (a *tccAction) Rollback(ctx context.Context, bac *tm.BusinessActionContext) (bool, error) {
	return a.phaseTwo("rollback", ctx, bac)
}

// ---- parameter struct families ----

type tccNested struct {
	X int      `json:"x"`
	Y []string `json:"y"`
}

type tccTagged struct {
	A     int64   `tccParam:"a"`
	B     string  `tccParam:"b"`
	C     float64 // untagged: not part of the context
	d     string  `tccParam:"d"` // unexported: not part of the context
	Skip  string  `tccParam:"-"`
	Empty string  `tccParam:""`
	F     bool    `tccParam:"f"`
}

type tccWithNested struct {
	N  tccNested         `tccParam:"n"`
	M  map[string]int    `tccParam:"m"`
	L  []int64           `tccParam:"l"`
	PI *int64            `tccParam:"pi"`
	PN *tccNested        `tccParam:"pn"`
	I  interface{}       `tccParam:"i"`
	U  map[string]string // untagged
}

type tccWithCtxPtr struct {
	Ctx *tm.BusinessActionContext
	A   int64 `tccParam:"a"`
}

type tccWithCtxVal struct {
	Ctx tm.BusinessActionContext
	B   string `tccParam:"b"`
}

type tccParamSpec struct {
	Kind string                 `json:"kind"` // nil tagged tagged_ptr nested ctx_ptr ctx_ptr_nil ctx_val bac bac_ptr bac_ptr_nil int string map anon_ab anon_fba local_1 local_2
	A    int64                  `json:"a"`
	B    string                 `json:"b"`
	C    float64                `json:"c"`
	F    bool                   `json:"f"`
	N    tccNested              `json:"n"`
	M    map[string]int         `json:"m"`
	L    []int64                `json:"l"`
	PI   *int64                 `json:"pi"`
	PN   *tccNested             `json:"pn"`
	I    json.RawMessage        `json:"i"`
	Pre  map[string]interface{} `json:"pre"` // pre-filled ActionContext of a caller-supplied BusinessActionContext
}

func (p *tccParamSpec) build() interface{} {
	pre := func() *tm.BusinessActionContext {
		b := &tm.BusinessActionContext{}
		if p.Pre != nil {
			b.ActionContext = p.Pre
		}
		return b
	}
	switch p.Kind {
	case "nil":
		return nil
	case "tagged":
		return tccTagged{A: p.A, B: p.B, C: p.C, d: "hidden", Skip: "skipped", Empty: "empty", F: p.F}
	case "tagged_ptr":
		return &tccTagged{A: p.A, B: p.B, C: p.C, d: "hidden", Skip: "skipped", Empty: "empty", F: p.F}
	case "nested":
		var i interface{}
		if len(p.I) > 0 {
			json.Unmarshal(p.I, &i)
		}
		return &tccWithNested{N: p.N, M: p.M, L: p.L, PI: p.PI, PN: p.PN, I: i, U: map[string]string{"u": "untagged"}}
	case "ctx_ptr":
		return &tccWithCtxPtr{Ctx: pre(), A: p.A}
	case "ctx_ptr_nil":
		return &tccWithCtxPtr{A: p.A}
	case "ctx_val":
		return tccWithCtxVal{Ctx: *pre(), B: p.B}
	case "bac":
		return *pre()
	case "bac_ptr":
		return pre()
	case "bac_ptr_nil":
		var b *tm.BusinessActionContext
		return b
	case "anon_ab":
		// anonymous struct types: no type name at all
		return struct {
			A int64  `tccParam:"a"`
			B string `tccParam:"b"`
		}{p.A, p.B}
	case "anon_fba":
		return &struct {
			F bool   `tccParam:"f"`
			B string `tccParam:"note"`
			X string
			A int64 `tccParam:"amount"`
		}{p.F, p.B, "untagged", p.A}
	case "local_1":
		return tccLocalRequest1(p)
	case "local_2":
		return tccLocalRequest2(p)
	case "int":
		return int(p.A)
	case "string":
		return p.B
	case "map":
		return map[string]interface{}{"a": p.A, "b": p.B}
	}
	return nil
}

// two function-local types that share their name (and package path) but not their layout
func tccLocalRequest1(p *tccParamSpec) interface{} {
	type request struct {
		Amount int64  `tccParam:"amount"`
		Target string `tccParam:"target"`
	}
	return request{Amount: p.A, Target: p.B}
}

func tccLocalRequest2(p *tccParamSpec) interface{} {
	type request struct {
		Memo    string `tccParam:"memo"`
		Flag    bool   `tccParam:"flag"`
		Account int64  `tccParam:"account"`
	}
	return &request{Memo: p.B, Flag: p.F, Account: p.A}
}

func tccProxy(name string) (*tcc.TCCServiceProxy, error) {
	tccMu.Lock()
	defer tccMu.Unlock()
	if p := tccProxies[name]; p != nil {
		return p, nil
	}
	p, err := tcc.NewTCCServiceProxy(&tccAction{name: name})
	if err != nil {
		return nil, err
	}
	tccProxies[name] = p
	return p, nil
}

// runTCCStep: {op: tcc, action: name, params: tccParamSpec}: Prepare through the service proxy.
func runTCCStep(ctx context.Context, s *step, st *runState) (r stepResult) {
	r.Op = s.Op
	defer func() {
		if p := recover(); p != nil {
			r.Panic = fmt.Sprint(p)
		}
	}()
	var spec tccParamSpec
	if len(s.Params) > 0 {
		if err := json.Unmarshal(s.Params, &spec); err != nil {
			r.Err = "bad params: " + err.Error()
			return r
		}
	}
	p, err := tccProxy(s.Action)
	if err != nil {
		r.Err = "proxy: " + err.Error()
		return r
	}
	res, err := p.Prepare(ctx, spec.build())
	if err != nil {
		r.Err = err.Error()
	}
	if b, ok := res.(bool); ok && b {
		r.Affected = 1
	}
	return r
}

func init() {
	// tcc_register: create (and register with the coordinator) the proxies of the named actions
	register("tcc_register", func(arg json.RawMessage) (interface{}, error) {
		var names []string
		if err := json.Unmarshal(arg, &names); err != nil {
			return nil, err
		}
		for _, n := range names {
			if _, err := tccProxy(n); err != nil {
				return nil, err
			}
		}
		return nil, nil
	})
	register("tcc_script", func(arg json.RawMessage) (interface{}, error) {
		var m map[string]*tccScript
		if err := json.Unmarshal(arg, &m); err != nil {
			return nil, err
		}
		tccMu.Lock()
		for k, v := range m {
			tccScripts[k] = v
		}
		tccMu.Unlock()
		return nil, nil
	})
	// tcc_calls: the recorded user-method calls since the previous tcc_calls
	register("tcc_calls", func(arg json.RawMessage) (interface{}, error) {
		tccMu.Lock()
		out := tccCalls
		tccCalls = nil
		tccMu.Unlock()
		return out, nil
	})
}
