package main

import (
	"context"
	"errors"
)

func runTCCStep(ctx context.Context, s *step, st *runState) stepResult {
	return stepResult{Op: s.Op, Err: errors.New("tcc step not implemented").Error()}
}
