package main

import (
	"encoding/hex"
	"encoding/json"
	"fmt"
	"sync"

	"seata.apache.org/seata-go/pkg/protocol/codec"
	"seata.apache.org/seata-go/pkg/protocol/message"

	"verif/wire"
)

var codecInit sync.Once

type codecItem struct {
	Msg   *wire.TextMsg `json:"msg,omitempty"`   // encode this message with seata-go
	Bytes string        `json:"bytes,omitempty"` // hex: decode these bytes with seata-go
}

type codecOut struct {
	Bytes string        `json:"bytes,omitempty"` // hex of CodecManager.Encode
	Msg   *wire.TextMsg `json:"msg,omitempty"`   // CodecManager.Decode converted back
	Panic string        `json:"panic,omitempty"`
	Err   string        `json:"err,omitempty"`
}

func init() {
	// codec_batch: for each item either encode a message or decode bytes with the real CodecManager.
	register("codec_batch", func(arg json.RawMessage) (interface{}, error) {
		codecInit.Do(codec.Init)
		var items []codecItem
		if err := json.Unmarshal(arg, &items); err != nil {
			return nil, err
		}
		out := make([]codecOut, len(items))
		for i, it := range items {
			func() {
				defer func() {
					if r := recover(); r != nil {
						out[i].Panic = fmt.Sprint(r)
					}
				}()
				if it.Msg != nil {
					v, err := toSeata(wire.FromText(*it.Msg))
					if err != nil {
						out[i].Err = err.Error()
						return
					}
					b := codec.GetCodecManager().Encode(codec.CodecTypeSeata, v)
					if b == nil {
						out[i].Err = "encode returned nil (no codec registered for the message's type code)"
						return
					}
					out[i].Bytes = hex.EncodeToString(b)
					return
				}
				raw, err := hex.DecodeString(it.Bytes)
				if err != nil {
					out[i].Err = err.Error()
					return
				}
				v := codec.GetCodecManager().Decode(codec.CodecTypeSeata, raw)
				if v == nil {
					out[i].Err = "decode returned nil (no codec registered for the type code)"
					return
				}
				m, err := fromSeata(v)
				if err != nil {
					out[i].Err = err.Error()
					return
				}
				t := wire.ToText(m)
				out[i].Msg = &t
			}()
		}
		return out, nil
	})
	// codec_registry: for every type code of the table: is a codec registered under it, what does the codec say its
	// type is, and what type code does the message value itself report.
	register("codec_registry", func(arg json.RawMessage) (interface{}, error) {
		codecInit.Do(codec.Init)
		type row struct {
			Type       int16 `json:"type"`
			Registered bool  `json:"registered"`
			CodecType  int   `json:"codec_type"`
			MsgType    int   `json:"msg_type"`
		}
		var rows []row
		for _, t := range wire.TypeCodes() {
			r := row{Type: t, CodecType: -1, MsgType: -1}
			c := codec.GetCodecManager().GetCodec(codec.CodecTypeSeata, message.MessageType(t))
			if c != nil {
				r.Registered = true
				r.CodecType = int(c.GetMessageType())
			}
			if v, err := toSeata(&wire.Msg{Type: t, F: map[string]interface{}{}}); err == nil {
				if a, ok := v.(message.MessageTypeAware); ok {
					r.MsgType = int(a.GetTypeCode())
				}
			}
			rows = append(rows, r)
		}
		return rows, nil
	})
}
