package main

import (
	"context"
	"database/sql"
	_ "embed"
	"encoding/json"
	"fmt"
	"os"
	"path/filepath"
	"runtime"
	"strings"
	"sync"
	"time"

	_ "github.com/go-sql-driver/mysql"

	"seata.apache.org/seata-go/pkg/client"
	"seata.apache.org/seata-go/pkg/datasource/sql/undo"
	"seata.apache.org/seata-go/pkg/tm"
	slog "seata.apache.org/seata-go/pkg/util/log"
)

//go:embed seatago.yml.tmpl
var confTmpl string

type dbSpec struct {
	Name    string `json:"name"`
	Driver  string `json:"driver"` // seata-at-mysql | seata-xa-mysql | mysql
	DSN     string `json:"dsn"`
	MaxOpen int    `json:"max_open"`
	MaxIdle int    `json:"max_idle"`
	Class   string `json:"class"` // value of @verif_class announced on every pooled connection
}

type initArg struct {
	TCAddr      string            `json:"tc_addr"`
	LoadBalance string            `json:"load_balance"`
	Replace     map[string]string `json:"replace"` // literal replacements applied to the config template
	DBs         []dbSpec          `json:"dbs"`
}

var (
	initOnce sync.Once
	dbs      = map[string]*sql.DB{}
	dbsMu    sync.Mutex
)

func getDB(name string) *sql.DB {
	dbsMu.Lock()
	defer dbsMu.Unlock()
	return dbs[name]
}

func openDB(sp dbSpec) error {
	db, err := sql.Open(sp.Driver, sp.DSN)
	if err != nil {
		return fmt.Errorf("sql.Open(%s): %v", sp.Driver, err)
	}
	if sp.MaxOpen > 0 {
		db.SetMaxOpenConns(sp.MaxOpen)
	}
	if sp.MaxIdle > 0 {
		db.SetMaxIdleConns(sp.MaxIdle)
	} else if sp.MaxOpen > 0 {
		db.SetMaxIdleConns(sp.MaxOpen)
	}
	if sp.Class != "" && sp.MaxOpen > 0 {
		// announce the connection class on every pooled connection (the fake server records it per connection)
		ctx := context.Background()
		var conns []*sql.Conn
		for i := 0; i < sp.MaxOpen; i++ {
			c, err := db.Conn(ctx)
			if err != nil {
				return fmt.Errorf("pin: %v", err)
			}
			if _, err := c.ExecContext(ctx, "SET @verif_class='"+sp.Class+"'"); err != nil {
				return fmt.Errorf("set class: %v", err)
			}
			conns = append(conns, c)
		}
		for _, c := range conns {
			c.Close()
		}
	}
	dbsMu.Lock()
	dbs[sp.Name] = db
	dbsMu.Unlock()
	return nil
}

func init() {
	// init: initialise the real seata-go client against the fake TC, then open the requested sql.DBs.
	register("init", func(arg json.RawMessage) (interface{}, error) {
		var a initArg
		if err := json.Unmarshal(arg, &a); err != nil {
			return nil, err
		}
		var ierr error
		initOnce.Do(func() {
			conf := strings.ReplaceAll(confTmpl, "127.0.0.1:8091", a.TCAddr)
			if a.LoadBalance != "" {
				conf = strings.ReplaceAll(conf, "type: RandomLoadBalance", "type: "+a.LoadBalance)
			}
			for k, v := range a.Replace {
				if !strings.Contains(conf, k) {
					ierr = fmt.Errorf("config template does not contain %q", k)
					return
				}
				conf = strings.ReplaceAll(conf, k, v)
			}
			wd, _ := os.Getwd()
			p := filepath.Join(wd, "seatago-"+os.Getenv("VERIF_NAME")+".yml")
			if err := os.WriteFile(p, []byte(conf), 0o644); err != nil {
				ierr = err
				return
			}
			client.InitPath(p)
			if os.Getenv("VERIF_QUIET") != "" {
				// only errors are logged (public logging API): keeps write syscalls for the coordinator socket
				slog.InitWithOption(filepath.Join(wd, "seata-"+os.Getenv("VERIF_NAME")+".log"), slog.ErrorLevel)
			}
		})
		if ierr != nil {
			return nil, ierr
		}
		for _, sp := range a.DBs {
			if err := openDB(sp); err != nil {
				return nil, err
			}
		}
		return map[string]interface{}{"ok": true}, nil
	})

	register("open_db", func(arg json.RawMessage) (interface{}, error) {
		var sp dbSpec
		if err := json.Unmarshal(arg, &sp); err != nil {
			return nil, err
		}
		return nil, openDB(sp)
	})

	// set_undo / set_tm: plain setters of seata-go, re-applied between sub-batches.
	register("set_undo", func(arg json.RawMessage) (interface{}, error) {
		var c struct {
			DataValidation        bool   `json:"data_validation"`
			LogSerialization      string `json:"log_serialization"`
			LogTable              string `json:"log_table"`
			OnlyCareUpdateColumns bool   `json:"only_care_update_columns"`
			CompressEnable        bool   `json:"compress_enable"`
			CompressType          string `json:"compress_type"`
			CompressThreshold     string `json:"compress_threshold"`
		}
		if err := json.Unmarshal(arg, &c); err != nil {
			return nil, err
		}
		if c.LogTable == "" {
			c.LogTable = "undo_log"
		}
		if c.CompressThreshold == "" {
			c.CompressThreshold = "64k"
		}
		undo.InitUndoConfig(undo.Config{DataValidation: c.DataValidation, LogSerialization: c.LogSerialization, LogTable: c.LogTable, OnlyCareUpdateColumns: c.OnlyCareUpdateColumns,
			CompressConfig: undo.CompressConfig{Enable: c.CompressEnable, Type: c.CompressType, Threshold: c.CompressThreshold}})
		return nil, nil
	})
	register("set_tm", func(arg json.RawMessage) (interface{}, error) {
		var c struct {
			CommitRetry   int `json:"commit_retry"`
			RollbackRetry int `json:"rollback_retry"`
			TimeoutMs     int `json:"timeout_ms"`
		}
		if err := json.Unmarshal(arg, &c); err != nil {
			return nil, err
		}
		if c.TimeoutMs == 0 {
			c.TimeoutMs = 60000
		}
		tm.InitTm(tm.TmConfig{CommitRetryCount: c.CommitRetry, RollbackRetryCount: c.RollbackRetry, DefaultGlobalTransactionTimeout: time.Duration(c.TimeoutMs) * time.Millisecond})
		return nil, nil
	})
	register("ping", func(arg json.RawMessage) (interface{}, error) { return "pong", nil })
}

func init() {
	// stats: goroutine count, pool statistics and (optionally) a goroutine dump
	register("stats", func(arg json.RawMessage) (interface{}, error) {
		var a struct {
			Dump bool `json:"dump"`
		}
		json.Unmarshal(arg, &a)
		out := map[string]interface{}{"goroutines": runtime.NumGoroutine()}
		pools := map[string]interface{}{}
		dbsMu.Lock()
		for name, db := range dbs {
			st := db.Stats()
			pools[name] = map[string]interface{}{"open": st.OpenConnections, "in_use": st.InUse, "idle": st.Idle, "wait_count": st.WaitCount, "max_open": st.MaxOpenConnections}
		}
		dbsMu.Unlock()
		out["pools"] = pools
		if a.Dump {
			buf := make([]byte, 4<<20)
			out["dump"] = string(buf[:runtime.Stack(buf, true)])
		}
		return out, nil
	})
}
