package main

import (
	"context"
	"database/sql"
	"encoding/hex"
	"encoding/json"
	"errors"
	"fmt"
	"os"
	"runtime/debug"
	"strconv"
	"sync"
	"time"

	"seata.apache.org/seata-go/pkg/tm"
)

// ---- typed SQL arguments / values ----

type tval struct {
	T string `json:"t"` // null i64 u64 f64 str bytes time bool
	V string `json:"v,omitempty"`
}

func (a tval) goValue() (interface{}, error) {
	switch a.T {
	case "null", "":
		return nil, nil
	case "i64":
		return strconv.ParseInt(a.V, 10, 64)
	case "int":
		v, err := strconv.ParseInt(a.V, 10, 64)
		return int(v), err
	case "u64":
		return strconv.ParseUint(a.V, 10, 64)
	case "f64":
		return strconv.ParseFloat(a.V, 64)
	case "f32":
		v, err := strconv.ParseFloat(a.V, 32)
		return float32(v), err
	case "str":
		return a.V, nil
	case "bytes":
		return hex.DecodeString(a.V)
	case "time":
		return time.Parse(time.RFC3339Nano, a.V)
	case "bool":
		return a.V == "true", nil
	}
	return nil, fmt.Errorf("unknown typed value kind %q", a.T)
}

func renderVal(v interface{}) tval {
	switch x := v.(type) {
	case nil:
		return tval{T: "null"}
	case int64:
		return tval{T: "i64", V: strconv.FormatInt(x, 10)}
	case uint64:
		return tval{T: "u64", V: strconv.FormatUint(x, 10)}
	case float64:
		return tval{T: "f64", V: strconv.FormatFloat(x, 'g', -1, 64)}
	case float32:
		return tval{T: "f32", V: strconv.FormatFloat(float64(x), 'g', -1, 32)}
	case string:
		return tval{T: "str", V: x}
	case []byte:
		return tval{T: "bytes", V: hex.EncodeToString(x)}
	case time.Time:
		return tval{T: "time", V: x.UTC().Format(time.RFC3339Nano)}
	case bool:
		return tval{T: "bool", V: strconv.FormatBool(x)}
	}
	return tval{T: fmt.Sprintf("other:%T", v), V: fmt.Sprint(v)}
}

// ---- scope / step language ----

type scope struct {
	Case      string `json:"case"`
	Name      string `json:"name"`
	TimeoutMs int    `json:"timeout_ms"`
	Prop      int    `json:"prop"`
	FreshCtx  bool   `json:"fresh_ctx"` // nested scope: new context carrying only the xid (remote-call style)
	NoGtx     bool   `json:"no_gtx"`    // run the steps without tm.WithGlobalTx (outside any global transaction)
	Steps     []step `json:"steps"`
	Outcome   string `json:"outcome"`   // nil | error | panic
	Label     string `json:"label"`     // label for marks/observations
	CancelAt  string `json:"cancel_at"` // "", before_begin, in_business
	NilConfig bool   `json:"nil_config"`
	ShareConn bool   `json:"share_conn"` // nested scope: use the pinned connection and prepared statements of the enclosing scope
}

type step struct {
	Op        string          `json:"op"` // exec query begin commit rollback prepare stmt_exec stmt_close mark scope sleep cancel conn_pin conn_release tcc
	DB        string          `json:"db,omitempty"`
	SQL       string          `json:"sql,omitempty"`
	Args      []tval          `json:"args,omitempty"`
	What      string          `json:"what,omitempty"`
	Scope     *scope          `json:"scope,omitempty"`
	Ms        int             `json:"ms,omitempty"`
	Stmt      string          `json:"stmt,omitempty"`        // prepared statement handle name
	StopOnErr bool            `json:"stop_on_err,omitempty"` // when this step fails, skip the remaining steps and return its error
	Action    string          `json:"action,omitempty"`
	Params    json.RawMessage `json:"params,omitempty"`
	Isolation int             `json:"isolation,omitempty"` // begin: sql.IsolationLevel
	ReadOnly  bool            `json:"read_only,omitempty"` // begin
}

type stepResult struct {
	Op       string       `json:"op"`
	Err      string       `json:"err,omitempty"`
	ErrNo    int          `json:"errno,omitempty"`
	Panic    string       `json:"panic,omitempty"`
	Affected int64        `json:"affected"`
	LastID   int64        `json:"last_id"`
	Cols     []string     `json:"cols,omitempty"`
	ColTypes []string     `json:"col_types,omitempty"`
	Rows     [][]tval     `json:"rows,omitempty"`
	Scope    *scopeResult `json:"scope,omitempty"`
	Skipped  bool         `json:"skipped,omitempty"`
}

type ctxObs struct {
	Xid   string `json:"xid"`
	Role  string `json:"role"`
	Name  string `json:"name"`
	IsGtx bool   `json:"is_gtx"`
	Seata bool   `json:"seata"`
}

type scopeResult struct {
	Label     string       `json:"label"`
	Returned  string       `json:"returned"` // nil | error | panic
	Err       string       `json:"err,omitempty"`
	PanicVal  string       `json:"panic_val,omitempty"`
	Entered   bool         `json:"entered"` // business callback ran
	XidIn     string       `json:"xid_in"`  // xid seen inside the callback
	CtxIn     ctxObs       `json:"ctx_in"`
	CtxBefore ctxObs       `json:"ctx_before"`
	CtxAfter  ctxObs       `json:"ctx_after"` // context of the caller after the scope returned
	Steps     []stepResult `json:"steps"`
}

func observe(ctx context.Context) ctxObs {
	o := ctxObs{Seata: tm.IsSeataContext(ctx)}
	if !o.Seata {
		return o
	}
	o.Xid = tm.GetXID(ctx)
	o.Name = tm.GetTxName(ctx)
	o.IsGtx = tm.IsGlobalTx(ctx)
	if r := tm.GetTxRole(ctx); r != nil {
		o.Role = r.String()
	}
	return o
}

var (
	cancels   = map[string]context.CancelFunc{}
	cancelsMu sync.Mutex
)

type bizPanic struct{ v string }

var errBusiness = errors.New("verif: business error")

type runState struct {
	cs    string
	tx    *sql.Tx
	conn  *sql.Conn
	stmts map[string]*sql.Stmt
	// conn and stmts belong to the enclosing scope (share_conn): not closed here
	borrowed bool
}

func runScope(parent context.Context, sc *scope, cs string, outer ...*runState) *scopeResult {
	res := &scopeResult{Label: sc.Label}
	ctx := parent
	if sc.FreshCtx {
		// remote-call style: a fresh context carrying only the xid of the caller
		xid := ""
		if tm.IsSeataContext(parent) {
			xid = tm.GetXID(parent)
		}
		ctx = tm.InitSeataContext(context.Background())
		if xid != "" {
			tm.SetXID(ctx, xid)
		}
	}
	var cancel context.CancelFunc
	if sc.CancelAt != "" || sc.Case != "" {
		ctx, cancel = context.WithCancel(ctx)
		if sc.Case != "" {
			cancelsMu.Lock()
			cancels[sc.Case] = cancel
			cancelsMu.Unlock()
			defer func() {
				cancelsMu.Lock()
				delete(cancels, sc.Case)
				cancelsMu.Unlock()
			}()
		}
		defer cancel()
	}
	res.CtxBefore = observe(ctx)
	if sc.CancelAt == "before_begin" {
		cancel()
	}
	business := func(ctx context.Context) error {
		res.Entered = true
		res.XidIn = tm.GetXID(ctx)
		res.CtxIn = observe(ctx)
		mark(cs, "cb.enter", map[string]interface{}{"label": sc.Label, "xid": res.XidIn, "role": res.CtxIn.Role, "name": res.CtxIn.Name})
		st := &runState{cs: cs, stmts: map[string]*sql.Stmt{}}
		if sc.ShareConn && len(outer) > 0 && outer[0] != nil {
			st.conn, st.stmts, st.borrowed = outer[0].conn, outer[0].stmts, true
		}
		var stepErr error
		for i := range sc.Steps {
			if stepErr != nil {
				res.Steps = append(res.Steps, stepResult{Op: sc.Steps[i].Op, Skipped: true})
				continue
			}
			r := runStep(ctx, &sc.Steps[i], st)
			res.Steps = append(res.Steps, r)
			if sc.Steps[i].StopOnErr && (r.Err != "" || r.Panic != "") {
				stepErr = errors.New("step failed: " + r.Err + r.Panic)
			}
		}
		st.cleanup()
		if sc.CancelAt == "in_business" {
			cancel()
		}
		mark(cs, "cb.exit", map[string]interface{}{"label": sc.Label, "outcome": sc.Outcome})
		if stepErr != nil {
			return stepErr
		}
		switch sc.Outcome {
		case "error":
			return errBusiness
		case "panic":
			panic(bizPanic{"verif business panic " + sc.Label})
		}
		return nil
	}
	func() {
		defer func() {
			if r := recover(); r != nil {
				res.Returned = "panic"
				if bp, ok := r.(bizPanic); ok {
					res.PanicVal = "business:" + bp.v
				} else {
					res.PanicVal = fmt.Sprintf("foreign:%v", r)
				}
			}
		}()
		var err error
		if sc.NoGtx {
			err = business(ctx)
		} else {
			var gc *tm.GtxConfig
			if !sc.NilConfig {
				gc = &tm.GtxConfig{Name: sc.Name, Timeout: time.Duration(sc.TimeoutMs) * time.Millisecond, Propagation: tm.Propagation(sc.Prop)}
			}
			err = tm.WithGlobalTx(ctx, gc, business)
		}
		if err != nil {
			res.Returned = "error"
			res.Err = err.Error()
		} else {
			res.Returned = "nil"
		}
	}()
	res.CtxAfter = observe(parent)
	mark(cs, "call.return", map[string]interface{}{"label": sc.Label, "returned": res.Returned, "err": res.Err, "panic": res.PanicVal})
	return res
}

func (st *runState) cleanup() {
	if st.tx != nil {
		st.tx.Rollback()
		st.tx = nil
	}
	if st.borrowed {
		return
	}
	for _, s := range st.stmts {
		s.Close()
	}
	if st.conn != nil {
		st.conn.Close()
		st.conn = nil
	}
}

type execer interface {
	ExecContext(ctx context.Context, q string, args ...interface{}) (sql.Result, error)
	QueryContext(ctx context.Context, q string, args ...interface{}) (*sql.Rows, error)
	PrepareContext(ctx context.Context, q string) (*sql.Stmt, error)
}

func errNo(err error) int {
	var me interface{ Error() string }
	_ = me
	type numbered interface{ Is(error) bool }
	// *mysql.MySQLError has a Number field; avoid importing the driver type: parse "Error NNNN"
	s := err.Error()
	for i := 0; i+6 < len(s); i++ {
		if s[i:i+6] == "Error " {
			n := 0
			j := i + 6
			for j < len(s) && s[j] >= '0' && s[j] <= '9' {
				n = n*10 + int(s[j]-'0')
				j++
			}
			if n > 0 {
				return n
			}
		}
	}
	return 0
}

func runStep(ctx context.Context, s *step, st *runState) (r stepResult) {
	r.Op = s.Op
	defer func() {
		if p := recover(); p != nil {
			r.Panic = fmt.Sprint(p)
			fmt.Fprintf(os.Stderr, "STEP-PANIC %s %q: %v\n%s\n", s.Op, s.SQL, p, debug.Stack())
		}
	}()
	fail := func(err error) stepResult {
		if err != nil {
			r.Err = err.Error()
			r.ErrNo = errNo(err)
		}
		return r
	}
	args := make([]interface{}, 0, len(s.Args))
	for _, a := range s.Args {
		v, err := a.goValue()
		if err != nil {
			return fail(err)
		}
		args = append(args, v)
	}
	target := func() (execer, error) {
		if st.tx != nil {
			return st.tx, nil
		}
		if st.conn != nil {
			return st.conn, nil
		}
		db := getDB(s.DB)
		if db == nil {
			return nil, fmt.Errorf("unknown db %q", s.DB)
		}
		return db, nil
	}
	switch s.Op {
	case "mark":
		mark(st.cs, s.What, nil)
	case "sleep":
		time.Sleep(time.Duration(s.Ms) * time.Millisecond)
	case "cancel":
		cancelsMu.Lock()
		c := cancels[st.cs]
		cancelsMu.Unlock()
		if c != nil {
			c()
		}
	case "scope":
		r.Scope = runScope(ctx, s.Scope, st.cs, st)
	case "conn_pin":
		db := getDB(s.DB)
		if db == nil {
			return fail(fmt.Errorf("unknown db %q", s.DB))
		}
		c, err := db.Conn(ctx)
		if err != nil {
			return fail(err)
		}
		st.conn = c
	case "conn_release":
		if st.conn != nil {
			err := st.conn.Close()
			st.conn = nil
			return fail(err)
		}
	case "begin":
		var tx *sql.Tx
		var err error
		var opts *sql.TxOptions
		if s.Isolation != 0 || s.ReadOnly {
			opts = &sql.TxOptions{Isolation: sql.IsolationLevel(s.Isolation), ReadOnly: s.ReadOnly}
		}
		if st.conn != nil {
			tx, err = st.conn.BeginTx(ctx, opts)
		} else {
			db := getDB(s.DB)
			if db == nil {
				return fail(fmt.Errorf("unknown db %q", s.DB))
			}
			tx, err = db.BeginTx(ctx, opts)
		}
		if err != nil {
			return fail(err)
		}
		st.tx = tx
	case "commit":
		if st.tx == nil {
			return fail(errors.New("no local tx"))
		}
		err := st.tx.Commit()
		st.tx = nil
		return fail(err)
	case "rollback":
		if st.tx == nil {
			return fail(errors.New("no local tx"))
		}
		err := st.tx.Rollback()
		st.tx = nil
		return fail(err)
	case "exec":
		t, err := target()
		if err != nil {
			return fail(err)
		}
		res, err := t.ExecContext(ctx, s.SQL, args...)
		if err != nil {
			return fail(err)
		}
		if res != nil {
			r.Affected, _ = res.RowsAffected()
			r.LastID, _ = res.LastInsertId()
		} else {
			r.Err = "nil sql.Result with nil error"
		}
	case "query":
		t, err := target()
		if err != nil {
			return fail(err)
		}
		rows, err := t.QueryContext(ctx, s.SQL, args...)
		if err != nil {
			return fail(err)
		}
		return fail(readRows(rows, &r))
	case "prepare":
		t, err := target()
		if err != nil {
			return fail(err)
		}
		ps, err := t.PrepareContext(ctx, s.SQL)
		if err != nil {
			return fail(err)
		}
		st.stmts[s.Stmt] = ps
	case "stmt_exec":
		ps := st.stmts[s.Stmt]
		if ps == nil {
			return fail(errors.New("unknown stmt"))
		}
		res, err := ps.ExecContext(ctx, args...)
		if err != nil {
			return fail(err)
		}
		r.Affected, _ = res.RowsAffected()
		r.LastID, _ = res.LastInsertId()
	case "stmt_query":
		ps := st.stmts[s.Stmt]
		if ps == nil {
			return fail(errors.New("unknown stmt"))
		}
		rows, err := ps.QueryContext(ctx, args...)
		if err != nil {
			return fail(err)
		}
		return fail(readRows(rows, &r))
	case "stmt_close":
		ps := st.stmts[s.Stmt]
		if ps != nil {
			delete(st.stmts, s.Stmt)
			return fail(ps.Close())
		}
	case "tcc":
		return runTCCStep(ctx, s, st)
	default:
		return fail(fmt.Errorf("unknown step op %q", s.Op))
	}
	return r
}

func readRows(rows *sql.Rows, r *stepResult) error {
	defer rows.Close()
	cols, err := rows.Columns()
	if err != nil {
		return err
	}
	r.Cols = cols
	if cts, err := rows.ColumnTypes(); err == nil {
		for _, ct := range cts {
			st := ""
			if ct.ScanType() != nil {
				st = ct.ScanType().String()
			}
			r.ColTypes = append(r.ColTypes, ct.DatabaseTypeName()+"/"+st)
		}
	}
	for rows.Next() {
		vals := make([]interface{}, len(cols))
		ptrs := make([]interface{}, len(cols))
		for i := range vals {
			ptrs[i] = &vals[i]
		}
		if err := rows.Scan(ptrs...); err != nil {
			return err
		}
		row := make([]tval, len(cols))
		for i, v := range vals {
			row[i] = renderVal(v)
		}
		r.Rows = append(r.Rows, row)
	}
	return rows.Err()
}

func init() {
	// gtx: run one scope tree (a global transaction script) and return everything observed by the caller.
	register("gtx", func(arg json.RawMessage) (interface{}, error) {
		var sc scope
		if err := json.Unmarshal(arg, &sc); err != nil {
			return nil, err
		}
		mark(sc.Case, "case.begin", nil)
		res := runScope(context.Background(), &sc, sc.Case)
		mark(sc.Case, "case.end", nil)
		return res, nil
	})
	// cancel: cancel the context of a running case (used by the world when it observes a chosen frame).
	register("cancel", func(arg json.RawMessage) (interface{}, error) {
		var a struct {
			Case string `json:"case"`
		}
		json.Unmarshal(arg, &a)
		cancelsMu.Lock()
		c := cancels[a.Case]
		cancelsMu.Unlock()
		if c != nil {
			c()
			return true, nil
		}
		return false, nil
	})
}
