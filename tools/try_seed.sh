#!/bin/bash
# usage: try_seed.sh <patch.diff> <check> [tier]  -- applies the patch to /repo, runs the check, restores /repo
export GOFLAGS=-mod=mod GOPROXY=off GOSUMDB=off GOTOOLCHAIN=local
patch=$1; check=$2; tier=${3:-quick}
if [ -n "$(git -C /repo status --porcelain)" ]; then echo "repo dirty"; exit 3; fi
git -C /repo apply "$patch" || { echo "apply failed"; exit 3; }
cd /verif && timeout 1800 bin/vcheck "$check" --tier "$tier" > /tmp/try_seed.$$.log 2>&1
rc=$?
git -C /repo reset -q && git -C /repo checkout -- . && git -C /repo clean -fdq
echo "check=$check rc=$rc"
grep -c "^VIOLATION" /tmp/try_seed.$$.log
grep "^VIOLATION" /tmp/try_seed.$$.log | sed 's/replay=[^ ]*//' | cut -c1-300 | sort | uniq -c | sort -rn | head -${TRY_SEED_LINES:-6}
tail -2 /tmp/try_seed.$$.log | cut -c1-300
rm -f /tmp/try_seed.$$.log
