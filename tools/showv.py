#!/usr/bin/env python3
import json,sys,glob
pat=sys.argv[1]
filt=sys.argv[2:] 
n=0
for f in sorted(glob.glob(pat)):
    d=json.load(open(f)); v=d['violation']
    feats=v.get('features') or {}
    ok=True
    for x in filt:
        k,val=x.split('=',1)
        if str(feats.get(k))!=val and not (k=='clause' and v['clause']==val): ok=False
    if not ok: continue
    n+=1
    print('=====',f,v['clause'])
    print(v['detail'][:700])
    c=v.get('case') or {}
    for t in c.get('tables',[]): print('  T',t)
    for g in c.get('program',[]):
        print('  group explicit=',g['explicit_tx'])
        for s in g['stmts']:
            print('     ',s['sql'][:300],' ARGS',[a.get('v','NULL') for a in s.get('args',[])][:16])
    h=v.get('history') or {}
    for s in h.get('steps',[]) or []:
        print('   step',s.get('op'),'aff',s.get('affected'),'err',(s.get('err') or '')[:300],'panic',(s.get('panic') or '')[:200])
    print('   returned',h.get('returned'),(h.get('err') or '')[:200],'statuses',h.get('rollback_statuses'),'undo left',h.get('undo_rows_left'))
    for e in h.get('events',[]) or []: print('   ',e[:330])
    for e in h.get('client_log_errors',[]) or []: print('   LOG',e[:400])
    if n>=int(__import__('os').environ.get('N','1')): break
