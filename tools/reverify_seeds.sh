#!/bin/bash
# Re-confirms every packaged seed against the current /repo HEAD in scratch worktrees (apply, build, full suite,
# demonstration with / without the change), four at a time. Output: one line per seed.
cd /verif
one() {
  d=$1
  id=$(basename $d)
  pkg=$(python3 -c "import json;print(json.load(open('$d/meta.json'))['demo']['place_in'])")
  run=$(python3 -c "
import json,re
r=json.load(open('$d/meta.json'))['demo']['run']
m=re.search(r'-run\s+(\S+)',r); print(m.group(1).strip(\"'\"))")
  extra=$(python3 -c "
import json
r=json.load(open('$d/meta.json'))['demo']['run']
import re
m=re.search(r'-count=1\s+(.*?)-run', r)
print((m.group(1) if m else '').strip())")
  /verif/tools/verify_seed.sh $id /verif/$d/patch.diff /verif/$d/demo_test.go $pkg "$run" "$extra" 2>&1 | tail -1
}
export -f one
ls -d seeded/*/ | sed 's#/$##' | xargs -P ${PAR:-4} -I{} bash -c 'one {}'
