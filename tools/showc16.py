import json,sys
d=json.load(open(sys.argv[1]))
v=d['violation']
print(v['clause'], v['detail'][:400]); print(v['features'])
h=v['history']; c=v['case']
for s in c['steps']: print('  STEP',json.dumps(s)[:220])
print('proxy steps:')
for s in h['proxy_steps']: print('    ',json.dumps(s)[:260])
print('bare steps:')
for s in h['bare_steps']: print('    ',json.dumps(s)[:260])
print('proxy journal')
for l in h['proxy_journal']: print('   ',l[:260])
print('bare journal')
for l in h['bare_journal']: print('   ',l[:220])
print(h['coordinator_requests'], h['proxy_returned'])
