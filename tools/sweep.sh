#!/bin/bash
# usage: sweep.sh <tier> <seed> [ids...]  -- runs the checks one after the other, prints one line per check
tier=${1:-quick}; seed=${2:-1}; shift 2
ids=${@:-C01 C02 C03 C04 C05 C06 C07 C08 C09 C10 C11 C12 C13 C14 C15 C16 C17 C18 C19 C20}
cd /verif
for id in $ids; do
  t0=$(date +%s)
  VERIF_SEED=$seed timeout 7200 bin/vcheck $id --tier $tier > /tmp/sweep.$id.$tier.$seed.log 2>&1
  rc=$?
  t1=$(date +%s)
  echo "$id tier=$tier seed=$seed rc=$rc wall=$((t1-t0))s :: $(grep -v '^KNOWN-FINDING\|^VIOLATION\|^  by-clause\|^…' /tmp/sweep.$id.$tier.$seed.log | tail -1 | cut -c1-160)"
  grep '^VIOLATION\|^ERROR' /tmp/sweep.$id.$tier.$seed.log | head -3 | cut -c1-260
done
