#!/usr/bin/env python3
"""Regenerates the tables of DESIGN.md §8 (between the ASBUILT markers) from known_findings.json, seeded/*/meta.json
and the commit log of /repo. The prose of §8 lives in tools/asbuilt_prose.md."""
import json, os, subprocess, glob, re

ROOT = os.path.dirname(os.path.dirname(os.path.abspath(__file__)))
kf = json.load(open(os.path.join(ROOT, "known_findings.json")))["findings"]
prose = open(os.path.join(ROOT, "tools", "asbuilt_prose.md")).read()

def cell(s):
    return s.replace("|", "\\|").replace("\n", " ")

out = [prose.rstrip(), ""]
out.append("### 8.4 Genuine defects repaired in /repo (`fix:` commits; suite re-run with hooks off)\n")
out.append("| id | property | commit | clause that fired | what failed |")
out.append("|---|---|---|---|---|")
for f in kf:
    if f["status"] == "fixed":
        out.append(f"| {f['id']} | {f['property']} | `{f.get('commit','')}` | {cell(f.get('clause',''))} | {cell(f['description'])} |")
out.append("")
out.append("### 8.5 Genuine defects recorded, not repaired (open entries of known_findings.json)\n")
out.append("| id | property | clause | predicate | what fails and why it is not repaired |")
out.append("|---|---|---|---|---|")
for f in kf:
    if f["status"] == "open":
        out.append(f"| {f['id']} | {f['property']} | {cell(f.get('clause',''))} | `{cell(json.dumps(f.get('predicate',{})))}` | {cell(f['description'])} |")
out.append("")
out.append("### 8.6 Seeded changes and the checks that catch them\n")
out.append("Each directory under `seeded/` holds `patch.diff`, the sub-agent's demonstration (`demo_test.go`), its notes and `meta.json` (what breaks, what is needed, how it was confirmed). None is committed to /repo.\n")
out.append("| seed | breaks (short) | caught by |")
out.append("|---|---|---|")
for d in sorted(glob.glob(os.path.join(ROOT, "seeded", "*"))):
    mp = os.path.join(d, "meta.json")
    if not os.path.exists(mp):
        continue
    m = json.load(open(mp))
    b = m.get("breaks", "")
    b = re.split(r" :: ", b)[0]
    out.append(f"| {os.path.basename(d)} | {cell(b[:160])} | {cell(m.get('caught_by','') or '—')} |")
out.append("")
try:
    log = subprocess.check_output(["git", "-C", "/repo", "log", "--format=%h %s", "--reverse"], text=True).splitlines()
    fixes = [l for l in log if re.match(r"^[0-9a-f]+ (fix:|verif hook:)", l)]
    out.append("### 8.7 Commits made to /repo (oldest first)\n")
    out.append("```")
    out.extend(fixes)
    out.append("```\n")
except Exception as e:
    out.append(f"(git log unavailable: {e})")

p = os.path.join(ROOT, "DESIGN.md")
s = open(p).read()
begin, end = "<!-- ASBUILT:BEGIN -->", "<!-- ASBUILT:END -->"
block = begin + "\n" + "\n".join(out) + "\n" + end
if begin in s:
    s = s[: s.index(begin)] + block + s[s.index(end) + len(end):]
else:
    s = s.rstrip() + "\n\n" + block + "\n"
open(p, "w").write(s)
print("DESIGN.md §8 regenerated:", len(out), "lines")
