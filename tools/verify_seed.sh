#!/bin/bash
# usage: verify_seed.sh <name> <patch.diff> <demo file> <package dir relative to repo> <go test -run regexp>
# Confirms in a scratch worktree of /repo HEAD: patch applies, builds, full suite passes, demo fails with / passes without.
set -u
name=$1; patch=$2; demo=$3; pkg=$4; run=$5; extra=${6:-}
export GOFLAGS=-mod=mod GOPROXY=off GOSUMDB=off GOTOOLCHAIN=local
wt=/tmp/vs-$name
git -C /repo worktree remove --force $wt 2>/dev/null
git -C /repo worktree add -q --detach $wt HEAD || exit 3
cd $wt
res="name=$name"
if git apply -3 "$patch" >/dev/null 2>&1; then res="$res apply=ok"; else res="$res apply=FAIL"; echo "$res"; cd /; git -C /repo worktree remove --force $wt; exit 1; fi
git reset -q
if go build ./... >/dev/null 2>&1; then res="$res build=ok"; else res="$res build=FAIL"; fi
fails=$(go test -vet=off -count=1 -timeout 25m ./... 2>&1 | grep -c "^FAIL\|^--- FAIL")
res="$res suite_fail_lines=$fails"
mkdir -p $pkg
cp "$demo" $pkg/zz_demo_test.go
if go test -vet=off -count=1 $extra -run "$run" ./$pkg/ >/tmp/vs-$name.with.log 2>&1; then res="$res demo_with_change=PASS(unexpected)"; else res="$res demo_with_change=fail(expected)"; fi
rm $pkg/zz_demo_test.go
git checkout -q -- .
mkdir -p $pkg
cp "$demo" $pkg/zz_demo_test.go
if go test -vet=off -count=1 $extra -run "$run" ./$pkg/ >/tmp/vs-$name.without.log 2>&1; then res="$res demo_without_change=pass(expected)"; else res="$res demo_without_change=FAIL(unexpected)"; fi
rm $pkg/zz_demo_test.go
cd /
git -C /repo worktree remove --force $wt
echo "$res"
