#!/bin/bash
# Applies every packaged seed to /repo in turn, runs the check of its property (quick tier), restores /repo.
cd /verif
for d in seeded/*/; do
  id=$(basename $d); prop=${id%%-*}
  echo "=== $id vs $prop"
  tools/try_seed.sh /verif/$d/patch.diff $prop quick 2>&1 | head -4 | cut -c1-260
done
