#!/usr/bin/env python3
"""Regenerates /verif/MANIFEST.json from the table below (kept in one place so the manifest is always valid)."""
import json, os, subprocess

ROOT = os.path.dirname(os.path.dirname(os.path.abspath(__file__)))
props = [json.loads(l) for l in open(os.path.join(ROOT, "properties.jsonl"))]

# id -> (category, technique, text, note, design_ref)
CLAIMED = {
 "C11": ("exploration",
         "runtime monitor with fault injection: the fake coordinator sends BranchCommit requests for planted undo_log rows over three resources; transient DELETE errors, an unreachable database with killed pooled connections and a resource registered only later are injected; the monitor reads the undo_log tables and journals of the fake databases and the coordinator's frame log",
         "Settings {defaults; limit 6 / 100 ms / channel 8 / 1 worker / buffer 1; limit 3 / 50 ms / channel 4 / 2 workers / buffer 1} x scenarios {plain, concurrent burst, duplicates, DELETE errors, database unreachable, late resource} over grids of xids x branch ids (shared both ways) with uncommitted neighbours: every request answered PhaseTwo_Committed, every committed row gone after the faults stopped and the worker stayed inactive for 40 clean-interval ticks (>= 6 s), no other row ever deleted.",
         "'Eventually' is restated as bounded progress (40 ticks of inactivity, >= 6 s, after the last fault); a row still present then counts as lost. undo_log rows are planted directly (no phase one).",
         "DESIGN.md §4 C11"),
 "C12": ("exploration",
         "differential runtime monitor: real CodecManager (in a client child built from /repo) vs. an independent Seata-v1 layout table, over generated messages",
         "Every generated message of all 24 types is encoded by the real codec and compared byte-for-byte with an independently written layout table, decoded back from both byte strings, and over-long error messages are checked for decodable truncation; registry rows are enumerated completely. Holds on the K cases reported in evidence, no more.",
         "Trusted base: harness/wire layout table (transcribed from the Seata 1.x Java serializer). Values are valid UTF-8; str16 fields up to 65535 bytes.",
         "DESIGN.md §4 C12"),
 "C13": ("exploration",
         "runtime monitor over a replica of getty's receive loop driving the real RpcPackageHandler.Read; ground truth from an independent framer; exhaustive cut positions for short streams",
         "Generated frame streams (and fixed ones whose middle frame is 2^16-1 ... 2^16+head length+1 or 2^17 bytes long) are fed to the real frame reader under every 2-cut, byte-wise feed, truncated prefixes (streams <= 400 bytes), every 3-cut (<= 70 bytes), boundary cuts and random partitions; delivered messages, consumed lengths, need-more answers, errors, panics and zero-progress returns are compared with the independent framer's ground truth; head maps are round-tripped through the real Write and Read.",
         "Trusted base: harness/wire framer; the loop replica follows dubbo-getty v1.5.0 handleTCPPackage. Garbage input is only required not to panic or spin.",
         "DESIGN.md §4 C13"),
 "C04": ("fault_enumeration",
         "runtime monitor: real TM (WithGlobalTx) in a client child against a scripted fake coordinator; offline decision-table oracle over the coordinator's per-xid request log and the returned value",
         "Enumerates callback outcome x begin behaviour x second-phase reply sequences (transport failures up to the retry bound, then success/failed result) x retry setting {0,1,2,3} x cancellation point x joined scopes; checks never-both, no decision for joined scopes, decision matches the callback outcome, attempt bound, no retry after a result, and that nil is returned only for an acknowledged commit of a successful business.",
         "Fake TC on the independent wire codec; transport failure = no reply within the client's 20 s wait or a session reset; quick tier keeps at most one no-reply per sequence and two reset cases per retry setting.",
         "DESIGN.md §4 C04"),
 "C05": ("exploration",
         "runtime monitor: recording TCC actions registered through the public proxy API in a client child; the fake coordinator's frame log, synchronous marks emitted by the user methods (ordered by the world's logical clock) and the phase-two responses are compared with a model of the parameter-capture rules written in the check",
         "Global transactions with 1..3 Prepare calls over 3 actions (ASCII, punctuated and non-ASCII names) x 17 parameter shapes (named, anonymous and same-named function-local struct types; tagged / untagged / unexported / ignored fields, nested structs, maps, slices, nil and non-nil pointers, interface values, embedded action context by pointer / nil pointer / value with pre-filled entries, bare contexts, non-struct values, nil) x try outcome x registration {granted, refused, unanswered} x phase-two sequence {single, 2-3 repeats, unknown resource, empty / non-JSON / non-object application data, commit then rollback} x user outcome {ok, error then ok, false, panic}: one TCC BranchRegister with the modelled application data strictly before try; no try after a failed registration; per request exactly one call of the matching method with the same xid / branch id and a JSON-equivalent context; success status iff the user method returned no error; unknown resources and unreadable data run no user code, report no success and leave the client alive.",
         "A request whose user method failed may stay unanswered or carry a retryable-failed status. The try outcome is scripted per action within one case.",
         "DESIGN.md §4 C05"),
 "C06": ("fault_enumeration",
         "runtime monitor with fault injection: deliveries of prepare / commit / rollback run in a client child the way the fence API is meant to be used (one local transaction holds fence.WithFence and a business effect row); after every delivery the fence table and the effects table of the fake database are compared with a five-state model and with the invariant 'effect rows <-> fence status'; a second stream drives the fence driver (two connections)",
         "ALL delivery sequences over {prepare, commit, rollback} of length 1..4 (plus a failing / panicking business method at one position), random interleavings of 2-3 branches sharing the table; for 9 base sequences a database failure {error, connection lost before / after execution} at every command index of every step followed by a clean redelivery; 8 racing pairs x 12 (outcome must equal a serial order, or one delivery alone with the other one refused by an error); the interleaving 'rollback reads nothing - whole late try - rollback inserts' steered from inside the fake database; fence driver: every command index of prepare / commit / rollback. Verdicts: each effect at most once, never confirm and cancel, empty rollback records a suspension without effect and a later try is refused, record and effect commit or roll back together, nil error exactly when the model accepts.",
         "The business effect is written through the transaction passed to WithFence, committed iff WithFence returned nil. For the fence driver only the 'together' clause is judged (its BeginTx cannot tell the caller to skip a duplicate); open finding C06-K1.",
         "DESIGN.md §4 C06"),
 "C07": ("exploration",
         "runtime monitor: real WithGlobalTx scope trees and gRPC/gin/dubbo integrations in a client child against the fake coordinator; oracle = reference interpreter of the documented propagation semantics over the coordinator's per-xid request log plus context observations inside and after every scope",
         "ALL scope chains up to depth 3 over six propagation modes x two outcomes, for a shared context and for a fresh context carrying the xid, plus sampled two-child trees; per logical transaction the begin and the single decision by its launcher, xid/role seen by every callback, precondition failures of Mandatory/Never, and integrity of the enclosing context after each inner scope are compared with the model. Integrations are coupled through the real metadata/http/attachment carriers with generated xid strings and every accepted key spelling; two overlapping requests (different xids) on a gin / gRPC server whose base context is a shared seata context must each keep their own xid from handler entry to exit.",
         "Reference interpreter in harness/checks/c07.go encodes the documented semantics; child errors are not propagated by parents (independent outcomes).",
         "DESIGN.md §4 C07"),
 "C14": ("exploration",
         "runtime monitor + Go race detector: concurrent SendSyncRequest callers in a -race client child against a scripted fake coordinator whose replies identify the request they answer; verif-tagged accessors for pending futures; goroutine-dump monitor for blocked response delivery",
         "N in {2..512} concurrent callers under reply permutations, delays across heart-beats, sequential duplicates and bursts of 2-17 copies of one reply, drops, unsolicited responses, phase-two requests with colliding ids, late replies (thorough), a connection reset, and requests a session-open listener sends on sessions that have since been lost (refused at once, no future left); each caller must get exactly the response carrying its own name and frame id or a timeout error; after every script a fresh request must complete, no goroutine may be parked in response delivery and (at the end) no message future may remain.",
         "Quiescence is logical (callers returned + round trip). A race report whose conflicting accesses all lie in the message-future code (GettyRemoting / GettyRemotingClient / message future) is a violation of this property (a duplicate that was stored instead of discarded); all other race reports are attributed to C20. The reset scenario assumes getty's reconnect.",
         "DESIGN.md §4 C14"),
 "C15": ("exploration",
         "runtime monitor + Go race detector: a scripted recording resource manager registered through the public rm API in a -race client child; the fake coordinator delivers mixed concurrent phase-two request streams; offline matching of responses by message id in the coordinator's frame log",
         "Per request: number of responses carrying its message id, response type, xid and branch id, status equal to what the manager returned, no success status when the manager failed or panicked, routing by branch type (recorded manager calls, one per request, right arguments), and independence from unrelated held requests; four batches override the SAGA slot, AT, TCC and XA managers in turn; each batch ends with requests whose message ids equal those of pending client requests; a further stream alternates requests between two managers of different branch types that know the same resource id.",
         "The scripted manager replaces the real manager of its branch type in that child; requests of the other types go to the real managers with unknown resources (only addressing and count are judged for them).",
         "DESIGN.md §4 C15"),
 "C01": ("exploration",
         "runtime monitor: real AT proxy driver + TM + RM in client children against a MySQL-wire-protocol fake (ground-truth journal and snapshots) and the fake coordinator; model-free oracle snapshot(before) == snapshot(after rollback round)",
         "Generated schemas (int / auto-increment / composite with key order != column order / varchar / 3-column keys, nullable columns, 16 column kinds) x initial rows x DML programs (1-3 branches, autocommit or explicit local transactions, INSERT single/multi-row, UPDATE, DELETE, upsert hit/miss, parameters or literals, 0/1/many rows) x undo configurations (serializer, compressor, validation, only-care-update-columns) x delivery (immediately / after unrelated committed transactions). After the coordinator's BranchRollback round the committed tables must equal the pre-transaction snapshot, no undo_log row of the xid may remain, and 'rollbacked' must be answered iff so.",
         "MySQL is harness/minimysql (own conformance tests through the real go-sql-driver); InnoDB specifics are not modelled. A failed statement ends the business function (application-style error handling).",
         "DESIGN.md §4 C01"),
 "C02": ("fault_enumeration",
         "runtime monitor with fault injection at the database wire protocol and at the coordinator: every command position of a program's baseline journal x {error, connection dropped before/after}, registration refused/failed (with and without exception code)/unanswered, failing branch reports; offline invariants over the merged database journal and coordinator log",
         "Per (program, fault): register reply < undo-log insert < COMMIT on one connection with the granted branch id; business rows durable iff the undo row is durable; on failure the caller gets an error, nothing is durable, a registered branch is reported PhaseOne_Failed, and no pooled connection is left idle inside a transaction.",
         "Fault positions come from a fault-free baseline run of the same program on a fresh table. A failing COMMIT is modelled as InnoDB does (nothing committed, transaction ended). Client crash points (SIGKILL just before / right after every command position) run for 2 programs in the quick tier and 10 in the thorough tier, each crash in a client of its own.",
         "DESIGN.md §4 C02"),
 "C03": ("exploration",
         "runtime monitor: lock keys parsed independently from BranchRegister / GlobalLockQuery frames in the fake coordinator's log vs. the rows each COMMIT made durable in the fake database's journal; scripted lock-query answers; two overlapping global transactions under scripted reply orders",
         "Every durable row must be named (table, pk values) by the lock key of the registration preceding its commit, with one key text per row across the run and across statement forms (rows inserted with a shuffled column list are written again by UPDATE / DELETE; rows written and then read with a locking select in one transaction; int, varchar, composite, look-alike composite text and byte-valued keys); SELECT ... FOR UPDATE returns rows only after a lockable answer naming them and releases its local locks on conflict; no commit while the coordinator's lock table has the row held by another xid or after a refused registration.",
         "Lock-key grammar and lock-table semantics are those of Seata (keys opaque to the coordinator). Interleavings of the two-transaction part are limited to orders the database's row locks permit.",
         "DESIGN.md §4 C03"),
 "C08": ("exploration",
         "runtime monitor: the (context, rollback_info) pair the real flush sends to the fake database is decoded by an independent reader selected by the context alone (own context parser, own decompressor table, own JSON and protobuf-wire readers) and compared value by value with ground-truth row versions; the real rollback path then has to read the same pair with data validation on",
         "62 cells = serializer {json, protobuf} x compress type {None, Gzip, Zip, Bzip2, Lz4, Deflate, Zstd, unknown spellings} x threshold {0, 2k, 64k} (+ compression disabled), each with generated programs over 17 column kinds (NULL, empty / base64-, number-, JSON-looking strings, full-range signed and unsigned 64-bit integers, FLOAT/DOUBLE/DECIMAL, DATE/DATETIME(6)/TIMESTAMP(3), BLOB/VARBINARY) and logs of up to 1 MB that compress by more than 100:1; verdicts: context sufficient to decode, written values and key flags == ground truth, rollback answers Rollbacked and restores the pre-state (the executors' own equality accepted the decoded images), no panic.",
         "An undo log the flush refuses to write (error to the caller, nothing committed - e.g. Lz4 on incompressible input) gets no verdict. Row membership of images is C18's subject.",
         "DESIGN.md §4 C08"),
 "C09": ("exploration",
         "runtime monitor: real AT driver + RM in a client child against the MySQL-protocol fake and the fake coordinator; a foreign writer (plain connection) modifies the branch's rows between local commit and BranchRollback; three-way oracle on ground-truth row versions (before branch / after branch / current) taken from the fake database, never from the undo log",
         "Committed branches (INSERT 1/3 rows, UPDATE 1/many rows incl. value-preserving updates, DELETE 1/many rows, upsert hit/miss; five key shapes incl. composite text keys whose parts run into each other when concatenated; a third of the tables with nullable columns and statements that leave NULL behind) x foreign modification {none, written column, unwritten column, delete, re-insert same/different, some rows of many, revert to before} x foreign value {far, near: neighbour integers incl. beyond 2^53, next float, numeric-looking text in another spelling, +1 s} x only-care-update-columns x serializer; dirty rows must survive with the undo log kept and a non-Rollbacked answer; rows equal to the before image => Rollbacked without a durable write; rows equal to the after image => restored.",
         "Validation-off runs are a control group without verdict. Mixed before/after row sets without a dirty row get no verdict (the code compares whole image sets and refuses, which is conservative). A row matched but left unchanged by the branch only has to survive.",
         "DESIGN.md §4 C09"),
 "C10": ("fault_enumeration",
         "runtime monitor with fault injection at the database wire protocol and logical barriers inside the fake database: repeated and simultaneous BranchRollback deliveries; a failure at every command index of the rollback transaction followed by a clean retry; BranchRollback delivered while phase one is held at its undo-log INSERT or at its COMMIT; oracles over ground-truth snapshots and the coordinator's frame log",
         "repeat: 1..3 sequential deliveries and 2 simultaneous ones per branch -> every sequential delivery Rollbacked, state == pre-state, later deliveries write nothing; faults: every command of the rollback transaction (BEGIN, undo-log SELECT FOR UPDATE, validation reads, each compensation, undo-log DELETE, COMMIT) x {error, connection lost before/after execution} -> tables equal the phase-one state with the undo log kept or the pre-state, never in between, Rollbacked only with the pre-state, clean retry restores and answers Rollbacked; late: 1..3 deliveries while phase one is held -> if answered Rollbacked the held local commit fails and commits nothing, final retry ends in the pre-state.",
         "The loser of two simultaneous deliveries may fail on the marker's unique key without an answer (the coordinator retries); only the following retry must be Rollbacked. The fake database ends the transaction when COMMIT fails. Hold at COMMIT relies on the fake's row-lock wait (1.5 s) like InnoDB's.",
         "DESIGN.md §4 C10"),
 "C19": ("exploration",
         "runtime monitor: (1) the real loadbalance.Select in a client child over a long-lived registry of monitor-owned sessions with generated open / close / release / select histories, checked against the set of registered open sessions at each selection; (2) connection cuts (orderly close, reset) injected by the fake coordinator at generated points of a workload of a fully initialised client (AT data source + TCC actions), with the coordinator-side frame log as the record of what the client announces on the new session; (3) a running client with the XID policy and two fake coordinators, each of which puts its own address into the xids it hands out",
         "Five policies x 4 histories of 60-200 actions over 4 addresses with xids naming open / closed / unknown addresses or malformed: chosen session registered and open at that moment, nil only when none is open, XID policy honours ip:port. Routing: every request that carries an xid (GlobalCommit / GlobalRollback, BranchRegister, BranchReport, GlobalLockQuery of TM-only, TCC, AT and locking-read transactions) arrives at the coordinator that began the transaction. Cuts while idle / with a request in flight / between phase one and phase two, once and three times in a row, each on a client of its own: RegisterTM and RegisterRM for every earlier resource on the new session within 20 s, a new global transaction begins, the earlier branch's phase two is answered and restores the data.",
         "Cases whose connection is never re-established within 20 s are inconclusive (the property presupposes re-establishment): dubbo-getty stops reconnecting after an orderly close by the peer and seata-go has no reconnect timer, see DESIGN.md observations.",
         "DESIGN.md §4 C19"),
 "C20": ("exploration",
         "Go race detector + runtime monitors: one client child built with -race (both tiers) runs rounds of concurrent global transactions of all kinds through shared database handles and TCC actions while the fake coordinator drives phase two concurrently, fresh tables appear every round and the server closes idle pooled connections; race-report files (GORACE log_path, halt_on_error=0) are parsed and deduplicated by the first seata-go frame of each accessing stack; goroutine count, pool statistics and a watchdog per transaction",
         "24 (thorough: 48) concurrent transactions per round x 4 (30) rounds + warm-up, kinds {AT 1-3 statements, XA autocommit, TCC prepare, AT+TCC} x {commit, rollback} on private rows: no race report with a seata-go frame in an accessing stack, every transaction returns within 120 s, every phase-two request is answered within three attempts, every third AT / TCC request is delivered three times and each delivery answered, the commit buffer holds 6 entries and is flushed every 20 ms, no pooled connection in use and no goroutine growth beyond max(15, transactions/4) after 5 s of quiescence.",
         "Only interleavings that happened are judged; the check is repeated over seeds for reach. Races inside the harness, the MySQL driver or getty without a seata-go frame in the accessing stacks are not attributed.",
         "DESIGN.md §4 C20"),
 "C16": ("exploration",
         "differential runtime monitor: the same generated statement program runs in one client process through the AT proxy, through the XA proxy and through the bare go-sql-driver against three fake databases with identical content; step results, statement journals, final committed contents and the coordinator's request log are compared",
         "Programs of queries, DML (literal / bound arguments, duplicate keys, syntax errors, unknown tables), prepared statements, explicit local transactions (default, isolation level, read-only; commit or rollback), pinned connections, multi-statement texts, DDL, locking reads, upserts, INSERT column lists in another order, unsigned 64-bit arguments; a second batch outside global transactions with server-side parameters; mixed programs that use one dedicated connection inside and then outside a global transaction (phase two delivered before the global end is answered, as the real coordinator does for XA); every database opened a second time with clientFoundRows=true (value-preserving UPDATEs through the second handles); optionally with the server closing the idle pooled connections in between, or losing a connection right after it executed a statement (the driver's 'invalid connection': not to be repeated). Outside a global transaction (AT and XA proxies): identical journal (text, arguments, order), identical results (rows, column names/types, affected, last insert id, error number and text), no coordinator traffic. Inside a committed AT global transaction: identical business statement results, identical committed data, same business statements in the same order.",
         "DSN as in seata-go's documentation and tests (interpolateParams=true). Metadata lookups and undo_log traffic are excluded from the journal comparison. Four open findings (C16-K1..K4) are reported as KNOWN-FINDING; a program hit by one of them is not judged further (K4: once phase two has closed the dedicated connection of a mixed XA program, its remaining statements cannot be compared). XA inside a global transaction is C17's subject.",
         "DESIGN.md §4 C16"),
 "C17": ("fault_enumeration",
         "runtime monitor with fault injection: statements run through the XA proxy inside global transactions against a fake database that implements the MySQL XA state machine; the XA commands of the database journal are grouped by branch identifier and checked against the legal sequence; identifiers, registrations, caller errors, phase-two answers and durable data are related to each other; a second client process that never saw phase one handles phase two for servers >= 8.0.29",
         "Autocommit statements (also 2..3 of them on one dedicated connection, 8.0.32) and explicit local transactions (1..3 statements), 1..2 branches per global transaction, forced pairs (a phase one that fails at XA END / PREPARE directly followed by a failing statement on the same pooled connection), server versions 5.7.36 / 8.0.32, commit / rollback, phase two on the holder or on another process, and a failure {error, connection lost before / after} at XA START, at the business statement, at XA END, at XA PREPARE, or a refused registration (also with a business function that carries on with the next statement on the same dedicated connection): no business statement durable by itself, START < statements < END < PREPARE < exactly one COMMIT or ROLLBACK per identifier; identifier determined by (xid, branch id) and reused by phase two; BranchRegister before XA START; failures before a successful PREPARE reach the caller, end in a rolled-back branch and never in COMMIT; answers match the durable data; nothing dangling.",
         "The fake database follows the MySQL reference manual's XA state table; InnoDB's XA recovery is not modelled. Two branches of one global transaction use different tables. A PREPARE whose reply was lost gets no verdict.",
         "DESIGN.md §4 C17"),
 "C18": ("exploration",
         "runtime monitor: ground-truth matched/changed rows recorded by the fake database for the business command vs. the images in the undo_log row read with an independent JSON reader",
         "One intercepted statement per case (UPDATE/DELETE with generated WHERE trees incl. parentheses, IN, BETWEEN, ORDER BY/LIMIT and parameters at every position; INSERT 1-4 rows; single- and multi-row upserts incl. NULL in a unique column of the first value group with a later group colliding through that index, update lists assigning key columns; pk-changing updates) over five key shapes and both only-care-update-columns settings: changed rows ⊆ image rows ⊆ matched rows, exact field values, required columns present, pk changes rejected, rejected statements leave nothing durable.",
         "json serializer without compression; minimysql's record of matched/changed rows is the ground truth.",
         "DESIGN.md §4 C18"),
}

NOT_YET = "check not implemented yet in this revision of the framework (work in progress; see DESIGN.md §4 for the planned monitor)"

def main():
    checks = []
    na = []
    for p in props:
        pid = p["id"]
        if pid in CLAIMED:
            cat, tech, text, note, ref = CLAIMED[pid]
            checks.append({
                "property_id": pid,
                "quick_cmd": f"./bin/vcheck {pid} --tier quick",
                "thorough_cmd": f"./bin/vcheck {pid} --tier thorough",
                "evidence_file": f"evidence/{pid}.json",
                "replay_cmd_template": f"./bin/vcheck {pid} --replay {{path}}",
                "engine": "vcheck",
                "level_claimed": {"category": cat, "text": text, "design_ref": ref},
                "level_note": note,
                "technique": tech,
            })
        else:
            na.append({"property_id": pid, "reason": NOT_YET})
    hooks_commits = []
    try:
        out = subprocess.run(["git", "-C", "/repo", "log", "--format=%h %s"], capture_output=True, text=True).stdout
        hooks_commits = [l.split()[0] for l in out.splitlines() if l.split(" ", 1)[1].startswith("verif hook")]
    except Exception:
        pass
    m = {
        "version": 1,
        "setup_cmd": "./setup.sh",
        "hooks": {
            "guard": "verif",
            "enable": "go build -tags verif (vcheck builds harness/client against /repo's working tree through a replace directive)",
            "baseline_off_cmd": "cd /repo && GOFLAGS=-mod=mod GOPROXY=off GOSUMDB=off GOTOOLCHAIN=local go test -json -vet=off -count=1 -timeout 25m ./...",
            "source_commits": hooks_commits,
            "add_only": True,
        },
        "engines": [{"name": "vcheck", "path": "harness/cmd/vcheck", "serves_properties": sorted(CLAIMED),
                     "kind_free_text": "runtime monitoring: world process (fake MySQL wire server, fake Seata TC, logical clock) + client children running the real seata-go built from /repo; offline oracles over recorded event logs; Go race detector"}],
        "checks": checks,
        "not_applicable": na,
        "notes": "Every check rebuilds harness/client from /repo's current working tree (tags: verif). known_findings.json lists genuine defects (open = suppressed + KNOWN-FINDING line, fixed = suppresses nothing).",
    }
    json.dump(m, open(os.path.join(ROOT, "MANIFEST.json"), "w"), indent=1)
    print("claimed:", sorted(CLAIMED), "not_applicable:", len(na))

main()
