#!/usr/bin/env python3
"""pack_seed.py <ID> <n> <pkgdir> <run regexp> <verify log> [extra go test flags] -- copies a sub-agent's seeded change
from /tmp/seed/<ID>-out into /verif/seeded/<ID>-<n>/ (patch.diff, demo_test.go, notes.md, meta.json)."""
import json, os, re, shutil, sys
pid, n, pkg, run, vlog = sys.argv[1:6]
extra = sys.argv[6] if len(sys.argv) > 6 else ""
# SRC / SRCN: deliverables of a later round live in another directory under their own number
src = os.environ.get("SRC", f"/tmp/seed/{pid}-out")
sn = os.environ.get("SRCN", n)
dst = f"/verif/seeded/{pid}-{n}"
os.makedirs(dst, exist_ok=True)
shutil.copy(f"{src}/change{sn}.diff", f"{dst}/patch.diff")
shutil.copy(f"{src}/demo{sn}_test.go", f"{dst}/demo_test.go")
shutil.copy(f"{src}/change{sn}.md", f"{dst}/notes.md")
md = open(f"{src}/change{sn}.md").read()
title = md.strip().split("\n")[0].lstrip("# ").strip()
def section(pat):
    m = re.search(r"^#+\s*[^\n]*(" + pat + r")[^\n]*\n(.*?)(?=^#+\s|\Z)", md, re.S | re.M | re.I)
    return re.sub(r"\s+", " ", m.group(2)).strip()[:700] if m else ""
needs = section("need|condition|manifest")
breaks = section("break")
res = ""
for l in open(vlog):
    if l.startswith(f"name={pid}-{n} "):
        res = l.strip()
meta = {
    "property": pid,
    "breaks": (title + " :: " + breaks)[:900],
    "needs_to_manifest": needs,
    "demo": {"file": "demo_test.go", "place_in": pkg, "run": f"go test -vet=off -count=1 {extra} -run {run} ./{pkg}/"},
    "confirmed": {"how": "tools/verify_seed.sh in a scratch worktree of /repo HEAD: git apply, go build ./..., full suite, demo with and without the change", "result": res},
    "caught_by": "",
    "origin": "independent sub-agent given only the property text and a scratch worktree",
}
old = f"{dst}/meta.json"
if os.path.exists(old):
    try:
        meta["caught_by"] = json.load(open(old)).get("caught_by", "")
    except Exception:
        pass
json.dump(meta, open(old, "w"), indent=1)
print(dst, res[:120])
